SPECIFICATION GSpec
VIEW GView
CONSTANTS
  Apps <- TwoApps
  MaxVer = 2
  MaxRuns = 2
  NStmt = 2
  InjectFaults = TRUE
  AllowDeviations = FALSE
  Intro <- IntroA1
  Grp <- GrpA1
  EmitHistories = TRUE
CONSTRAINT GConstraint
INVARIANT Converged
INVARIANT RerunIsNoop
INVARIANT FailedRunIsInvisible
INVARIANT RejectTouchesNothing
INVARIANT ExecuteOnlyIfSimulatesToTarget
INVARIANT ExecutedAtMostOnce
INVARIANT RecordedAtMostOnce
INVARIANT RecordedOnlyWithTables
INVARIANT RecordedWithinVersions
INVARIANT FreshRecordsWithoutExecuting
INVARIANT EvolvingAtMostOnce
INVARIANT EvolvingBeforeAnyChange
INVARIANT ExactlyOneTerminalSignal
INVARIANT EvolvedIffSaved
INVARIANT PairedUnlessFailed
INVARIANT EndSignalsTruthful
INVARIANT NoTerminalWithoutEvolving
INVARIANT NoPartialAtRest
