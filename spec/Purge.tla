------------------------------- MODULE Purge -------------------------------
(***************************************************************************)
(* Purging stale apps, DeleteModel and DeleteApplication (property C15).    *)
(*                                                                         *)
(* A fixed universe of three apps whose table names are prefixes of each    *)
(* other, with optional relations chosen by Init (every subset):            *)
(*   p : A (table p_a), B (custom table p_a_x)                              *)
(*       ownM2M  : A.rel  = ManyToManyField(B)     -> table p_a_rel  (of p) *)
(*       farM2M  : A.far  = ManyToManyField(r.C)   -> table p_a_far  (of p) *)
(*   pq: D (custom table p_a_more), E (pq_e)                                *)
(*       E.parent = ForeignKey('self'): a model referring to itself has no  *)
(*       table besides its own and imposes no order on deletions            *)
(*   r : C (r_c), F (r_f)                                                   *)
(*       crossFK : F.a    = ForeignKey(p.A)        -> column in r_f         *)
(*       crossM2M: F.many = ManyToManyField(p.A)   -> table r_f_many (of r) *)
(* Django refuses to start with a relation into an app that is not          *)
(* installed, so uninstalling p comes with an evolution of r that deletes   *)
(* F.a / F.many in the same upgrade.                                        *)
(*                                                                         *)
(* Steps: Uninstall(app), DropModel(app, model) (models.py loses the model, *)
(* the app gains an evolution DeleteModel), Evolve(purge); and a fault:     *)
(* Tamper(t) - somebody dropped a stale app's table by hand, so the purge   *)
(* fails on its DROP TABLE - with Repair (the table is put back).  A failed *)
(* purge leaves tables AND stored signature as they were, so that the purge *)
(* can be repeated.                                                         *)
(***************************************************************************)
EXTENDS Naturals, Sequences, FiniteSets, TLC, Json

CONSTANTS MaxOps, EmitRecords, WithFaults,
          PurgeAtomic,           \* TRUE: a failing purge changes nothing (the design)
                                 \* FALSE: every stale app is purged in a transaction of its own, so the
                                 \*        apps purged BEFORE the failing one stay dropped, while the
                                 \*        stored signature - saved at the very end - still names them
                                 \*        (as the code is; open finding)
          PurgeRemovesAppSig     \* TRUE: a purged app leaves the stored signature (as repaired, ce736c3)
                                 \* FALSE: its emptied entry stays (as found)

VARIABLES feats,      \* chosen optional relations
          installed,  \* apps in INSTALLED_APPS
          models,     \* app -> models currently in models.py
          pendDel,    \* <<app, model>> with a pending DeleteModel evolution
          tables,     \* tables in the database
          sig,        \* stored signature: app -> set of model names
          refsGone,   \* r.F's relations into p have been deleted by r's own evolution
          missing,    \* tables of a stale app that were dropped by hand (fault)
          hist        \* operations so far

vars == <<feats, installed, models, pendDel, tables, sig, refsGone, missing, hist>>

Apps == {"p", "pq", "r"}
(* customM2M (only together with ownM2M): A.rel is declared with db_table = 'p_links', and the
   name its table would have had by default, p_a_rel, is the table of another app's model
   (pq.D) *)
Feats == {"ownM2M", "farM2M", "crossFK", "crossM2M", "customM2M"}
AllModels == [p |-> {"A", "B"}, pq |-> {"D", "E"}, r |-> {"C", "F"}]
TableOfF(a, m, fs) == CASE m = "A" -> "p_a" [] m = "B" -> "p_a_x"
                       [] m = "D" -> (IF "customM2M" \in fs THEN "p_a_rel" ELSE "p_a_more")
                       [] m = "E" -> "pq_e" [] m = "C" -> "r_c" [] OTHER -> "r_f"

(* automatically created many-to-many tables, by owning model *)
M2MOf(a, m, fs) ==
    (IF m = "A" /\ "ownM2M" \in fs THEN {IF "customM2M" \in fs THEN "p_links" ELSE "p_a_rel"} ELSE {})
    \cup (IF m = "A" /\ "farM2M" \in fs THEN {"p_a_far"} ELSE {})
    \cup (IF m = "F" /\ "crossM2M" \in fs THEN {"r_f_many"} ELSE {})
OwnedByModel(a, m, fs) == {TableOfF(a, m, fs)} \cup M2MOf(a, m, fs)
OwnedByApp(a, ms, fs) == UNION { OwnedByModel(a, m, fs) : m \in ms }

(* relations INTO app p held by models of r: they have to go when p goes *)
RefsIntoP(fs) == fs \cap {"crossFK", "crossM2M"}

Init == /\ feats \in { fs \in SUBSET Feats : "customM2M" \in fs => "ownM2M" \in fs }
        /\ installed = Apps
        /\ models = AllModels
        /\ pendDel = {}
        /\ tables = UNION { OwnedByApp(a, AllModels[a], feats) : a \in Apps }
        /\ sig = AllModels
        /\ refsGone = FALSE
        /\ missing = {}
        /\ hist = <<>>

Log(op) == hist' = Append(hist, op)

Uninstall(a) ==
    /\ missing = {}
    /\ a \in installed /\ Cardinality(installed) > 1
    /\ \A d \in pendDel : d[1] # a
    \* r refers to p (r.F -> p.A, and p.A -> r.C): r can only go together with p's relation,
    \* so only allow removing r once p is gone or p has no relation to r
    /\ (a = "r" => ("p" \notin installed \/ "farM2M" \notin feats))
    /\ installed' = installed \ {a}
    /\ Log([op |-> "uninstall", app |-> a])
    /\ UNCHANGED <<feats, models, pendDel, tables, sig, refsGone, missing>>

(* a model leaves models.py; the app's next evolution is DeleteModel(m) *)
DropModel(a, m) ==
    /\ missing = {}
    /\ a \in installed /\ m \in models[a]
    \* only models nothing else (still present) refers to
    /\ ~(m = "A" /\ a = "p" /\ "r" \in installed /\ RefsIntoP(feats) # {} /\ "F" \in models["r"])
    /\ ~(m = "B" /\ "ownM2M" \in feats /\ "A" \in models["p"])
    /\ ~(m = "C" /\ "farM2M" \in feats /\ "p" \in installed /\ "A" \in models["p"])
    /\ models' = [models EXCEPT ![a] = @ \ {m}]
    /\ pendDel' = pendDel \cup {<<a, m>>}
    /\ Log([op |-> "dropmodel", app |-> a, model |-> m])
    /\ UNCHANGED <<feats, installed, tables, sig, refsGone, missing>>

(* every model of an app leaves models.py at once (the app stays installed, model-less) *)
DropAll(a) ==
    /\ missing = {}
    /\ a \in installed /\ models[a] = AllModels[a]
    /\ \/ a = "pq"
       \/ (a = "p" /\ (RefsIntoP(feats) = {} \/ "r" \notin installed \/ "F" \notin models["r"]))
       \/ (a = "r" /\ ("farM2M" \notin feats \/ "p" \notin installed \/ "A" \notin models["p"]))
    /\ models' = [models EXCEPT ![a] = {}]
    /\ pendDel' = pendDel \cup { <<a, m>> : m \in models[a] }
    /\ Log([op |-> "dropall", app |-> a])
    /\ UNCHANGED <<feats, installed, tables, sig, refsGone, missing>>

(* As found: within one upgrade the apps' evolutions run in INSTALLED_APPS order
   (p before r) and the purges afterwards, in signature order (p before r).  Once
   p.A is gone from the signature, DeleteModel('F') cannot even build the model F,
   whose relation still names p.A: the whole upgrade is refused
   (MissingSignatureError) and nothing changes.  Not so when F is deleted by r's
   evolution and A only by the purge of p, which comes later. *)
RefOrderHazard(dels, purged) ==
    LET aByEvo == <<"p", "A">> \in dels
        aByPurge == "p" \in purged /\ "A" \in sig["p"]
        fByEvo == <<"r", "F">> \in dels
        fByPurge == "r" \in purged /\ "F" \in sig["r"]
        cByEvo == <<"r", "C">> \in dels
    IN \/ /\ RefsIntoP(feats) # {} /\ ~refsGone
          /\ (aByEvo \/ aByPurge) /\ (fByEvo \/ fByPurge)
          /\ ~(fByEvo /\ ~aByEvo)
       \* the other direction, p.A.far -> r.C: r's evolution deletes C, the purge of p
       \* then has to delete A, whose relation names r.C
       \/ /\ "farM2M" \in feats /\ cByEvo /\ aByPurge
       \* the referenced model went in an EARLIER upgrade, while the referrer's app was already
       \* stale (uninstalled, its models still in the signature): the signature has named a model
       \* that does not exist ever since, and the model that names it cannot be built to be dropped
       \/ /\ RefsIntoP(feats) # {} /\ ~refsGone
          /\ (fByEvo \/ fByPurge) /\ ("p" \notin DOMAIN sig \/ "A" \notin sig["p"])
       \/ /\ "farM2M" \in feats /\ aByPurge /\ ("r" \notin DOMAIN sig \/ "C" \notin sig["r"])

RECURSIVE SetToSeq(_)
SetToSeq(S) == IF S = {} THEN <<>> ELSE LET x == CHOOSE y \in S : TRUE IN <<x>> \o SetToSeq(S \ {x})
(* stale apps are purged in the order the signature lists them: the order of installation *)
AppRank(a) == CASE a = "p" -> 1 [] a = "pq" -> 2 [] OTHER -> 3

(* the evolutions of the installed apps have nothing left to do *)
NothingPending ==
    /\ { d \in pendDel : d[1] \in installed } = {}
    /\ ~("p" \notin installed /\ "r" \in installed /\ "F" \in models["r"]
          /\ RefsIntoP(feats) # {} /\ ~refsGone)
StaleTables == UNION { OwnedByApp(a, sig[a], feats) : a \in (DOMAIN sig) \ installed }

(* fault: one table of a stale app is dropped behind the tool's back *)
Tamper(t) ==
    /\ missing = {} /\ NothingPending
    /\ t \in StaleTables \cap tables
    /\ tables' = tables \ {t}
    /\ missing' = {t}
    /\ Log([op |-> "tamper", table |-> t])
    /\ UNCHANGED <<feats, installed, models, pendDel, sig, refsGone>>
Repair ==
    /\ missing # {}
    /\ tables' = tables \cup missing
    /\ missing' = {}
    /\ Log([op |-> "repair"])
    /\ UNCHANGED <<feats, installed, models, pendDel, sig, refsGone>>

(* one upgrade run *)
Evolve(purge) ==
    LET dels    == { d \in pendDel : d[1] \in installed }
        \* r's evolution that removes the relations into p once p is not installed
        dropRefs == "p" \notin installed /\ "r" \in installed /\ "F" \in models["r"]
        t1      == tables \ UNION { OwnedByModel(d[1], d[2], feats) : d \in dels }
        t2      == IF dropRefs THEN t1 \ {"r_f_many"} ELSE t1
        stale   == { a \in DOMAIN sig : a \notin installed }
        purged  == IF purge THEN stale ELSE {}
        t3      == t2 \ UNION { OwnedByApp(a, sig[a], feats) : a \in purged }
        s1      == [a \in DOMAIN sig |-> sig[a] \ { d[2] : d \in { x \in dels : x[1] = a } }]
        s2      == IF PurgeRemovesAppSig
                   THEN [a \in (DOMAIN s1) \ purged |-> s1[a]]
                   ELSE [a \in DOMAIN s1 |-> IF a \in purged THEN {} ELSE s1[a]]
    IN IF RefOrderHazard(dels, purged)
       THEN /\ Log([op |-> "evolve", purge |-> purge, refused |-> TRUE, failed |-> FALSE, partial |-> <<>>])
            /\ UNCHANGED <<feats, installed, models, tables, sig, pendDel, refsGone, missing>>
       ELSE IF missing \cap UNION { OwnedByApp(a, sig[a], feats) : a \in purged } # {}
       \* DROP TABLE of a table that is not there: the purge fails; what is stored still
       \* names the app, so that the purge can be run again
       THEN LET bad(a) == missing \cap OwnedByApp(a, sig[a], feats) # {}
                failing == CHOOSE a \in purged : bad(a) /\ \A b \in purged : bad(b) => AppRank(a) <= AppRank(b)
                earlier == { b \in purged : AppRank(b) < AppRank(failing) /\ sig[b] # {} }
            IN /\ Log([op |-> "evolve", purge |-> purge, refused |-> FALSE, failed |-> TRUE,
                        partial |-> IF PurgeAtomic THEN <<>> ELSE SetToSeq(earlier)])
               /\ tables' = IF PurgeAtomic THEN tables
                             ELSE tables \ UNION { OwnedByApp(b, sig[b], feats) : b \in earlier }
               \* ... and from then on those tables are missing although the signature names them
               /\ missing' = IF PurgeAtomic THEN missing
                              ELSE missing \cup (tables \cap UNION { OwnedByApp(b, sig[b], feats) : b \in earlier })
               /\ UNCHANGED <<feats, installed, models, sig, pendDel, refsGone>>
       ELSE /\ tables' = t3
            /\ missing' = missing
            /\ sig' = s2
            /\ pendDel' = pendDel \ dels
            /\ refsGone' = (refsGone \/ dropRefs)
            /\ Log([op |-> "evolve", purge |-> purge, refused |-> FALSE, failed |-> FALSE, partial |-> <<>>])
            /\ UNCHANGED <<feats, installed, models>>

Next == /\ Len(hist) < MaxOps
        /\ \/ \E a \in Apps : Uninstall(a)
           \/ \E a \in Apps : \E m \in AllModels[a] : DropModel(a, m)
           \/ \E a \in Apps : DropAll(a)
           \/ \E b \in BOOLEAN : Evolve(b)
           \/ (WithFaults /\ \E t \in StaleTables : Tamper(t))
           \/ (WithFaults /\ Repair)

Spec == Init /\ [][Next]_vars

---------------------------------------------------------------------------
(* C15 *)

(* tables of apps that are still installed and of models still defined are never dropped *)
LiveTables == UNION { OwnedByApp(a, models[a], IF "p" \in installed THEN feats ELSE feats \ RefsIntoP(feats))
                        : a \in installed }
NothingLiveDropped == LiveTables \ {"r_f_many"} \subseteq tables
(* without --purge nothing of an uninstalled app goes away *)
NoPurgeKeepsEverything ==
    [][ (\E x \in {FALSE} : Evolve(x)) =>
          \A a \in (DOMAIN sig) \ installed :
              /\ OwnedByApp(a, sig[a], feats) \cap tables \subseteq tables'
              /\ a \in DOMAIN sig' /\ sig'[a] = sig[a] ]_vars
(* with --purge exactly the stale apps' tables and signature entries go *)
Refused == hist'[Len(hist')].op = "evolve" /\ (hist'[Len(hist')].refused \/ hist'[Len(hist')].failed)
(* a purge that fails changes neither the tables nor what the stored signature says:
   what is stored keeps describing what is there *)
FailedPurgeChangesNothing ==
    [][ (PurgeAtomic /\ hist' # hist /\ hist'[Len(hist')].op = "evolve" /\ hist'[Len(hist')].failed)
          => (tables' = tables /\ sig' = sig) ]_vars
(* whatever happened, every table of an app the signature no longer names is gone, unless
   it was put back by hand: the signature never forgets an app whose tables are still there *)
SigForgetsOnlyDroppedApps ==
    \A a \in Apps \ installed : a \notin DOMAIN sig =>
        OwnedByApp(a, AllModels[a], feats) \cap tables \subseteq
            UNION { OwnedByApp(b, AllModels[b], feats) : b \in installed }
PurgeDropsExactlyOwned ==
    [][ ((\E x \in {TRUE} : Evolve(x)) /\ ~Refused) =>
          \A a \in (DOMAIN sig) \ installed :
              /\ OwnedByApp(a, sig[a], feats) \cap tables' = {}
              /\ (PurgeRemovesAppSig => a \notin DOMAIN sig') ]_vars
(* after a purging upgrade the signature lists exactly the installed apps' remaining models *)
SigMatchesAfterPurge ==
    [][ ((\E x \in {TRUE} : Evolve(x)) /\ ~Refused) =>
          (PurgeRemovesAppSig => DOMAIN sig' \subseteq installed) ]_vars

Emit == (EmitRecords /\ hist # <<>> /\ hist[Len(hist)].op = "evolve") =>
          PrintT(<<"REC", ToJson([feats |-> SetToSeq(feats), hist |-> hist,
                                   tables |-> SetToSeq(tables),
                                   sig |-> [a \in DOMAIN sig |-> SetToSeq(sig[a])],
                                   installed |-> SetToSeq(installed)])>>)
Constraint == Emit
=============================================================================
