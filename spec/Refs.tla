-------------------------------- MODULE Refs --------------------------------
(***************************************************************************)
(* Cross-references between models across apps (property C11).             *)
(*                                                                         *)
(* A project signature is reduced to what C11 talks about:                 *)
(*   psig : AppLabel -> ModelName -> FieldName -> [kind, rel]              *)
(* where rel is None or <<app label, model name>> (the related_model        *)
(* string "app.Model").  The actions transcribe the relation-relevant part  *)
(* of the simulate() methods of RenameModel, RenameAppLabel, RenameField,   *)
(* DeleteField, DeleteModel and DeleteApplication.                          *)
(*                                                                         *)
(* Init chooses ANY assignment of relation targets to the relation fields,  *)
(* so every cross-model / cross-app / self reference pattern in scope is    *)
(* explored.                                                                *)
(***************************************************************************)
EXTENDS Naturals, Sequences, FiniteSets, TLC, Json

CONSTANTS MaxLen, EmitRecords,
          FocusLabels,      \* TRUE: only behaviours that begin with two app-label renames (label juggling:
                            \* a label set free and taken by the other app), then anything
          AppLabelFixed     \* TRUE: RenameAppLabel rewrites references (as repaired);
                            \* FALSE: as originally found (it never does)

VARIABLES psig, seq, deleted, psig0

vars == <<psig, seq, deleted, psig0>>

None == <<>>        \* no relation (the empty tuple, comparable with <<app, model>>)

Apps0   == {"p", "q"}
(* q also has a model called A: two apps holding a model of the same name (a relation can name either) *)
Models0 == { <<"p", "A">>, <<"p", "B">>, <<"q", "C">>, <<"q", "A">> }
NewModelName == "D"
NewAppLabel  == "r"

Has(d, k) == k \in DOMAIN d
Drop(d, k) == [x \in (DOMAIN d) \ {k} |-> d[x]]
Put(d, k, v) == [x \in (DOMAIN d) \cup {k} |-> IF x = k THEN v ELSE d[x]]

Targets == Models0
RelChoice == Targets \cup {None}

MkModel(fk, m2m) ==
    LET base == [f \in {"id", "r", "m"} |->
                   CASE f = "id" -> [kind |-> "pk", rel |-> None]
                     [] f = "r"  -> [kind |-> "FK", rel |-> fk]
                     [] OTHER    -> [kind |-> "M2M", rel |-> m2m]]
    IN [f \in { x \in {"id", "r", "m"} : x = "id" \/ base[x].rel # None } |-> base[f]]

Init == /\ \E ra \in RelChoice, rb \in RelChoice, rc \in RelChoice, ma \in RelChoice :
              psig = [a \in Apps0 |->
                        IF a = "p" THEN [m \in {"A", "B"} |->
                                           IF m = "A" THEN MkModel(ra, ma) ELSE MkModel(rb, None)]
                        ELSE [m \in {"C", "A"} |-> IF m = "C" THEN MkModel(rc, None) ELSE MkModel(None, None)]]
        /\ seq = <<>> /\ deleted = {} /\ psig0 = psig

AllModels(s) == UNION { { <<a, m>> : m \in DOMAIN s[a] } : a \in DOMAIN s }

(* rewrite every reference for which Match holds *)
Rewrite(s, Match(_), New(_)) ==
    [a \in DOMAIN s |-> [m \in DOMAIN s[a] |-> [f \in DOMAIN s[a][m] |->
        IF s[a][m][f].rel # None /\ Match(s[a][m][f].rel)
        THEN [s[a][m][f] EXCEPT !.rel = New(@)] ELSE s[a][m][f]]]]

(* RenameModel.simulate: references equal to "app.Old" become "app.New" *)
RenM(a, m, n) ==
    /\ a \in DOMAIN psig /\ m \in DOMAIN psig[a] /\ n \notin DOMAIN psig[a]
    /\ LET moved == [psig EXCEPT ![a] = Put(Drop(@, m), n, psig[a][m])]
       IN psig' = Rewrite(moved, LAMBDA r : r = <<a, m>>, LAMBDA r : <<a, n>>)
    /\ seq' = Append(seq, [k |-> "RenM", app |-> a, m |-> m, n |-> n])
    /\ UNCHANGED <<deleted, psig0>>

(* RenameAppLabel.simulate: all models move to the new app signature; the
   references into the old label are (meant to be) rewritten *)
RenApp(a, b) ==
    /\ a \in DOMAIN psig /\ b \notin DOMAIN psig
    /\ LET moved == [x \in ((DOMAIN psig) \ {a}) \cup {b} |-> IF x = b THEN psig[a] ELSE psig[x]]
       IN psig' = IF AppLabelFixed
                  THEN Rewrite(moved, LAMBDA r : r[1] = a, LAMBDA r : <<b, r[2]>>)
                  ELSE moved
    /\ seq' = Append(seq, [k |-> "RenApp", app |-> a, n |-> b])
    /\ UNCHANGED <<deleted, psig0>>

(* RenameField.simulate: relation targets name models, not fields: nothing to rewrite *)
RenF(a, m, f, g) ==
    /\ a \in DOMAIN psig /\ m \in DOMAIN psig[a] /\ f \in DOMAIN psig[a][m]
    /\ g \notin DOMAIN psig[a][m]
    /\ psig' = [psig EXCEPT ![a][m] = Put(Drop(@, f), g, psig[a][m][f])]
    /\ seq' = Append(seq, [k |-> "RenF", app |-> a, m |-> m, f |-> f, n |-> g])
    /\ UNCHANGED <<deleted, psig0>>

DelF(a, m, f) ==
    /\ a \in DOMAIN psig /\ m \in DOMAIN psig[a] /\ f \in DOMAIN psig[a][m]
    /\ psig[a][m][f].kind # "pk"
    /\ psig' = [psig EXCEPT ![a][m] = Drop(@, f)]
    /\ seq' = Append(seq, [k |-> "DelF", app |-> a, m |-> m, f |-> f])
    /\ UNCHANGED <<deleted, psig0>>

DelM(a, m) ==
    /\ a \in DOMAIN psig /\ m \in DOMAIN psig[a]
    /\ psig' = [psig EXCEPT ![a] = Drop(@, m)]
    /\ deleted' = deleted \cup { <<a, m>> }
    /\ seq' = Append(seq, [k |-> "DelM", app |-> a, m |-> m])
    /\ UNCHANGED psig0

(* as repaired (ce736c3): once none of its models are left the app leaves the signature *)
DelApp(a) ==
    /\ a \in DOMAIN psig /\ DOMAIN psig[a] # {}
    /\ psig' = [x \in (DOMAIN psig) \ {a} |-> psig[x]]
    /\ deleted' = deleted \cup { <<a, m>> : m \in DOMAIN psig[a] }
    /\ seq' = Append(seq, [k |-> "DelApp", app |-> a])
    /\ UNCHANGED psig0

Labels == Apps0 \cup {NewAppLabel}
Names  == {"A", "B", "C", NewModelName}

Juggling == FocusLabels /\ Len(seq) < 2
Next == /\ Len(seq) < MaxLen
        /\ \/ (~Juggling /\ \E a \in Labels, m \in Names : RenM(a, m, NewModelName))
           \* to the new label, or to a label that an earlier rename has set free (the renamed app keeps
           \* its old label as legacy_app_label: a lookup by label must prefer the app that HAS the label)
           \/ \E a \in Labels, b \in Labels : RenApp(a, b)
           \/ (~Juggling /\ \E a \in Labels, m \in Names : RenF(a, m, "r", "s") \/ RenF(a, m, "id", "key"))
           \/ (~Juggling /\ \E a \in Labels, m \in Names : DelF(a, m, "r") \/ DelF(a, m, "m"))
           \/ (~Juggling /\ \E a \in Labels, m \in Names : DelM(a, m))
           \/ (~Juggling /\ \E a \in Labels : DelApp(a))

Spec == Init /\ [][Next]_vars

---------------------------------------------------------------------------
(* C11: every recorded relation names a model that exists under its current
   app label and name, unless that model was explicitly deleted.  A deleted
   model keeps counting as deleted under later renames of its app label. *)
DeletedNow == deleted \cup { <<NewAppLabel, d[2]>> : d \in deleted }
Dangling ==
    { <<a, m, f>> \in UNION { UNION { { <<a, m, f>> : f \in DOMAIN psig[a][m] }
                                       : m \in DOMAIN psig[a] } : a \in DOMAIN psig } :
        LET r == psig[a][m][f].rel
        IN r # None /\ r \notin AllModels(psig) /\ r \notin DeletedNow }
NoDangling == Dangling = {}

(* renaming rewrites every reference: nothing names the old model / label *)
RenameRewritesAll ==
    [][ /\ (\E a \in Labels, m \in Names : RenM(a, m, NewModelName))
           => LET last == seq'[Len(seq')]
              IN \A x \in AllModels(psig') : \A f \in DOMAIN psig'[x[1]][x[2]] :
                    psig'[x[1]][x[2]][f].rel # <<last.app, last.m>>
        /\ (\E a \in Labels : RenApp(a, NewAppLabel))
           => LET last == seq'[Len(seq')]
              IN \A x \in AllModels(psig') : \A f \in DOMAIN psig'[x[1]][x[2]] :
                    psig'[x[1]][x[2]][f].rel = None \/ psig'[x[1]][x[2]][f].rel[1] # last.app
      ]_vars

RECURSIVE SetToSeq(_)
SetToSeq(S) == IF S = {} THEN <<>> ELSE LET x == CHOOSE y \in S : TRUE IN <<x>> \o SetToSeq(S \ {x})

Emit == (EmitRecords /\ seq # <<>>) =>
          PrintT(<<"REC", ToJson([seq |-> seq, psig0 |-> psig0, psig |-> psig,
                                   dangling |-> SetToSeq(Dangling),
                                   deleted |-> SetToSeq(deleted)])>>)
Constraint == Emit
=============================================================================
