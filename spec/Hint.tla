-------------------------------- MODULE Hint --------------------------------
(***************************************************************************)
(* Diff, hinted evolution and equality of signatures (property C05).       *)
(*                                                                         *)
(* Transcribes                                                             *)
(*   signature.py : FieldSignature.diff, ModelSignature.diff,              *)
(*                  AppSignature.diff (changed / deleted models),          *)
(*                  the __eq__ methods                                     *)
(*   diff.py      : Diff.evolution() -- which mutations the hint contains  *)
(* on top of Sig!Sim.  A behaviour is a developer editing the models: the  *)
(* state holds the stored signature `old` and the edited one `new`; every  *)
(* edit action is one item of the property's quantifier.  For every        *)
(* reachable pair the hinted evolution is computed, simulated on `old`,    *)
(* and the residual difference to `new` must be empty (HintCloses).        *)
(***************************************************************************)
EXTENDS Sig, Json

CONSTANTS MaxEdits, StartId, EmitRecords

VARIABLES old, new, edits

vars == <<old, new, edits>>
(* Model A may carry a Meta.db_table_comment, the same before and after the edits (changing it
   is not a supported change on SQLite): every copy, diff and comparison has to carry it along *)
Comments == {None, "c1"}

Field(t, attrs) == [ftype |-> t, attrs |-> attrs, rel |-> None, data |-> "orig-nn"]
FKField(target, attrs) == [ftype |-> "FK", attrs |-> attrs, rel |-> target, data |-> "orig-nn"]
IdField == Field("Auto", D1("primary_key", TRUE))
Model(name, fields, ut, idx) == [table |-> "t_" \o name, fields |-> fields,
                                 ut |-> ut, uta |-> TRUE, idx |-> idx, cons |-> <<>>]
Idx(name, fields) == [name |-> name, fields |-> fields]
(* an expression-only index, Index(F(field), name=...): it has no field list at all *)
IdxE(name, field) == [name |-> name, fields |-> <<>>, expr |-> field]
ExprOf(ix) == IF "expr" \in DOMAIN ix THEN {ix.expr} ELSE {}
(* Meta.constraints (see Optimizer.tla): a check on g, a unique over (f, g) *)
CkG  == [kind |-> "check", fields |-> <<>>, name |-> "ck_g", cond |-> "g"]
UqFG == [kind |-> "unique", fields |-> <<"f", "g">>, name |-> "uq_fg", cond |-> None]

Start(id) ==
  CASE id = 1 ->
        [A |-> Model("A", [id |-> IdField,
                           f |-> Field("Char", D1("max_length", 10)),
                           g |-> Field("Int", D1("null", TRUE))],
                     << <<"f", "g">> >>, << Idx("ix1", <<"f">>) >>),
         B |-> Model("B", [id |-> IdField,
                           f |-> FKField("A", EmptyDict),
                           g |-> Field("Int", EmptyDict)], <<>>, <<>>)]
    [] id = 4 ->          \* Meta.constraints
        [A |-> [Model("A", [id |-> IdField,
                            f |-> Field("Char", D1("max_length", 10)),
                            g |-> Field("Int", EmptyDict)], <<>>, <<>>)
                  EXCEPT !.cons = <<CkG, UqFG>>]]
    [] id = 5 ->          \* an expression-only index next to a plain one
        [A |-> Model("A", [id |-> IdField,
                           f |-> Field("Char", D1("max_length", 10)),
                           g |-> Field("Int", EmptyDict)],
                     <<>>, << IdxE("ixe", "g"), Idx("ix1", <<"f">>) >>)]
    [] id = 3 ->          \* several unique_together entries, NOT in sorted order, over fields
                          \* that are never edited next to fields that are
        [A |-> Model("A", [id |-> IdField,
                           f |-> Field("Char", D1("max_length", 10)),
                           g |-> Field("Int", EmptyDict),
                           h |-> Field("Int", EmptyDict),
                           k |-> Field("Int", EmptyDict)],
                     << <<"h", "k">>, <<"g", "k">> >>, <<>>)]
    [] OTHER ->
        [A |-> Model("A", [id |-> IdField,
                           f |-> Field("Char", D1("max_length", 10)),
                           g |-> Field("Int", D2("null", TRUE, "db_index", TRUE))],
                     <<>>, << Idx("ix1", <<"f">>), Idx("ix2", <<"g">>) >>)]

ModelNames == {"A", "B"}
FieldNames == {"f", "g", "h"}

Init == /\ \E c \in Comments :
             old = [mn \in DOMAIN Start(StartId) |->
                      IF mn = "A" THEN [x \in (DOMAIN Start(StartId)[mn]) \cup {"comment"} |->
                                          IF x = "comment" THEN c ELSE Start(StartId)[mn][x]]
                      ELSE Start(StartId)[mn]]
        /\ new = old /\ edits = 0

Step(n) == new' = n /\ edits' = edits + 1 /\ UNCHANGED old

(* -- developer edits ------------------------------------------------------ *)
EditAddField(m, f) ==
    /\ m \in DOMAIN new /\ f \notin DOMAIN new[m].fields
    /\ \E fs \in { Field("Int", D1("null", TRUE)), Field("Char", D1("max_length", 10)),
                   Field("Int", EmptyDict), FKField("A", D1("null", TRUE)) } :
          (fs.rel = None \/ fs.rel \in DOMAIN new)
          /\ Step([new EXCEPT ![m].fields = Put(@, f, fs)])
EditDeleteField(m, f) ==
    /\ m \in DOMAIN new /\ f \in DOMAIN new[m].fields /\ f # "id"
    /\ (\A i \in 1..Len(new[m].ut) : ~InSeq(f, new[m].ut[i]))
    /\ (\A i \in 1..Len(new[m].idx) : ~InSeq(f, new[m].idx[i].fields) /\ f \notin ExprOf(new[m].idx[i]))
    /\ (\A i \in 1..Len(It(new[m])) : ~InSeq(f, It(new[m])[i]))
    /\ (\A i \in 1..Len(new[m].cons) : ~InSeq(f, new[m].cons[i].fields) /\ new[m].cons[i].cond # f)
    /\ Step([new EXCEPT ![m].fields = Drop(@, f)])
EditRetype(m, f) ==
    /\ m \in DOMAIN new /\ f \in DOMAIN new[m].fields /\ f # "id"
    /\ new[m].fields[f].ftype \in {"Int", "Char"}
    /\ Step([new EXCEPT ![m].fields[f] =
               IF @.ftype = "Int" THEN Field("Char", D1("max_length", 20))
               ELSE Field("Int", EmptyDict)])
EditAttr(m, f) ==
    /\ m \in DOMAIN new /\ f \in DOMAIN new[m].fields /\ f # "id"
    /\ new[m].fields[f].ftype # "M2M"
    /\ \E a \in {"null", "db_index", "unique"} :
          Step([new EXCEPT ![m].fields[f].attrs = Put(@, a, ~AttrValue(new[m].fields[f], a))])
EditMaxLength(m, f) ==
    /\ m \in DOMAIN new /\ f \in DOMAIN new[m].fields /\ new[m].fields[f].ftype = "Char"
    /\ Step([new EXCEPT ![m].fields[f].attrs = Put(@, "max_length", 30)])
(* a default stated explicitly: same models, different stored attributes *)
EditExplicitDefault(m, f) ==
    /\ m \in DOMAIN new /\ f \in DOMAIN new[m].fields /\ f # "id"
    /\ \E a \in {"null", "unique"} :
          a \notin DOMAIN new[m].fields[f].attrs
          /\ Step([new EXCEPT ![m].fields[f].attrs = Put(@, a, AttrDefault(new[m].fields[f].ftype, a))])
EditUniqueTogether(m) ==
    /\ m \in DOMAIN new
    /\ \E v \in { <<>>, << <<"f", "g">> >>, << <<"g", "f">> >>, << <<"f", "g">>, <<"g">> >> } :
          v # new[m].ut
          /\ (\A i \in 1..Len(v) : SeqSet(v[i]) \subseteq DOMAIN new[m].fields)
          /\ Step([new EXCEPT ![m].ut = v])
EditIndexTogether(m) ==
    /\ m \in DOMAIN new
    /\ \E v \in { <<>>, << <<"f", "g">> >>, << <<"g", "f">> >>, << <<"f", "g">>, <<"g", "f">> >> } :
          v # It(new[m])
          /\ (\A i \in 1..Len(v) : SeqSet(v[i]) \subseteq DOMAIN new[m].fields)
          /\ Step([new EXCEPT ![m] = WithIt(@, v)])
EditIndexes(m) ==
    /\ m \in DOMAIN new
    /\ \E v \in { <<>>, << Idx("ix1", <<"f">>) >>, << Idx("ix2", <<"g">>), Idx("ix1", <<"f">>) >>,
                  << Idx("ix1", <<"f">>), Idx("ix2", <<"g">>) >>,
                  << IdxE("ixe", "g") >>, << Idx("ix1", <<"f">>), IdxE("ixe", "g") >> } :
          v # new[m].idx
          /\ (\A i \in 1..Len(v) : SeqSet(v[i].fields) \cup ExprOf(v[i]) \subseteq DOMAIN new[m].fields)
          /\ Step([new EXCEPT ![m].idx = v])
EditConstraints(m) ==
    /\ m \in DOMAIN new
    /\ \E v \in { <<>>, <<CkG>>, <<UqFG>>, <<CkG, UqFG>>, <<UqFG, CkG>> } :
          v # new[m].cons
          /\ (\A i \in 1..Len(v) : /\ SeqSet(v[i].fields) \subseteq DOMAIN new[m].fields
                                     /\ (v[i].cond # None => v[i].cond \in DOMAIN new[m].fields))
          /\ Step([new EXCEPT ![m].cons = v])
EditDeleteModel(m) ==
    /\ m \in DOMAIN new /\ Cardinality(DOMAIN new) > 1
    /\ (\A x \in DOMAIN new \ {m} : \A f \in DOMAIN new[x].fields : new[x].fields[f].rel # m)
    /\ Step(Drop(new, m))
EditRetarget(m, f) ==
    /\ m \in DOMAIN new /\ f \in DOMAIN new[m].fields /\ new[m].fields[f].ftype = "FK"
    /\ \E t \in DOMAIN new : t # new[m].fields[f].rel
          /\ Step([new EXCEPT ![m].fields[f].rel = t])

Next == /\ edits < MaxEdits
        /\ \E m \in ModelNames :
              \/ EditUniqueTogether(m) \/ EditIndexes(m) \/ EditConstraints(m) \/ EditDeleteModel(m)
              \/ EditIndexTogether(m)
              \/ \E f \in FieldNames :
                    \/ EditAddField(m, f) \/ EditDeleteField(m, f) \/ EditRetype(m, f)
                    \/ EditAttr(m, f) \/ EditMaxLength(m, f) \/ EditExplicitDefault(m, f)
                    \/ EditRetarget(m, f)

Spec == Init /\ [][Next]_vars

---------------------------------------------------------------------------
(* FieldSignature.diff(new, old): the list of changed attribute names *)
FieldDiff(n, o) ==
    { a \in (DOMAIN n.attrs) \cup (DOMAIN o.attrs) : AttrValue(n, a) # AttrValue(o, a) }
    \cup (IF n.ftype # o.ftype THEN {"field_type"} ELSE {})
    \cup (IF n.rel # o.rel THEN {"related_model"} ELSE {})

(* ModelSignature.diff *)
MetaChanged(n, o) ==
    (IF UTChanged(o, n) THEN {"unique_together"} ELSE {})
    \cup (IF n.idx # o.idx THEN {"indexes"} ELSE {})
    \cup (IF n.cons # o.cons THEN {"constraints"} ELSE {})
    \cup (IF It(n) # It(o) THEN {"index_together"} ELSE {})

RECURSIVE SetToSeq(_)
SetToSeq(S) == IF S = {} THEN <<>> ELSE LET x == CHOOSE y \in S : TRUE IN <<x>> \o SetToSeq(S \ {x})

Blank == [k |-> "", m |-> None, f |-> None, of |-> None, nf |-> None,
          om |-> None, nm |-> None, ftype |-> None, attrs |-> EmptyDict,
          init |-> None, prop |-> None, val |-> <<>>, ival |-> <<>>,
          dbcol |-> None, dbtable |-> None]

(* Diff.evolution() for one model: adds, deletes, changes, indexes, unique_together *)
ModelHint(mn, n, o) ==
    LET added   == { f \in DOMAIN n.fields : f \notin DOMAIN o.fields }
        removed == { f \in DOMAIN o.fields : f \notin DOMAIN n.fields }
        changed == { f \in (DOMAIN n.fields) \cap (DOMAIN o.fields) :
                       FieldDiff(n.fields[f], o.fields[f]) # {} }
        addM(f) == LET fs == n.fields[f] IN
                   [Blank EXCEPT !.k = "Add", !.m = mn, !.f = f, !.ftype = fs.ftype,
                        !.attrs = IF fs.rel # None THEN Put(fs.attrs, "related_model", fs.rel)
                                  ELSE fs.attrs,
                        !.init = IF fs.ftype # "M2M" /\ AttrValue(fs, "null") # TRUE
                                 THEN "i" ELSE None]
        chgM(f) == LET fs == n.fields[f]
                       d == FieldDiff(fs, o.fields[f])
                       plain == d \ {"field_type", "related_model"}
                       a1 == IF "field_type" \in d THEN fs.attrs
                             ELSE [a \in plain |-> AttrValue(fs, a)]
                       a2 == IF "related_model" \in d THEN Put(a1, "related_model", fs.rel) ELSE a1
                   IN [Blank EXCEPT !.k = "Chg", !.m = mn, !.f = f,
                        !.ftype = IF "field_type" \in d THEN fs.ftype ELSE None,
                        !.attrs = a2,
                        !.init = IF "null" \in d /\ AttrValue(fs, "null") # TRUE /\ fs.ftype # "M2M"
                                 THEN "i" ELSE None]
        mc == MetaChanged(n, o)
    IN [i \in 1..Cardinality(added) |-> addM(SetToSeq(added)[i])]
       \o [i \in 1..Cardinality(removed) |->
             [Blank EXCEPT !.k = "Del", !.m = mn, !.f = SetToSeq(removed)[i]]]
       \o [i \in 1..Cardinality(changed) |-> chgM(SetToSeq(changed)[i])]
       \o (IF "constraints" \in mc
           THEN <<[Blank EXCEPT !.k = "Meta", !.m = mn, !.prop = "constraints", !.ival = n.cons]>>
           ELSE <<>>)
       \o (IF "indexes" \in mc
           THEN <<[Blank EXCEPT !.k = "Meta", !.m = mn, !.prop = "indexes", !.ival = n.idx]>>
           ELSE <<>>)
       \* Diff.evolution(): index_together before unique_together
       \o (IF "index_together" \in mc
           THEN <<[Blank EXCEPT !.k = "Meta", !.m = mn, !.prop = "index_together", !.val = It(n)]>>
           ELSE <<>>)
       \o (IF "unique_together" \in mc
           THEN <<[Blank EXCEPT !.k = "Meta", !.m = mn, !.prop = "unique_together", !.val = n.ut]>>
           ELSE <<>>)

RECURSIVE HintOver(_, _, _)
HintOver(ms, n, o) ==
    IF ms = <<>> THEN <<>>
    ELSE LET mn == Head(ms) IN
         (IF mn \in DOMAIN n THEN ModelHint(mn, n[mn], o[mn]) ELSE <<>>) \o HintOver(Tail(ms), n, o)

(* models are visited in the order of the OLD signature; deleted models last *)
HintFor(n, o) ==
    HintOver(SetToSeq({ mn \in DOMAIN o : mn \in DOMAIN n /\ ~ModelDiffEmpty(n[mn], o[mn]) }), n, o)
    \o [i \in 1..Cardinality({ mn \in DOMAIN o : mn \notin DOMAIN n }) |->
          [Blank EXCEPT !.k = "DelM", !.m = SetToSeq({ mn \in DOMAIN o : mn \notin DOMAIN n })[i]]]

TheHint == HintFor(new, old)
Simulated == SimSeq(TheHint, old)

(* C05 *)
HintCloses == Simulated.ok /\ DiffEmpty(Simulated.sig, new) /\ DiffEmpty(new, Simulated.sig)
SelfDiffEmpty == DiffEmpty(new, new) /\ HintFor(new, new) = <<>>
EqIffDiffEmptyBothWays == SigEq(old, new) <=> (DiffEmpty(old, new) /\ DiffEmpty(new, old))

HViolations == { c \in {"HintCloses", "SelfDiffEmpty", "EqIffDiffEmptyBothWays"} :
                   CASE c = "HintCloses" -> ~HintCloses
                     [] c = "SelfDiffEmpty" -> ~SelfDiffEmpty
                     [] OTHER -> ~EqIffDiffEmptyBothWays }

Emit == (EmitRecords /\ edits > 0) =>
          PrintT(<<"REC", ToJson([old |-> old, new |-> new, start |-> StartId,
                                   hint |-> TheHint, simOk |-> Simulated.ok,
                                   residualEmpty |-> HintCloses,
                                   eq |-> SigEq(old, new),
                                   diffEmpty |-> (DiffEmpty(old, new) /\ DiffEmpty(new, old)),
                                   viol |-> HViolations])>>)
Constraint == Emit
=============================================================================
