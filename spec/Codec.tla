-------------------------------- MODULE Codec --------------------------------
(***************************************************************************)
(* Values, the signature storage pipeline and the hint renderer            *)
(* (properties C06 and C13) -- a transcription of the case analysis in     *)
(* django_evolution/serialization.py:                                      *)
(*   _get_serializer_for_value (type dispatch, serializing / not)          *)
(*   serialize_to_signature / deserialize_from_signature per type          *)
(*   QSerialization.deserialize_from_deconstructed                         *)
(*   serialize_to_python per type (Q: negation prefix, 0 / 1 / n children, *)
(*   separator table; combined expressions; deconstructed values)          *)
(* together with the container semantics of the storage layer: json.dumps  *)
(* turns tuples into arrays, json.loads(object_pairs_hook=OrderedDict)     *)
(* turns every object into an ORDERED dict.                                *)
(*                                                                         *)
(* Init picks any value of the (depth-bounded) grammar; every property is  *)
(* evaluated for every value.  Byte-level escaping and Python's evaluation *)
(* of rendered text are not modelled (the replay uses a string palette and *)
(* the interpreter as oracle).                                             *)
(***************************************************************************)
EXTENDS Naturals, Sequences, FiniteSets, TLC, Json

CONSTANTS EmitRecords,
          DictDispatchByIsinstance,  \* TRUE: deserialisation tests isinstance(value, dict)
                                     \* (as repaired); FALSE: `type(value) is dict`
          RendererRepaired           \* TRUE: nested single Q children, XOR and nested
                                     \* combined expressions are rendered (as repaired);
                                     \* FALSE: as originally found

VARIABLE val
vars == <<val>>

(* one uniform record shape for every value *)
V(t, b, n, s, items) == [t |-> t, b |-> b, n |-> n, s |-> s, items |-> items]
VNone      == V("none", FALSE, 0, "", <<>>)
VBool(b)   == V("bool", b, 0, "", <<>>)
VInt(n)    == V("int", FALSE, n, "", <<>>)
VStr(s)    == V("str", FALSE, 0, s, <<>>)
VList(xs)  == V("list", FALSE, 0, "", xs)
VTuple(xs) == V("tuple", FALSE, 0, "", xs)
(* dict: items = <<key1, val1, key2, val2, ...>>; s = "dict" | "odict" *)
VDict(kind, kv) == V("dict", FALSE, 0, kind, kv)
(* Q: s = connector, b = negated, items = children (pairs or Qs) *)
VQ(conn, neg, ch) == V("q", neg, 0, conn, ch)
VPair(k, v) == V("pair", FALSE, 0, k, <<v>>)
VF(name)    == V("f", FALSE, 0, name, <<>>)
VValue(v)   == V("value", FALSE, 0, "", <<v>>)
VComb(l, op, r) == V("comb", FALSE, 0, op, <<l, r>>)
VEnum(name) == V("enum", FALSE, 0, name, <<>>)
VError(why) == V("error", FALSE, 0, why, <<>>)

Prims == { VNone, VBool(TRUE), VBool(FALSE), VInt(0), VInt(1), VStr("s") }
Pairs == { VPair("a", VInt(1)), VPair("b", VStr("s")) }
(* lookups against booleans (IntegerField compared with True is legal, if odd; a
   BooleanField compared with 0 likewise) *)
PairsB == { VPair("a", VBool(TRUE)), VPair("a", VInt(0)), VPair("a", VBool(FALSE)) }
Conns == { "AND", "OR", "XOR" }

SeqsUpTo2(S) == { <<>> } \cup { <<x>> : x \in S } \cup { <<x, y>> : x \in S, y \in S }
Seqs1To2(S)  == { <<x>> : x \in S } \cup { <<x, y>> : x \in S, y \in S }

Q1 == { VQ(c, n, ch) : c \in Conns, n \in BOOLEAN, ch \in SeqsUpTo2(Pairs) }
Q2 == { VQ(c, n, ch) : c \in Conns, n \in BOOLEAN, ch \in Seqs1To2(Pairs \cup Q1) }

(* lookups against expressions instead of plain values: the child is stored as
   ["lookup", {deconstructed}] -- a list that starts with a primitive and goes on
   with an object *)
PairsX == { VPair("a", VF("b")), VPair("b", VValue(VInt(1))), VPair("a", VInt(1)),
            VPair("a", VTuple(<<VInt(0), VInt(1)>>)),      \* Q(a__in=(0, 1))
            VPair("a", VList(<<VInt(1)>>)) }               \* Q(a__in=[1])
Q3 == { VQ(c, n, ch) : c \in Conns, n \in BOOLEAN, ch \in Seqs1To2(PairsX) }
Q4 == { VQ(c, n, ch) : c \in Conns, n \in BOOLEAN, ch \in Seqs1To2(PairsB \cup { VPair("a", VInt(1)) }) }

Ops == { "+", "*", "-" }
E0 == { VF("a"), VValue(VInt(1)) }
EB == { VValue(VBool(TRUE)), VValue(VInt(0)), VComb(VF("a"), "+", VValue(VBool(TRUE))) }
E1 == { VComb(l, op, r) : l \in E0, op \in Ops, r \in E0 }
E2 == { VComb(l, op, r) : l \in E0 \cup E1, op \in Ops, r \in E0 \cup E1 }

Containers ==
    { VList(xs) : xs \in SeqsUpTo2({ VStr("s"), VInt(1) }) }
    \cup { VTuple(xs) : xs \in SeqsUpTo2({ VStr("s"), VInt(1) }) }
    \cup { VDict("dict", <<VStr("k"), x>>) : x \in Prims }
    \cup { VList(<<VTuple(<<VStr("s")>>)>>), VTuple(<<VList(<<VInt(1)>>)>>) }

Values == Prims \cup Q1 \cup Q2 \cup Q3 \cup Q4 \cup EB \cup E0 \cup E1 \cup E2 \cup Containers
          \cup { VEnum("DEFERRED"), VEnum("IMMEDIATE") }

Init == val \in Values
Next == UNCHANGED val
Spec == Init /\ [][Next]_vars

---------------------------------------------------------------------------
(* serialize_to_signature *)
RECURSIVE Ser(_)
RECURSIVE MapSer(_)
MapSer(xs) == IF xs = <<>> THEN <<>> ELSE <<Ser(Head(xs))>> \o MapSer(Tail(xs))

DeconDict(type, args, kwargs) ==
    VDict("dict", << VStr("_deconstructed"), VBool(TRUE), VStr("args"), args,
                     VStr("kwargs"), kwargs, VStr("type"), VStr(type) >>)

Ser(v) ==
  CASE v.t \in {"none", "bool", "int", "str"} -> v
    [] v.t = "list"  -> VList(MapSer(v.items))
    [] v.t = "tuple" -> VTuple(MapSer(v.items))
    [] v.t = "pair"  -> VTuple(<<VStr(v.s), Ser(v.items[1])>>)     \* a child (key, value) tuple
    [] v.t = "dict"  -> VDict(v.s, MapSer(v.items))
    [] v.t = "q" ->
         DeconDict("django.db.models.Q", VList(MapSer(v.items)),
                   VDict("dict",
                         (IF v.s # "AND" THEN <<VStr("_connector"), VStr(v.s)>> ELSE <<>>)
                         \o (IF v.b THEN <<VStr("_negated"), VBool(TRUE)>> ELSE <<>>)))
    [] v.t = "f"     -> DeconDict("django.db.models.F", VTuple(<<VStr(v.s)>>), VDict("dict", <<>>))
    [] v.t = "value" -> DeconDict("django.db.models.Value", VTuple(<<Ser(v.items[1])>>), VDict("dict", <<>>))
    [] v.t = "comb"  -> DeconDict("django.db.models.expressions.CombinedExpression",
                                  VTuple(<<Ser(v.items[1]), VStr(v.s), Ser(v.items[2])>>),
                                  VDict("dict", <<>>))
    [] v.t = "enum"  -> VDict("dict", << VStr("_enum"), VBool(TRUE),
                                         VStr("type"), VStr("django.db.models.Deferrable"),
                                         VStr("value"), VStr(v.s) >>)
    [] OTHER -> VError("unsupported")

(* json.dumps then json.loads(object_pairs_hook=OrderedDict) *)
RECURSIVE Json2(_)
RECURSIVE MapJson(_)
MapJson(xs) == IF xs = <<>> THEN <<>> ELSE <<Json2(Head(xs))>> \o MapJson(Tail(xs))
Json2(v) ==
  CASE v.t \in {"list", "tuple"} -> VList(MapJson(v.items))
    [] v.t = "dict" -> VDict("odict", MapJson(v.items))
    [] OTHER -> v

DictGet(d, key) ==
    LET idx == { i \in 1..(Len(d.items) \div 2) : d.items[2 * i - 1] = VStr(key) }
    IN IF idx = {} THEN VNone ELSE d.items[2 * (CHOOSE i \in idx : TRUE)]
DictHas(d, key) == \E i \in 1..(Len(d.items) \div 2) : d.items[2 * i - 1] = VStr(key)

(* deserialize_from_signature *)
RECURSIVE Deser(_)
RECURSIVE MapDeser(_)
MapDeser(xs) == IF xs = <<>> THEN <<>> ELSE <<Deser(Head(xs))>> \o MapDeser(Tail(xs))
RECURSIVE QChildren(_)
QChildren(xs) ==      \* args of a stored Q: lists become (key, value) tuples
    IF xs = <<>> THEN <<>>
    ELSE LET a == Head(xs)
         IN (IF a.t \in {"list", "tuple"} /\ Len(a.items) = 2 /\ a.items[1].t = "str"
             THEN <<VPair(a.items[1].s, a.items[2])>> ELSE <<a>>) \o QChildren(Tail(xs))

IsPlainDict(v) == v.t = "dict" /\ (DictDispatchByIsinstance \/ v.s = "dict")

Deser(p) ==
  CASE p.t \in {"none", "bool", "int", "str"} -> p
    [] p.t = "list"  -> VList(MapDeser(p.items))
    [] p.t = "tuple" -> VTuple(MapDeser(p.items))
    [] p.t = "dict" ->
        IF IsPlainDict(p) /\ DictGet(p, "_enum") = VBool(TRUE)
        THEN VEnum(DictGet(p, "value").s)
        ELSE IF IsPlainDict(p) /\ DictGet(p, "_deconstructed") = VBool(TRUE)
        THEN LET type == DictGet(p, "type").s
                 args == MapDeser(DictGet(p, "args").items)
                 kw   == DictGet(p, "kwargs")
             IN CASE type = "django.db.models.Q" ->
                        VQ(IF DictHas(kw, "_connector") THEN DictGet(kw, "_connector").s ELSE "AND",
                           DictHas(kw, "_negated"), QChildren(args))
                  [] type = "django.db.models.F" -> VF(args[1].s)
                  [] type = "django.db.models.Value" -> VValue(args[1])
                  [] type = "django.db.models.expressions.CombinedExpression" ->
                        VComb(args[1], args[2].s, args[3])
                  [] OTHER -> VError("unknown type")
        ELSE VDict("dict", MapDeser(p.items))       \* DictSerialization: a plain dict copy
    [] OTHER -> VError("unsupported")

ReadBack(v) == Deser(Json2(Ser(v)))

(* equality after the round trip, as the containers that hold the value compare
   it: IndexSignature turns tuples into lists on construction, everything else
   is compared as is *)
RECURSIVE TuplesToLists(_)
RECURSIVE MapT2L(_)
MapT2L(xs) == IF xs = <<>> THEN <<>> ELSE <<TuplesToLists(Head(xs))>> \o MapT2L(Tail(xs))
TuplesToLists(v) == IF v.t = "tuple" THEN VList(MapT2L(v.items))
                    ELSE IF v.items = <<>> THEN v
                    ELSE [v EXCEPT !.items = MapT2L(@)]

(* Python compares and hashes True like 1 and False like 0.  A signature holds many
   values at once (one per index / constraint of every model); two of them may differ
   only in that respect.  Twin(v) is v with every int 0/1 swapped for the bool and
   vice versa: the stored forms are different texts, and each must read back as
   itself whatever else the same signature (or an earlier load) holds. *)
RECURSIVE Twin(_)
RECURSIVE MapTwin(_)
MapTwin(xs) == IF xs = <<>> THEN <<>> ELSE <<Twin(Head(xs))>> \o MapTwin(Tail(xs))
Twin(v) == CASE v.t = "int"  -> VBool(v.n = 1)
             [] v.t = "bool" -> VInt(IF v.b THEN 1 ELSE 0)
             [] v.items = <<>> -> v
             [] OTHER -> [v EXCEPT !.items = MapTwin(@)]
TwinsStoredApart == Twin(val) # val =>
                      /\ Json2(Ser(Twin(val))) # Json2(Ser(val))
                      /\ ReadBack(Twin(val)) # ReadBack(val)

(* C06 *)
ReadBackEqual == ReadBack(val) = val
ReadBackEqualModuloTuples == TuplesToLists(ReadBack(val)) = TuplesToLists(val)
ReserialiseSameText == Json2(Ser(ReadBack(val))) = Json2(Ser(val))

---------------------------------------------------------------------------
(* serialize_to_python: a token tree; "error" marks an exception *)
RECURSIVE Render(_)
RECURSIVE JoinR(_, _)
JoinR(xs, sep) == IF xs = <<>> THEN ""
                  ELSE IF Len(xs) = 1 THEN Head(xs)
                  ELSE Head(xs) \o sep \o JoinR(Tail(xs), sep)
RECURSIVE MapRender(_)
MapRender(xs) == IF xs = <<>> THEN <<>> ELSE <<Render(Head(xs))>> \o MapRender(Tail(xs))
HasError(xs) == \E i \in 1..Len(xs) : xs[i] = "!error"

IntStr(n) == IF n = 0 THEN "0" ELSE "1"
QChildText(c) == IF c.t = "pair"
                 THEN (LET r == Render(c.items[1]) IN IF r = "!error" THEN r
                       ELSE "models.Q(" \o c.s \o "=" \o r \o ")")
                 ELSE Render(c)

Render(v) ==
  CASE v.t = "none" -> "None"
    [] v.t = "bool" -> IF v.b THEN "True" ELSE "False"
    [] v.t = "int"  -> IntStr(v.n)
    [] v.t = "str"  -> "'" \o v.s \o "'"
    [] v.t \in {"list", "tuple"} ->
         LET rs == MapRender(v.items)
         IN IF HasError(rs) THEN "!error"
            ELSE IF v.t = "list" THEN "[" \o JoinR(rs, ", ") \o "]"
            ELSE "(" \o JoinR(rs, ", ") \o (IF Len(rs) = 1 THEN "," ELSE "") \o ")"
    [] v.t = "dict" ->
         LET rs == MapRender(v.items) IN IF HasError(rs) THEN "!error" ELSE "{" \o JoinR(rs, ", ") \o "}"
    [] v.t = "q" ->
         LET neg == IF v.b THEN "~" ELSE ""
             n == Len(v.items)
         IN IF n = 0 THEN neg \o "models.Q()"
            ELSE IF n = 1
                 THEN \* child = value.children[0]; originally child[0] on a nested Q raised
                      (IF v.items[1].t # "pair"
                       THEN (IF ~RendererRepaired THEN "!error"
                             ELSE LET r == Render(v.items[1])
                                  IN IF r = "!error" THEN r ELSE neg \o "models.Q(" \o r \o ")")
                       ELSE LET r == QChildText(v.items[1]) IN IF r = "!error" THEN r ELSE neg \o r)
                 ELSE LET rs == [i \in 1..n |-> QChildText(v.items[i])]
                      IN IF HasError(rs) THEN "!error"
                         ELSE IF v.s = "XOR" /\ ~RendererRepaired THEN "!error"   \* no XOR separator
                         ELSE neg \o "(" \o JoinR(rs, IF v.s = "OR" THEN " | "
                                                      ELSE IF v.s = "XOR" THEN " ^ " ELSE " & ") \o ")"
    [] v.t = "f" -> "models.F('" \o v.s \o "')"
    [] v.t = "value" -> LET r == Render(v.items[1]) IN IF r = "!error" THEN r ELSE "models.Value(" \o r \o ")"
    [] v.t = "comb" ->
         LET l == Render(v.items[1])  r == Render(v.items[2])
             wrap(x, t) == IF RendererRepaired /\ x.t = "comb" THEN "(" \o t \o ")" ELSE t
         IN IF l = "!error" \/ r = "!error" THEN "!error"
            ELSE wrap(v.items[1], l) \o " " \o v.s \o " " \o wrap(v.items[2], r)
    [] v.t = "enum" -> "models.Deferrable." \o v.s
    [] OTHER -> "!error"

(* what the rendered text means when Python evaluates it: combined expressions
   are re-associated by operator precedence ( * binds tighter than + and - ,
   all left-associative) *)
Prec(op) == IF op = "*" THEN 2 ELSE 1
RECURSIVE Flatten(_)
RECURSIVE Atom(_)
(* a parenthesised operand is one token *)
Atom(x) == IF RendererRepaired THEN <<x>> ELSE Flatten(x)
Flatten(v) == IF v.t # "comb" THEN <<v>>
              ELSE Atom(v.items[1]) \o <<VStr(v.s)>> \o Atom(v.items[2])
(* precedence climbing over the flat token list: operands at odd positions *)
RECURSIVE ParseLevel(_, _)
ParseLevel(toks, level) ==
    \* returns the tree for a flat list where all operators have precedence >= level
    IF Len(toks) = 1 THEN toks[1]
    ELSE LET ops == { i \in 1..Len(toks) : i % 2 = 0 /\ Prec(toks[i].s) = level }
         IN IF ops = {} THEN ParseLevel(toks, level + 1)
            ELSE LET k == CHOOSE i \in ops : \A j \in ops : j <= i     \* last one: left-assoc
                 IN VComb(ParseLevel(SubSeq(toks, 1, k - 1), level), toks[k].s,
                          ParseLevel(SubSeq(toks, k + 1, Len(toks)), level + 1))
ParsedBack(v) == IF v.t = "comb" THEN ParseLevel(Flatten(v), 1) ELSE v

(* C13 *)
RenderTotal == Render(val) # "!error"
RenderParsesBack == (val.t = "comb" /\ Render(val) # "!error") => ParsedBack(val) = val

CViolations == { c \in {"ReadBackEqual", "ReadBackEqualModuloTuples", "ReserialiseSameText",
                        "RenderTotal", "RenderParsesBack"} :
                   CASE c = "ReadBackEqual" -> ~ReadBackEqual
                     [] c = "ReadBackEqualModuloTuples" -> ~ReadBackEqualModuloTuples
                     [] c = "ReserialiseSameText" -> ~ReserialiseSameText
                     [] c = "RenderTotal" -> ~RenderTotal
                     [] OTHER -> ~RenderParsesBack }

Emit == (EmitRecords /\ TLCGet("level") = 1) =>
          PrintT(<<"REC", ToJson([val |-> val, render |-> Render(val),
                                   readback |-> ReadBack(val), twin |-> Twin(val),
                                   viol |-> CViolations])>>)
Constraint == Emit
=============================================================================
