--------------------------- MODULE EvolverTrace ---------------------------
(***************************************************************************)
(* Trace validation: traces recorded from real upgrade runs (signals,     *)
(* statements, commits/rollbacks, bookkeeping writes -- harness/runner.py, *)
(* projected by harness/engines/runs.py) must be behaviours of Evolver    *)
(* with the named deviations enabled.  Every state invariant of Evolver   *)
(* is evaluated after every event; the violated ones are reported per     *)
(* step ("collect" style), so a trace is classified, not merely rejected. *)
(*                                                                         *)
(* Many traces are validated by one TLC run: Init picks a trace id; the   *)
(* behaviour of each id is linear because every event carries its         *)
(* arguments.  One record is printed per reached state; the Python side   *)
(* computes, per trace, the length of the longest matched prefix.         *)
(***************************************************************************)
EXTENDS Evolver, Json, IOUtils, TLCExt

VARIABLES tid, l

Traces == JsonDeserialize(IOEnv.TRACE_FILE)

tvars == <<vars, tid, l>>

T  == Traces[tid]
Ev == T.events[l]

ToFun(r, default) == [a \in AppSet |-> IF a \in DOMAIN r THEN r[a] ELSE default]
ToSeq(x) == x      \* JSON arrays arrive as sequences
RowsOfJson(rows) == [k \in 1..Len(rows) |-> <<rows[k][1], rows[k][2], rows[k][3]>>]

TraceInit ==
    /\ tid \in 1..Len(Traces)
    /\ l = 1
    /\ code = ToFun(Traces[tid].pre.code, -1)
    /\ tab = ToFun(Traces[tid].pre.tab, -1)
    /\ part = ToFun(Traces[tid].pre.part, 0)
    /\ g2 = ToFun(Traces[tid].pre.g2, FALSE) /\ withsql = [a \in AppSet |-> {}]
    /\ stored = ToFun(Traces[tid].pre.stored, -1)
    /\ nver = Traces[tid].pre.nver
    /\ evo = RowsOfJson(Traces[tid].pre.evo)
    /\ pend = <<>>
    /\ pc = "idle" /\ drv = "api"
    /\ work = [a \in AppSet |-> -1] /\ todo = None
    /\ create = {} /\ rec = [a \in AppSet |-> {}]
    /\ cur = 1 /\ si = 0 /\ fault = <<>> /\ failed = FALSE
    /\ sigs = <<>> /\ execs = [a \in AppSet |-> [i \in 1..MaxVer |-> 0]]
    /\ runs = 0 /\ snap = <<>> /\ newver = 0

IsEvent(name) == /\ l <= Len(T.events) /\ Ev.ev = name /\ l' = l + 1 /\ tid' = tid

SetOf(s) == { s[i] : i \in 1..Len(s) }

(* Evolver.__init__ *)
TConstruct == /\ IsEvent("constructed")
              /\ Construct(T.drv)
              /\ (Ev.new_db <=> nver = 0)

(* tasks prepared: the plan the code computed must be the plan the model computes *)
TPrepare == /\ IsEvent("prepared")
            /\ Prepare
            /\ IF Ev.rejected THEN pc' \in {"rejected", "failed"}
               ELSE /\ pc' = "prepared"
                    /\ create' = SetOf(Ev.create)
                    /\ \A a \in AppSet : todo'[a] = (IF a \in DOMAIN Ev.todo THEN Ev.todo[a] ELSE <<>>)
                    /\ \A a \in AppSet : rec'[a] = (IF a \in DOMAIN Ev.rec THEN SetOf(Ev.rec[a]) ELSE {})

TNothing == IsEvent("nothing_required") /\ NothingRequired

TEvolving == /\ IsEvent("evolving") /\ EmitEvolving /\ fault' = <<>>

TCreating == /\ IsEvent("creating_models") /\ EmitCreating
             /\ SetOf(Ev.apps) = create
TSkipCreate == /\ l <= Len(T.events) /\ Ev.ev \in {"applying_evolution", "commit", "save_signature", "evolving_failed", "stmt_fail"}
               /\ pc = "evolving" /\ SkipCreate /\ UNCHANGED <<tid, l>>
TCreateStmt == /\ IsEvent("create_stmt") /\ CreateStmt
               /\ cur <= Len(CreateOrder) /\ Ev.app = CreateOrder[cur]
TCreated == /\ IsEvent("created_models") /\ EmitCreated

TApplying == /\ IsEvent("applying_evolution") /\ EmitApplying
             /\ Ev.app = EvolveOrder[cur] /\ Ev.labels = todo[Ev.app]
TEvoStmt == /\ IsEvent("evo_stmt") /\ EvoStmt /\ Ev.app = EvolveOrder[cur]
TApplied == /\ IsEvent("applied_evolution") /\ EmitApplied
            /\ Ev.app = EvolveOrder[cur] /\ Ev.labels = todo[Ev.app]

(* an injected failure: the statement does not take effect *)
TStmtFail == /\ IsEvent("stmt_fail")
             /\ pc \in {"creating", "applying"}
             /\ fault' = IF pc = "creating" THEN <<"create", Ev.app, 1>>
                         ELSE <<"evolve", Ev.app, si>>
             /\ pc' = "failing"
             /\ UNCHANGED <<code, tab, part, stored, nver, evo, pend, drv, work, todo,
                            create, rec, cur, si, failed, sigs, execs, runs, snap, newver, g2, withsql>>

(* a commit on the connection: whatever is pending becomes durable *)
TCommit == /\ IsEvent("commit")
           /\ IF pc = "failing" THEN CommitAfterFailure
              ELSE IF pend = <<>> THEN UNCHANGED vars
              ELSE \/ (pc = "evolving2" /\ cur > Len(EvolveOrder) /\ CommitBatch)
                   \/ CommitBetweenUnits
TRollback == /\ IsEvent("rollback")
             /\ IF pc = "failing" THEN RollbackAfterFailure
                ELSE (pend = <<>> /\ UNCHANGED vars)

(* the Version row and the Evolution rows *)
TSave == /\ IsEvent("save_signature")
         /\ \/ (pc = "saving" /\ SaveSignature)
            \/ (pc = "evolving2" /\ cur > Len(EvolveOrder) /\ pend = <<>>
                /\ nver' = (IF newver = 0 THEN nver + 1 ELSE nver)
                /\ stored' = [a \in AppSet |-> IF a \in Installed THEN work[a] ELSE stored[a]]
                /\ evo' = evo \o RowsOf
                /\ pc' = "saved"
                /\ UNCHANGED <<code, tab, part, pend, drv, work, todo, create, rec, cur, si,
                               fault, failed, sigs, execs, runs, snap, newver, g2, withsql>>)
         /\ Len(RowsOf) = Ev.nrows

TEvolved == IsEvent("evolved") /\ EmitEvolved
TFailed  == /\ IsEvent("evolving_failed")
            /\ \/ EmitFailed
               \* a failure outside the statement loop (e.g. while saving)
               \/ (pc \notin {"emitfailed", "failing"} /\ sigs' = Append(sigs, <<"evolving_failed">>)
                   /\ pc' = "failed" /\ failed' = TRUE
                   /\ UNCHANGED <<code, tab, part, stored, nver, evo, pend, drv, work, todo,
                                  create, rec, cur, si, fault, execs, runs, snap, newver, g2, withsql>>)

(* end of the run: the model's durable state must be the observed one *)
TEnd == /\ IsEvent("end")
        /\ pc \in {"done", "failed", "rejected", "idle", "prepared"}
        /\ \A a \in AppSet :
              /\ (Ev.post.tab[a] = -2 <=> (part[a] > 0 \/ g2[a]))
              /\ (Ev.post.tab[a] # -2 => Ev.post.tab[a] = tab[a])
              /\ Ev.post.stored[a] = stored[a]
        /\ Ev.post.nver = nver
        /\ RowsOfJson(Ev.post.evo) = evo
        /\ UNCHANGED vars

TraceNext == \/ TConstruct \/ TPrepare \/ TNothing \/ TEvolving
             \/ TCreating \/ TSkipCreate \/ TCreateStmt \/ TCreated
             \/ TApplying \/ TEvoStmt \/ TApplied \/ TStmtFail
             \/ TCommit \/ TRollback \/ TSave \/ TEvolved \/ TFailed \/ TEnd

TraceSpec == TraceInit /\ [][TraceNext]_tvars

---------------------------------------------------------------------------
Clauses == {"Converged", "RerunIsNoop", "FailedRunIsInvisible", "RejectTouchesNothing",
            "ExecuteOnlyIfSimulatesToTarget", "RecordedAtMostOnce", "RecordedOnlyWithTables",
            "RecordedWithinVersions", "EvolvingAtMostOnce", "EvolvingBeforeAnyChange",
            "ExactlyOneTerminalSignal", "EvolvedIffSaved", "PairedUnlessFailed",
            "EndSignalsTruthful", "NoTerminalWithoutEvolving"}

Holds(c) ==
  CASE c = "Converged" -> Converged
    [] c = "RerunIsNoop" -> RerunIsNoop
    [] c = "FailedRunIsInvisible" -> FailedRunIsInvisible
    [] c = "RejectTouchesNothing" -> RejectTouchesNothing
    [] c = "ExecuteOnlyIfSimulatesToTarget" -> ExecuteOnlyIfSimulatesToTarget
    [] c = "RecordedAtMostOnce" -> RecordedAtMostOnce
    [] c = "RecordedOnlyWithTables" -> RecordedOnlyWithTables
    [] c = "RecordedWithinVersions" -> RecordedWithinVersions
    [] c = "EvolvingAtMostOnce" -> EvolvingAtMostOnce
    [] c = "EvolvingBeforeAnyChange" -> EvolvingBeforeAnyChange
    [] c = "ExactlyOneTerminalSignal" -> ExactlyOneTerminalSignal
    [] c = "EvolvedIffSaved" -> EvolvedIffSaved
    [] c = "PairedUnlessFailed" -> PairedUnlessFailed
    [] c = "EndSignalsTruthful" -> EndSignalsTruthful
    [] OTHER -> NoTerminalWithoutEvolving

Report == PrintT(<<"REC", ToJson([tid |-> tid, l |-> l, pc |-> pc,
                                   viol |-> { c \in Clauses : ~Holds(c) }])>>)
TraceConstraint == Report
=============================================================================
