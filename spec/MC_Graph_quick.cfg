\* The algorithm as repaired: every invariant holds for all 4096 digraphs on 4 nodes.
SPECIFICATION Spec
CONSTANTS
  N = 4
  DetectCycles = TRUE
  EmitRecords = TRUE
CONSTRAINT Constraint
INVARIANT TypeOK
INVARIANT InvAcyclicOK
INVARIANT InvCyclicReported
INVARIANT InvErrorOnlyIfCyclic
INVARIANT InvVisitedProcessed
INVARIANT InvResultNoDup
INVARIANT InvResultSoFarTopological
INVARIANT InvBoundedSteps
