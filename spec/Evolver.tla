------------------------------ MODULE Evolver ------------------------------
(***************************************************************************)
(* The upgrade-run protocol of django-evolution over its persistent state *)
(* (one database).  Design module: it states what the documentation and    *)
(* properties C04, C07, C08, C12, C17 promise; what the code is known to   *)
(* do differently is present as NAMED DEVIATION actions, enabled only when *)
(* AllowDeviations = TRUE (trace validation), so that a recorded trace is  *)
(* classified rather than merely rejected.                                 *)
(*                                                                         *)
(* Persistent state (durable = committed):                                 *)
(*   tab[a]    version of app a's tables (-1: no tables)                   *)
(*   part[a]   statements of an unfinished upgrade applied on top of tab   *)
(*   stored[a] version of a's signature in the latest Version row (-1 none)*)
(*   nver      number of Version rows                                      *)
(*   evo       Evolution rows, a SEQUENCE (bag): <<app, index, version>>   *)
(* plus the effects pending in the open transaction (`pend`).              *)
(*                                                                         *)
(* Environment: code[a] = the version of models + SEQUENCE deployed for    *)
(* app a (-1: not installed).  Evolution i of an app upgrades version i-1  *)
(* to version i and is simulation-valid on no other version ("chain        *)
(* family", harness/histories.py makes this exact).                        *)
(*                                                                         *)
(* One action per critical section of evolve/evolver.py and                *)
(* evolve/evolve_app_task.py; see the comment on each action.              *)
(***************************************************************************)
EXTENDS Integers, Sequences, FiniteSets, TLC

CONSTANTS Apps,            \* sequence of app labels, in INSTALLED_APPS order
          MaxVer,          \* highest deployable version
          MaxRuns,         \* bound on the number of runs in a history
          NStmt,           \* abstract statements per evolution task
          InjectFaults,    \* explore a fault at every statement
          AllowDeviations, \* enable the named deviations of the code
          Intro,           \* Intro[a]: version at which app a gains a second model
                           \* group G2 as NEW models without an evolution (0: never)
          Grp              \* Grp[a][i]: the model group (1 or 2) evolution i of a targets

AppSet == { Apps[i] : i \in 1..Len(Apps) }
Vers   == -1..MaxVer

VARIABLES code, tab, part, g2, stored, nver, evo,  \* environment + durable
          pend,                                     \* open transaction
          pc, drv, work, todo, create, rec,         \* run-local
          cur, si, fault, failed, sigs, execs, runs, snap, newver, withsql

durable == <<tab, part, stored, nver, evo>>
vars == <<code, tab, part, g2, stored, nver, evo, pend, pc, drv, work, todo,
          create, rec, cur, si, fault, failed, sigs, execs, runs, snap, newver, withsql>>

(* model groups: G1 exists from version 0; G2 appears at version Intro[a] as new
   models.  g2[a] is TRUE in the one transient situation where G2's tables exist
   although the rest of the app's tables are still at a version < Intro[a] *)
HasG2(a, v) == Intro[a] > 0 /\ v >= Intro[a]
G2Exists(a) == HasG2(a, tab[a]) \/ g2[a]

Range(s) == { s[i] : i \in 1..Len(s) }
Recorded(a, i) == \E k \in 1..Len(evo) : evo[k][1] = a /\ evo[k][2] = i
TimesRecorded(a, i) == Cardinality({ k \in 1..Len(evo) : evo[k][1] = a /\ evo[k][2] = i })
Installed == { a \in AppSet : code[a] >= 0 }
SeqOfSet(lo, hi) == [k \in 1..(IF hi >= lo THEN hi - lo + 1 ELSE 0) |-> lo + k - 1]
RECURSIVE SortedSeq(_)
SortedSeq(S) == IF S = {} THEN <<>>
                ELSE LET m == CHOOSE x \in S : \A y \in S : x <= y
                     IN <<m>> \o SortedSeq(S \ {m})

None == [a \in AppSet |-> <<>>]

Init == /\ code = [a \in AppSet |-> -1]
        /\ tab = [a \in AppSet |-> -1] /\ part = [a \in AppSet |-> 0]
        /\ g2 = [a \in AppSet |-> FALSE] /\ withsql = [a \in AppSet |-> {}]
        /\ stored = [a \in AppSet |-> -1] /\ nver = 0 /\ evo = <<>>
        /\ pend = <<>>
        /\ pc = "idle" /\ drv = "api"
        /\ work = [a \in AppSet |-> -1] /\ todo = None
        /\ create = {} /\ rec = [a \in AppSet |-> {}]
        /\ cur = 1 /\ si = 0 /\ fault = <<>> /\ failed = FALSE
        /\ sigs = <<>> /\ execs = [a \in AppSet |-> [i \in 1..MaxVer |-> 0]]
        /\ runs = 0 /\ snap = <<>> /\ newver = 0

---------------------------------------------------------------------------
(* Environment: a developer deploys a (newer) version of an app *)

Deploy(a, v) ==
    /\ pc = "idle" /\ v > code[a] /\ v <= MaxVer
    /\ code' = [code EXCEPT ![a] = v]
    /\ UNCHANGED <<tab, part, stored, nver, evo, pend, pc, drv, work, todo, create,
                   rec, cur, si, fault, failed, sigs, execs, runs, snap, newver, g2, withsql>>

---------------------------------------------------------------------------
(* Evolver.__init__: load the stored signature; on a database without a
   Version row install the baseline (its own Version row, durable at once) *)

Construct(d) ==
    /\ pc = "idle" /\ runs < MaxRuns /\ Installed # {}
    /\ pc' = "constructed" /\ drv' = d /\ runs' = runs + 1
    /\ nver' = IF nver = 0 THEN 1 ELSE nver
    /\ newver' = IF nver = 0 THEN 1 ELSE 0      \* the run's own Version row, if already made
    /\ work' = stored
    /\ snap' = <<tab, part, stored, nver', evo, execs>>
    /\ sigs' = <<>> /\ failed' = FALSE /\ fault' = <<>>
    /\ todo' = None /\ create' = {} /\ rec' = [a \in AppSet |-> {}]
    /\ cur' = 1 /\ si' = 0 /\ withsql' = [a \in AppSet |-> {}]
    /\ UNCHANGED <<code, tab, part, stored, evo, pend, execs, g2>>

(* EvolveAppTask.prepare for every queued app, then the simulation check.
   New app (no stored signature): copy the target signature, record the whole
   SEQUENCE, execute nothing.  Existing app: pending = SEQUENCE minus recorded
   labels, simulated on a clone of the signature. *)
PendingOf(a) == { i \in 1..code[a] : ~Recorded(a, i) }
SimValid(a)  == PendingOf(a) = (stored[a] + 1)..code[a]   \* chain: exactly the missing suffix

(* new models of an already tracked app: G2 is deployed but its tables are missing *)
NewModels(a) == HasG2(a, code[a]) /\ ~G2Exists(a)
(* pending labels that carry SQL: get_app_pending_mutations drops the mutations of
   models that are being created in this very run *)
WithSql(a) == { i \in PendingOf(a) : Grp[a][i] = 1 \/ G2Exists(a) }

Prepare ==
    /\ pc = "constructed"
    /\ LET newApps == { a \in Installed : stored[a] = -1 }
           oldApps == Installed \ newApps
           bad     == { a \in oldApps : ~SimValid(a) }
       IN IF bad # {}
          THEN \* SimulationFailure out of prepare(): no signal has been sent yet
               /\ pc' = IF drv = "cmd" THEN "rejected" ELSE "failed"
               /\ UNCHANGED <<work, todo, create, rec, withsql>>
          ELSE /\ create' = { a \in newApps : tab[a] = -1 } \cup { a \in oldApps : NewModels(a) }
               /\ work' = [a \in AppSet |->
                             IF a \in newApps THEN (IF tab[a] = -1 THEN code[a] ELSE -1)
                             ELSE IF a \in oldApps THEN code[a] ELSE stored[a]]
               /\ todo' = [a \in AppSet |->
                             IF a \in oldApps /\ WithSql(a) # {}
                             THEN SortedSeq(PendingOf(a)) ELSE <<>>]
               /\ withsql' = [a \in AppSet |-> IF a \in oldApps THEN WithSql(a) ELSE {}]
               /\ rec' = [a \in AppSet |->
                             IF a \in newApps THEN 1..code[a]
                             ELSE IF a \in oldApps THEN PendingOf(a) ELSE {}]
               /\ pc' = "prepared"
    /\ UNCHANGED <<code, tab, part, g2, stored, nver, evo, pend, drv, cur, si, fault,
                   failed, sigs, execs, runs, snap, newver>>

Required == create # {} \/ \E a \in AppSet : todo[a] # <<>>

(* the evolve command: nothing to do -> report and stop without touching anything *)
NothingRequired ==
    /\ pc = "prepared" /\ drv = "cmd" /\ ~Required
    /\ pc' = "idle"
    /\ UNCHANGED <<code, tab, part, stored, nver, evo, pend, drv, work, todo, create,
                   rec, cur, si, fault, failed, sigs, execs, runs, snap, newver, g2, withsql>>

(* Evolver.evolve(): evolving.send() before any change is made.  A fault, if
   any, is chosen here: <<phase, app, statement>> *)
FaultPoints == { <<"create", a, 1>> : a \in create }
               \cup { <<"evolve", a, k>> : a \in { x \in AppSet : todo[x] # <<>> }, k \in 1..NStmt }

EmitEvolving ==
    /\ pc = "prepared" /\ (drv = "api" \/ Required)
    /\ pc' = "evolving"
    /\ sigs' = Append(sigs, <<"evolving">>)
    /\ \/ fault' = <<>>
       \/ InjectFaults /\ \E f \in FaultPoints : fault' = f
    /\ cur' = 1 /\ si' = 0
    /\ UNCHANGED <<code, tab, part, stored, nver, evo, pend, drv, work, todo, create,
                   rec, failed, execs, runs, snap, newver, g2, withsql>>

---------------------------------------------------------------------------
(* The single EVOLUTIONS batch: all new models first (one run_sql call, one
   transaction), then each app's evolution SQL (one run_sql call each; each
   call commits the previous transaction and opens the next). *)

CreateOrder == SelectSeq(Apps, LAMBDA a : a \in create)
EvolveOrder == SelectSeq(Apps, LAMBDA a : todo[a] # <<>>)

(* creating_models for every task, the CREATE statements, created_models *)
EmitCreating ==
    /\ pc = "evolving" /\ create # {}
    /\ pc' = "creating"
    /\ sigs' = sigs \o [k \in 1..Len(CreateOrder) |-> <<"creating_models", CreateOrder[k]>>]
    /\ cur' = 1
    /\ UNCHANGED <<code, tab, part, stored, nver, evo, pend, drv, work, todo, create,
                   rec, si, fault, failed, execs, runs, snap, newver, g2, withsql>>

CreateStmt ==
    /\ pc = "creating" /\ cur <= Len(CreateOrder)
    /\ LET a == CreateOrder[cur]
       IN IF fault = <<"create", a, 1>>
          THEN /\ pc' = "failing" /\ UNCHANGED <<pend, cur, g2, withsql>>
          ELSE /\ pend' = Append(pend, <<"create", a, code[a]>>)
               /\ cur' = cur + 1 /\ UNCHANGED pc
    /\ UNCHANGED <<code, tab, part, stored, nver, evo, drv, work, todo, create, rec,
                   si, fault, failed, sigs, execs, runs, snap, newver, g2, withsql>>

EmitCreated ==
    /\ pc = "creating" /\ cur > Len(CreateOrder)
    /\ sigs' = sigs \o [k \in 1..Len(CreateOrder) |-> <<"created_models", CreateOrder[k]>>]
    /\ pc' = "evolving2" /\ cur' = 1
    /\ UNCHANGED <<code, tab, part, stored, nver, evo, pend, drv, work, todo, create,
                   rec, si, fault, failed, execs, runs, snap, newver, g2, withsql>>

SkipCreate ==
    /\ pc = "evolving" /\ create = {}
    /\ pc' = "evolving2" /\ cur' = 1
    /\ UNCHANGED <<code, tab, part, stored, nver, evo, pend, drv, work, todo, create,
                   rec, si, fault, failed, sigs, execs, runs, snap, newver, g2, withsql>>

(* SQLExecutor.new_transaction(): finish (commit) the previous one *)
Flush(st, e) ==   \* apply one pending effect to the durable tables <<tab, part, g2>>
    LET t == st[1]  p == st[2]  g == st[3]  a == e[2] IN
    CASE e[1] = "create" ->
            IF stored[a] = -1 \/ withsql[a] = {}
            THEN <<[t EXCEPT ![a] = e[3]], p, g>>              \* the app is now at e[3]
            ELSE <<t, p, [g EXCEPT ![a] = TRUE]>>              \* G2 made, G1 still to evolve
      [] e[1] = "stmt"   -> IF p[a] + 1 = NStmt
                            THEN <<[t EXCEPT ![a] = e[3]], [p EXCEPT ![a] = 0], [g EXCEPT ![a] = FALSE]>>
                            ELSE <<t, [p EXCEPT ![a] = @ + 1], g>>
      [] OTHER -> st
RECURSIVE FlushAll(_, _)
FlushAll(st, es) == IF es = <<>> THEN st ELSE FlushAll(Flush(st, Head(es)), Tail(es))
DoFlush == LET r == FlushAll(<<tab, part, g2>>, pend)
           IN tab' = r[1] /\ part' = r[2] /\ g2' = r[3] /\ pend' = <<>>

EmitApplying ==
    /\ pc = "evolving2" /\ cur <= Len(EvolveOrder)
    /\ sigs' = Append(sigs, <<"applying_evolution", EvolveOrder[cur], todo[EvolveOrder[cur]]>>)
    /\ pc' = "applying" /\ si' = 1
    /\ UNCHANGED <<code, tab, part, stored, nver, evo, pend, drv, work, todo, create,
                   rec, cur, fault, failed, execs, runs, snap, newver, g2, withsql>>

(* NAMED DEVIATION: every run_sql call commits what the previous call left
   open, so an earlier unit of the run is durable before a later one starts *)
CommitBetweenUnits ==
    /\ AllowDeviations /\ pend # <<>>
    /\ \/ pc = "applying" /\ si = 1
       \/ pc = "evolving2" /\ cur <= Len(EvolveOrder)
    /\ DoFlush
    /\ UNCHANGED <<code, stored, nver, evo, pc, drv, work, todo, create, rec, cur, si,
                   fault, failed, sigs, execs, runs, snap, newver, withsql>>

EvoStmt ==
    /\ pc = "applying" /\ si <= NStmt
    /\ LET a == EvolveOrder[cur]
       IN IF fault = <<"evolve", a, si>>
          THEN /\ pc' = "failing" /\ UNCHANGED <<pend, si, g2, withsql>>
          ELSE /\ pend' = Append(pend, <<"stmt", a, code[a]>>)
               /\ si' = si + 1 /\ UNCHANGED pc
    /\ UNCHANGED <<code, tab, part, stored, nver, evo, drv, work, todo, create, rec,
                   cur, fault, failed, sigs, execs, runs, snap, newver, g2, withsql>>

EmitApplied ==
    /\ pc = "applying" /\ si > NStmt
    /\ sigs' = Append(sigs, <<"applied_evolution", EvolveOrder[cur], todo[EvolveOrder[cur]]>>)
    /\ pc' = "evolving2" /\ cur' = cur + 1
    \* history: every label of the task has now had its SQL executed in full
    /\ execs' = [execs EXCEPT ![EvolveOrder[cur]] = [i \in 1..MaxVer |->
                    IF i \in withsql[EvolveOrder[cur]] THEN @[i] + 1 ELSE @[i]]]
    /\ UNCHANGED <<code, tab, part, stored, nver, evo, pend, drv, work, todo, create,
                   rec, si, fault, failed, runs, snap, newver, g2, withsql>>

(* SQLExecutor.__exit__ on the normal path: commit *)
CommitBatch ==
    /\ pc = "evolving2" /\ cur > Len(EvolveOrder)
    /\ DoFlush
    /\ pc' = "saving"
    /\ UNCHANGED <<code, stored, nver, evo, drv, work, todo, create, rec, cur, si,
                   fault, failed, sigs, execs, runs, snap, newver, withsql>>

(* a statement failed: the design rolls the open transaction back ... *)
RollbackAfterFailure ==
    /\ pc = "failing"
    /\ pend' = <<>> /\ pc' = "emitfailed"
    \* executions whose effects were never committed do not count as executions
    /\ execs' = IF \E k \in 1..Len(pend) : pend[k][1] = "stmt" THEN snap[6] ELSE execs
    /\ UNCHANGED <<code, tab, part, stored, nver, evo, drv, work, todo, create, rec,
                   cur, si, fault, failed, sigs, runs, snap, newver, g2, withsql>>

(* ... NAMED DEVIATION: SQLExecutor.__exit__ ignores the exception and commits *)
CommitAfterFailure ==
    /\ AllowDeviations /\ pc = "failing"
    /\ DoFlush
    /\ pc' = "emitfailed"
    /\ UNCHANGED <<code, stored, nver, evo, drv, work, todo, create, rec, cur, si,
                   fault, failed, sigs, execs, runs, snap, newver, withsql>>

EmitFailed ==
    /\ pc = "emitfailed"
    /\ sigs' = Append(sigs, <<"evolving_failed">>)
    /\ pc' = "failed" /\ failed' = TRUE
    /\ UNCHANGED <<code, tab, part, stored, nver, evo, pend, drv, work, todo, create,
                   rec, cur, si, fault, execs, runs, snap, newver, g2, withsql>>

(* Evolver._save_project_sig: the Version row (with the simulated signature)
   and the Evolution rows of every task, attached to that version *)
RowsOf == LET perApp(a) == [k \in 1..Len(SortedSeq(rec[a])) |->
                              <<a, SortedSeq(rec[a])[k], IF newver = 0 THEN nver + 1 ELSE newver>>]
              RECURSIVE Cat(_)
              Cat(s) == IF s = <<>> THEN <<>> ELSE perApp(Head(s)) \o Cat(Tail(s))
          IN Cat(Apps)

SaveSignature ==
    /\ pc = "saving"
    /\ nver' = IF newver = 0 THEN nver + 1 ELSE nver
    /\ stored' = [a \in AppSet |-> IF a \in Installed THEN work[a] ELSE stored[a]]
    /\ evo' = evo \o RowsOf
    /\ pc' = "saved"
    /\ UNCHANGED <<code, tab, part, pend, drv, work, todo, create, rec, cur, si, fault,
                   failed, sigs, execs, runs, snap, newver, g2, withsql>>

EmitEvolved ==
    /\ pc = "saved"
    /\ sigs' = Append(sigs, <<"evolved">>)
    /\ pc' = "done"
    /\ UNCHANGED <<code, tab, part, stored, nver, evo, pend, drv, work, todo, create,
                   rec, cur, si, fault, failed, execs, runs, snap, newver, g2, withsql>>

(* the run object is dropped; the next run may start *)
Finish ==
    /\ pc \in {"done", "failed", "rejected"}
    /\ pc' = "idle" /\ sigs' = <<>>
    /\ UNCHANGED <<code, tab, part, stored, nver, evo, pend, drv, work, todo, create,
                   rec, cur, si, fault, failed, execs, runs, snap, newver, g2, withsql>>

Next == \/ \E a \in AppSet, v \in 0..MaxVer : Deploy(a, v)
        \/ \E d \in {"api", "cmd"} : Construct(d)
        \/ Prepare \/ NothingRequired \/ EmitEvolving
        \/ EmitCreating \/ CreateStmt \/ EmitCreated \/ SkipCreate
        \/ EmitApplying \/ CommitBetweenUnits \/ EvoStmt \/ EmitApplied \/ CommitBatch
        \/ RollbackAfterFailure \/ CommitAfterFailure \/ EmitFailed
        \/ SaveSignature \/ EmitEvolved \/ Finish

Spec == Init /\ [][Next]_vars

---------------------------------------------------------------------------
(* Properties *)

TypeOK == /\ code \in [AppSet -> Vers] /\ tab \in [AppSet -> Vers]
          /\ stored \in [AppSet -> Vers] /\ nver \in Nat
          /\ pc \in {"idle", "constructed", "prepared", "evolving", "creating",
                     "evolving2", "applying", "failing", "emitfailed", "failed",
                     "saving", "saved", "done", "rejected"}

(* C04: a completed run leaves tables, stored signature and recorded labels at
   the deployed version of every installed app *)
Converged ==
    pc = "done" => \A a \in Installed :
        /\ tab[a] = code[a] /\ part[a] = 0 /\ ~g2[a] /\ stored[a] = code[a]
        /\ \A i \in 1..code[a] : Recorded(a, i)
(* C04: a run constructed in a converged state has nothing to do *)
RerunIsNoop ==
    (pc = "prepared" /\ \A a \in Installed : snap[1][a] = code[a] /\ snap[3][a] = code[a])
        => ~Required

(* C07: a failed run leaves the durable state as it was at construction *)
FailedRunIsInvisible ==
    (pc = "failed" /\ fault # <<>>) =>
        /\ stored = snap[3] /\ nver = snap[4] /\ evo = snap[5]     \* nothing recorded
        /\ \A a \in AppSet : part[a] = 0 /\ ~g2[a]                   \* no half-applied evolution
        /\ tab[fault[2]] = snap[1][fault[2]]                          \* the failing unit left no trace
(* what an earlier, completed unit of the same run committed may stay (the
   code commits per run_sql call); the stored signature then lags behind the
   tables, and the retry must cope with that *)
(* C12: a rejected run touches nothing and sends no signal *)
RejectTouchesNothing ==
    pc = "rejected" => (<<tab, part, stored, nver, evo, execs>> = snap /\ sigs = <<>>)
(* C12: whatever is executed was simulated up to the deployed models *)
ExecuteOnlyIfSimulatesToTarget ==
    pc \in {"evolving", "creating", "evolving2", "applying", "saving", "saved", "done"}
        => \A a \in Installed : work[a] = code[a] \/ (work[a] = -1 /\ tab[a] # -1)

(* C08 *)
ExecutedAtMostOnce == \A a \in AppSet : \A i \in 1..MaxVer : execs[a][i] <= 1
RecordedAtMostOnce == \A a \in AppSet : \A i \in 1..MaxVer : TimesRecorded(a, i) <= 1
RecordedOnlyWithTables ==        \* a recorded label is reflected in the tables
    \A k \in 1..Len(evo) : tab[evo[k][1]] >= evo[k][2] \/ pc \notin {"idle", "done"}
RecordedWithinVersions == \A k \in 1..Len(evo) : evo[k][3] \in 1..nver
FreshRecordsWithoutExecuting ==
    pc = "done" => \A a \in create : snap[3][a] = -1 => \A i \in 1..code[a] : execs[a][i] = 0

(* C17: signals *)
Count(name) == Cardinality({ k \in 1..Len(sigs) : sigs[k][1] = name })
EvolvingAtMostOnce == Count("evolving") <= 1
EvolvingBeforeAnyChange ==
    (Count("evolving") = 0 /\ pc # "idle") => (<<tab, part, stored, evo>> = <<snap[1], snap[2], snap[3], snap[5]>> /\ pend = <<>>)
ExactlyOneTerminalSignal ==
    pc \in {"done", "failed"} /\ Count("evolving") = 1
        => Count("evolved") + Count("evolving_failed") = 1
EvolvedIffSaved ==
    Count("evolved") = 1 => (pc = "done" /\ \A a \in Installed : stored[a] = work[a])
PairedUnlessFailed ==
    pc = "done" => /\ Count("applying_evolution") = Count("applied_evolution")
                   /\ Count("creating_models") = Count("created_models")
NoTerminalWithoutEvolving ==
    Count("evolving") = 0 => Count("evolved") + Count("evolving_failed") = 0
(* an end signal says that what its opening signal announced was done: the unit in which a
   statement failed never gets one *)
EndSignalsTruthful ==
    (pc \in {"failing", "failed"} /\ fault # <<>>) =>
        /\ fault[1] = "evolve" =>
              ~\E k \in 1..Len(sigs) : sigs[k][1] = "applied_evolution" /\ sigs[k][2] = fault[2]
        /\ fault[1] = "create" => Count("created_models") = 0

(* the partial-state marker only exists in states a correct run never leaves behind *)
NoPartialAtRest == pc = "idle" => \A a \in AppSet : part[a] = 0 /\ ~g2[a]

StateBound == runs <= MaxRuns
=============================================================================
