------------------------------- MODULE Ledger -------------------------------
(***************************************************************************)
(* The applied-evolution ledger under upgrade runs - completing, rejected,  *)
(* idle or FAILING - interleaved with the repair commands                   *)
(* mark-evolution-applied and wipe-evolution (property C08, the part of its *)
(* quantifier about those commands).                                        *)
(*                                                                         *)
(* Two apps of the chain family (evolution i leads from version i-1 to i    *)
(* and is valid on no other version) that share their evolution labels.     *)
(* A run is one `evolve --execute`, taken as one step: the step-by-step     *)
(* protocol is Evolver.tla's business.                                      *)
(***************************************************************************)
EXTENDS Integers, Sequences, FiniteSets, TLC, Json

CONSTANTS MaxVer, MaxOps, EmitRecords, WithFaults, WithHints

Apps == {"a1", "a2"}
VARIABLES code,      \* deployed version of each app (-1: not installed)
          stored,    \* version the stored signature describes (-1: untracked)
          tab,       \* version of the tables
          rec,       \* rec[a][i]: number of django_evolution rows for label i of app a
          execs,     \* execs[a][i]: how often label i had its SQL executed
          last,      \* outcome of the last operation
          baseDone,  \* the rest of the project (contenttypes' migrations, ...) has been brought up by a
                     \* full run; until then every full run has something to do whatever the two apps need
          hist

vars == <<code, stored, tab, rec, execs, last, baseDone, hist>>
Labels == 1..MaxVer
Zero == [a \in Apps |-> [i \in Labels |-> 0]]

Init == /\ code = [a \in Apps |-> -1] /\ stored = [a \in Apps |-> -1] /\ tab = [a \in Apps |-> -1]
        /\ rec = Zero /\ execs = Zero /\ last = [op |-> "init"] /\ baseDone = FALSE /\ hist = <<>>

Installed == { a \in Apps : code[a] >= 0 }
Log(op) == hist' = Append(hist, op) /\ last' = op

Deploy(a, v) ==
    /\ v > code[a] /\ v <= MaxVer
    /\ code' = [code EXCEPT ![a] = v]
    /\ Log([op |-> "deploy", app |-> a, v |-> v])
    /\ UNCHANGED <<stored, tab, rec, execs, baseDone>>

(* what one `evolve --execute` does *)
Pending(a) == { i \in 1..code[a] : rec[a][i] = 0 }
New(a) == stored[a] = -1
Changed(a) == stored[a] # code[a]
(* the mutations that survive the changed-models filter *)
Muts(a) == IF New(a) \/ ~Changed(a) THEN {} ELSE Pending(a)
(* chain family: the surviving mutations simulate to the current models exactly when
   they are the missing suffix *)
Reaches(a) == IF New(a) THEN TRUE
              ELSE IF ~Changed(a) THEN TRUE
              ELSE Muts(a) = (stored[a] + 1)..code[a]
(* S: the apps queued for this run (all installed apps for the command; one app for an
   API run limited to it with Evolver.queue_evolve_app) *)
RunOn(S, opname) ==
    /\ S # {} /\ S \subseteq Installed
    /\ LET bad == { a \in S : ~Reaches(a) }
           full == opname = "run"
           required == (full /\ ~baseDone) \/ \E a \in S : New(a) \/ Muts(a) # {}
           idle == /\ Log([op |-> opname, apps |-> S, outcome |-> "nothing", executed |-> [a \in Apps |-> {}]])
                   /\ UNCHANGED <<code, stored, tab, rec, execs, baseDone>>
       IN \* the API run limited to some apps evolves only if something is required, and asks
          \* nothing else; the command also refuses a project it cannot bring to its models
          IF ~full /\ ~required THEN idle
          ELSE IF bad # {}
          THEN /\ Log([op |-> opname, apps |-> S, outcome |-> "rejected", executed |-> [a \in Apps |-> {}]])
               /\ UNCHANGED <<code, stored, tab, rec, execs, baseDone>>
          ELSE IF ~required THEN idle
          ELSE /\ execs' = [a \in Apps |-> [i \in Labels |->
                               IF a \in S /\ i \in Muts(a) THEN execs[a][i] + 1 ELSE execs[a][i]]]
               \* every queued task records its unapplied labels, with or without SQL; a new app
               \* records its whole sequence; apps that are not queued are left alone
               /\ rec' = [a \in Apps |-> [i \in Labels |->
                               IF a \in S /\ i \in Pending(a) THEN rec[a][i] + 1 ELSE rec[a][i]]]
               /\ stored' = [a \in Apps |-> IF a \in S THEN code[a] ELSE stored[a]]
               /\ tab' = [a \in Apps |-> IF a \in S THEN code[a] ELSE tab[a]]
               /\ baseDone' = (baseDone \/ full)
               \* seen from the two apps, a run that only brought up the rest of the project did nothing
               /\ Log([op |-> opname, apps |-> S,
                       outcome |-> IF \E a \in S : New(a) \/ Muts(a) # {} \/ Pending(a) # {}
                                   THEN "executed" ELSE "nothing",
                       executed |-> [a \in Apps |-> IF a \in S THEN Muts(a) ELSE {}]])
               /\ UNCHANGED code
Run == RunOn(Installed, "run")

(* `evolve --hint --execute`: every tracked app is brought to its models by the mutations the DIFF
   suggests - the written evolutions are not consulted, none of their labels is executed or
   recorded - while an app seen for the first time is treated as in any run: its tables are
   created and its whole sequence is recorded.  A hint that needs a value from the user (a
   non-null column is added: in the chain family, evolution i of a1 for odd i, of a2 for even i)
   cannot be executed: the run is refused. *)
NeedsValue(a, i) == IF a = "a1" THEN i % 2 = 1 ELSE i % 2 = 0
Hintable(a) == \A i \in (stored[a] + 1)..code[a] : ~NeedsValue(a, i)
RunHinted ==
    /\ Installed # {}
    /\ LET S == Installed
           bad == { a \in S : ~New(a) /\ Changed(a) /\ ~Hintable(a) }
           ours == \E a \in S : New(a) \/ Changed(a)
           required == ~baseDone \/ ours
           none == [a \in Apps |-> {}]
       IN IF bad # {}
          THEN /\ Log([op |-> "runhint", apps |-> S, outcome |-> "rejected", executed |-> none])
               /\ UNCHANGED <<code, stored, tab, rec, execs, baseDone>>
          ELSE IF ~required
          THEN /\ Log([op |-> "runhint", apps |-> S, outcome |-> "nothing", executed |-> none])
               /\ UNCHANGED <<code, stored, tab, rec, execs, baseDone>>
          ELSE /\ rec' = [a \in Apps |-> [i \in Labels |->
                               IF a \in S /\ New(a) /\ i \in Pending(a) THEN rec[a][i] + 1 ELSE rec[a][i]]]
               /\ stored' = [a \in Apps |-> IF a \in S THEN code[a] ELSE stored[a]]
               /\ tab' = [a \in Apps |-> IF a \in S THEN code[a] ELSE tab[a]]
               /\ baseDone' = TRUE
               /\ Log([op |-> "runhint", apps |-> S, outcome |-> IF ours THEN "executed" ELSE "nothing",
                       executed |-> none])
               /\ UNCHANGED <<code, execs>>

(* fault: the run fails at the first statement of its first evolution.  Nothing has been committed
   at that point (no app is being created in this run), so nothing at all changes: no row, no
   execution that counts, no signature - and the ledger commands and later runs go on from there *)
RunFails ==
    /\ Installed # {}
    /\ \A a \in Installed : Reaches(a) /\ ~New(a)
    /\ \E a \in Installed : Muts(a) # {}
    /\ baseDone        \* (the rest of the project is up: the first statement is one of the apps')
    /\ Log([op |-> "runfail", apps |-> Installed, outcome |-> "failed", executed |-> [a \in Apps |-> {}]])
    /\ UNCHANGED <<code, stored, tab, rec, execs, baseDone>>
RunOnly(a) == a \in Installed /\ Cardinality(Installed) > 1 /\ RunOn({a}, "runonly")

(* mark-evolution-applied --app-label a LABEL: refuses labels that are already applied *)
Mark(a, i) ==
    /\ a \in Installed /\ i \in 1..code[a]
    /\ \E x \in Apps : stored[x] >= 0         \* a Version row exists
    /\ IF rec[a][i] > 0
       THEN Log([op |-> "mark", app |-> a, label |-> i, ok |-> FALSE]) /\ UNCHANGED rec
       ELSE Log([op |-> "mark", app |-> a, label |-> i, ok |-> TRUE])
            /\ rec' = [rec EXCEPT ![a][i] = 1]
    /\ UNCHANGED <<code, stored, tab, execs, baseDone>>

(* --all: the whole sequence; as found it refuses when ANY label is already applied *)
MarkAll(a) ==
    /\ a \in Installed /\ code[a] >= 1
    /\ \E x \in Apps : stored[x] >= 0
    /\ IF \E i \in 1..code[a] : rec[a][i] > 0
       THEN Log([op |-> "markall", app |-> a, ok |-> FALSE]) /\ UNCHANGED rec
       ELSE Log([op |-> "markall", app |-> a, ok |-> TRUE])
            /\ rec' = [rec EXCEPT ![a] = [i \in Labels |-> IF i <= code[a] THEN 1 ELSE @[i]]]
    /\ UNCHANGED <<code, stored, tab, execs, baseDone>>

(* wipe-evolution [--app-label a] LABEL: exactly one matching row must exist *)
Wipe(a, i, withLabel) ==
    /\ a \in Apps /\ i \in Labels
    /\ LET n == IF withLabel THEN rec[a][i] ELSE rec["a1"][i] + rec["a2"][i]
       IN IF n # 1
          THEN Log([op |-> "wipe", app |-> a, label |-> i, scoped |-> withLabel, ok |-> FALSE])
               /\ UNCHANGED rec
          ELSE /\ Log([op |-> "wipe", app |-> a, label |-> i, scoped |-> withLabel, ok |-> TRUE])
               /\ rec' = IF withLabel THEN [rec EXCEPT ![a][i] = 0]
                         ELSE [x \in Apps |-> [rec[x] EXCEPT ![i] = 0]]
    /\ UNCHANGED <<code, stored, tab, execs, baseDone>>

Next == /\ Len(hist) < MaxOps
        /\ \/ \E a \in Apps, v \in 0..MaxVer : Deploy(a, v)
           \/ Run
           \/ (WithFaults /\ RunFails)
           \/ (WithHints /\ RunHinted)
           \/ \E a \in Apps : RunOnly(a)
           \/ \E a \in Apps, i \in Labels : Mark(a, i)
           \/ \E a \in Apps : MarkAll(a)
           \/ \E a \in Apps, i \in Labels : Wipe(a, i, TRUE)
           \/ \E i \in Labels : Wipe("a1", i, FALSE)
Spec == Init /\ [][Next]_vars

---------------------------------------------------------------------------
(* C08 *)
ExecutedAtMostOnce == \A a \in Apps, i \in Labels : execs[a][i] <= 1
RecordedAtMostOnce == \A a \in Apps, i \in Labels : rec[a][i] <= 1
(* a recorded label is never executed: execution only ever touches unrecorded labels *)
RecordedNeverExecutedAgain ==
    [][ \A a \in Apps, i \in Labels : (rec[a][i] > 0 /\ execs'[a][i] > execs[a][i]) => FALSE ]_vars
(* only a run that completes records; a rejected or idle run changes nothing *)
OnlyCompletedRunsRecord ==
    [][ (last'.op \in {"run", "runonly", "runfail", "runhint"} /\ last'.outcome # "executed")
            => UNCHANGED <<rec, execs, stored, tab>> ]_vars
(* a run limited to one app leaves the other app's ledger and signature alone *)
LimitedRunTouchesOnlyItsApp ==
    [][ last'.op = "runonly" => \A a \in Apps \ last'.apps :
            rec'[a] = rec[a] /\ execs'[a] = execs[a] /\ stored'[a] = stored[a] /\ tab'[a] = tab[a] ]_vars
(* a hinted run executes and records no written evolution of a tracked app *)
HintedRunLeavesTrackedLedgersAlone ==
    [][ last'.op = "runhint" => \A a \in Apps : stored[a] >= 0 => (rec'[a] = rec[a] /\ execs'[a] = execs[a]) ]_vars
(* a fresh app's whole sequence is recorded without any of it being executed - in hinted runs too *)
FreshRecordsWithoutExecuting ==
    [][ \A a \in Apps : (stored[a] = -1 /\ stored'[a] >= 0) =>
            /\ \A i \in 1..code[a] : rec'[a][i] = 1
            /\ execs'[a] = execs[a] ]_vars

Emit == (EmitRecords /\ hist # <<>>) =>
          PrintT(<<"REC", ToJson([hist |-> hist, rec |-> rec, execs |-> execs,
                                   stored |-> stored, tab |-> tab])>>)
Constraint == Emit
=============================================================================
