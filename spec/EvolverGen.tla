---------------------------- MODULE EvolverGen ----------------------------
(***************************************************************************)
(* Evolver with a history variable: the sequence of environment choices    *)
(* (deployments, runs, drivers, fault points) that led to the current      *)
(* state.  `hist` is hidden from the fingerprint by a VIEW, so TLC keeps   *)
(* one representative history per reachable state of the design; each      *)
(* history printed at an idle state is replayed on a real project by        *)
(* harness/engines/runs.py (spec -> code), and the traces of those runs    *)
(* are validated by EvolverTrace (code -> spec).                           *)
(***************************************************************************)
EXTENDS Evolver, Json

VARIABLE hist
CONSTANT EmitHistories

TwoApps == <<"a1", "a2">>
OneApp  == <<"a1">>
(* a1 gains a second model group at version 1; its evolution 2 targets that group *)
IntroA1 == [a \in {"a1", "a2"} |-> IF a = "a1" THEN 1 ELSE 0]
GrpA1   == [a \in {"a1", "a2"} |-> [i \in 1..MaxVer |-> IF a = "a1" /\ i = 2 THEN 2 ELSE 1]]
NoIntro == [a \in {"a1", "a2"} |-> 0]
AllG1   == [a \in {"a1", "a2"} |-> [i \in 1..MaxVer |-> 1]]

gvars == <<vars, hist>>
GView == vars

GInit == Init /\ hist = <<>>

Others == \/ Prepare \/ NothingRequired
          \/ EmitCreating \/ CreateStmt \/ EmitCreated \/ SkipCreate
          \/ EmitApplying \/ CommitBetweenUnits \/ EvoStmt \/ EmitApplied \/ CommitBatch
          \/ RollbackAfterFailure \/ CommitAfterFailure \/ EmitFailed
          \/ SaveSignature \/ EmitEvolved \/ Finish

GNext == \/ \E a \in AppSet, v \in 0..MaxVer :
               Deploy(a, v) /\ hist' = Append(hist, [op |-> "deploy", app |-> a, ver |-> v])
         \/ \E d \in {"api", "cmd"} :
               Construct(d) /\ hist' = Append(hist, [op |-> "run", drv |-> d])
         \/ /\ EmitEvolving
            /\ hist' = IF fault' # <<>>
                       THEN Append(hist, [op |-> "fault", phase |-> fault'[1],
                                          app |-> fault'[2], stmt |-> fault'[3]])
                       ELSE hist
         \/ (Others /\ UNCHANGED hist)

GSpec == GInit /\ [][GNext]_gvars

EmitHist == (EmitHistories /\ pc = "idle" /\ runs >= 1) =>
              PrintT(<<"REC", ToJson([hist |-> hist,
                                       final |-> [code |-> code, tab |-> tab,
                                                  stored |-> stored, nver |-> nver,
                                                  nevo |-> Len(evo)]])>>)
GConstraint == EmitHist
=============================================================================
