-------------------------------- MODULE Sig --------------------------------
(***************************************************************************)
(* Signatures and the simulation semantics of mutations (one app).         *)
(*                                                                         *)
(* An abstract project signature is a partial function                     *)
(*     ModelName -> [table, fields, ut, uta, idx, cons]                          *)
(* with fields : FieldName -> [ftype, attrs, rel].  `attrs` holds only the *)
(* explicitly stored attributes, exactly as FieldSignature.field_attrs     *)
(* does.  Python's None is the string "None".                              *)
(*                                                                         *)
(* Sim(mu, sig) follows the simulate() method of each mutation class       *)
(* (django_evolution/mutations/*.py), precondition for precondition; it    *)
(* is the definition of "simulation-valid" used by every property that     *)
(* quantifies over valid mutation sequences (C01, C02, C03, C11, C18).     *)
(***************************************************************************)
EXTENDS Naturals, Sequences, FiniteSets, TLC

None == "None"

---------------------------------------------------------------------------
(* Python dict helpers over TLA+ functions *)

Has(d, k)     == k \in DOMAIN d
Get(d, k, df) == IF k \in DOMAIN d THEN d[k] ELSE df
Put(d, k, v)  == [x \in (DOMAIN d) \cup {k} |-> IF x = k THEN v ELSE d[x]]
Drop(d, k)    == [x \in (DOMAIN d) \ {k} |-> d[x]]
Upd(d, s)     == [x \in (DOMAIN d) \cup (DOMAIN s) |->
                    IF x \in DOMAIN s THEN s[x] ELSE d[x]]
EmptyDict     == <<>>
(* dict literals are built as FUNCTIONS, never as TLA+ record literals: TLC
   refuses to compare a record literal with the empty function <<>> *)
D1(k, v)              == [x \in {k} |-> v]
D2(k1, v1, k2, v2)    == [x \in {k1, k2} |-> IF x = k1 THEN v1 ELSE v2]
D3(k1, v1, k2, v2, k3, v3) == [x \in {k1, k2, k3} |-> IF x = k1 THEN v1 ELSE IF x = k2 THEN v2 ELSE v3]
(* d[new] = d[old]; del d[old]   (AppMutator._rename_dict_key) *)
RenKey(d, old, new) ==
    IF old = new THEN Drop(d, old)
    ELSE [x \in ((DOMAIN d) \ {old}) \cup {new} |->
             IF x = new THEN d[old] ELSE d[x]]

SeqSet(s)      == { s[i] : i \in 1..Len(s) }
InSeq(x, s)    == \E i \in 1..Len(s) : s[i] = x

---------------------------------------------------------------------------
(* Meta.index_together, where a model record carries one *)
It(ms) == IF "it" \in DOMAIN ms THEN ms.it ELSE <<>>
WithIt(ms, v) == [x \in (DOMAIN ms) \cup {"it"} |-> IF x = "it" THEN v ELSE ms[x]]

(* Field kinds and the database type Django derives from them *)

TruthyStr(v) == v # None /\ v # ""      \* Python truthiness of an optional string

DbType(ftype, attrs) ==
    CASE ftype = "Char" -> <<"varchar", Get(attrs, "max_length", 0)>>
      [] ftype = "Int"  -> <<"integer">>
      [] ftype = "Auto" -> <<"integer">>
      [] ftype = "FK"   -> <<"integer">>
      [] ftype = "O2O"  -> <<"integer">>
      [] ftype = "Bool" -> <<"bool">>
      [] ftype = "Text" -> <<"text">>
      [] ftype = "M2M"  -> <<"none">>
      [] OTHER          -> <<ftype>>

(* FieldSignature._ATTRIBUTE_DEFAULTS *)
AttrDefault(ftype, a) ==
    CASE a = "db_index"    -> (ftype \in {"FK", "O2O"})
      [] a = "null"        -> FALSE
      [] a = "unique"      -> FALSE
      [] a = "primary_key" -> FALSE
      [] a = "max_length"  -> 0          \* stands for Python's None
      [] OTHER             -> None

AttrValue(fs, a) == IF a \in DOMAIN fs.attrs THEN fs.attrs[a]
                    ELSE AttrDefault(fs.ftype, a)

---------------------------------------------------------------------------
(* Results *)

Ok(sig)   == [ok |-> TRUE, sig |-> sig]
Fail(sig) == [ok |-> FALSE, sig |-> sig]

(* `data` is a ghost component: what the column's pre-existing rows hold.
   "orig-nn" original values without NULLs, "orig-n" original values some of
   which are NULL, "filled" original with NULLs replaced by an initial value,
   "init:<token>" the initial value everywhere, "filled:<token>" original with NULLs
   replaced by that initial value, "null" NULL everywhere.
   It is not part of the signature (SigEq ignores it); DataEq compares it. *)
NewField(ftype, attrs, init) ==
    [ftype |-> ftype,
     attrs |-> Drop(attrs, "related_model"),
     rel   |-> Get(attrs, "related_model", None),
     data  |-> IF init # None THEN "init:" \o init ELSE "null"]

(* the initial value (token) is part of what the rows hold *)
FillNulls(d, init) == CASE d = "orig-n" -> "filled:" \o init [] d = "null" -> "init:" \o init [] OTHER -> d

(* DeleteField.simulate: drop the field from every unique_together entry *)
RECURSIVE PruneTuple(_, _)
PruneTuple(t, f) == IF t = <<>> THEN <<>>
                    ELSE IF Head(t) = f THEN PruneTuple(Tail(t), f)
                         ELSE <<Head(t)>> \o PruneTuple(Tail(t), f)
RECURSIVE PruneUT(_, _)
PruneUT(ut, f) == IF ut = <<>> THEN <<>>
                  ELSE LET t == PruneTuple(Head(ut), f)
                       IN IF t = <<>> THEN PruneUT(Tail(ut), f)
                          ELSE <<t>> \o PruneUT(Tail(ut), f)

(* RenameModel.simulate: rewrite every related_model that names the old model *)
Retarget(sig, old, new) ==
    [mn \in DOMAIN sig |->
        [sig[mn] EXCEPT !.fields =
            [fn \in DOMAIN sig[mn].fields |->
                IF sig[mn].fields[fn].rel = old
                THEN [sig[mn].fields[fn] EXCEPT !.rel = new]
                ELSE sig[mn].fields[fn]]]]

Sim(mu, sig) ==
  CASE mu.k = "Add" ->
        IF mu.m \notin DOMAIN sig THEN Fail(sig)
        ELSE IF mu.f \in DOMAIN sig[mu.m].fields THEN Fail(sig)
        ELSE IF mu.ftype # "M2M" /\ Get(mu.attrs, "null", FALSE) # TRUE
                /\ mu.init = None THEN Fail(sig)
        ELSE Ok([sig EXCEPT ![mu.m].fields =
                     Put(@, mu.f, NewField(mu.ftype, mu.attrs, mu.init))])
    [] mu.k = "Chg" ->
        IF mu.m \notin DOMAIN sig THEN Fail(sig)
        ELSE IF mu.f \notin DOMAIN sig[mu.m].fields THEN Fail(sig)
        ELSE LET old == sig[mu.m].fields[mu.f]
                 typeChanged == /\ mu.ftype # None
                                /\ old.ftype # mu.ftype
                                /\ DbType(old.ftype, old.attrs) #
                                   DbType(mu.ftype, Drop(mu.attrs, "related_model"))
                 newType == IF mu.ftype # None THEN mu.ftype ELSE old.ftype
                 newAttrs == IF typeChanged THEN mu.attrs
                             ELSE Upd(old.attrs, mu.attrs)
                 fills == /\ Has(mu.attrs, "null") /\ mu.attrs["null"] = FALSE
                          /\ AttrValue(old, "null") = TRUE /\ mu.init # None
                 new == [old EXCEPT !.ftype = newType, !.attrs = newAttrs,
                                    !.data = IF fills THEN FillNulls(@, mu.init) ELSE @]
             IN IF /\ Has(mu.attrs, "null") /\ mu.attrs["null"] = FALSE
                   /\ newType # "M2M" /\ mu.init = None
                THEN Fail(sig)
                ELSE Ok([sig EXCEPT ![mu.m].fields[mu.f] = new])
    [] mu.k = "Del" ->
        IF mu.m \notin DOMAIN sig THEN Fail(sig)
        ELSE IF mu.f \notin DOMAIN sig[mu.m].fields THEN Fail(sig)
        ELSE IF AttrValue(sig[mu.m].fields[mu.f], "primary_key") = TRUE
             THEN Fail(sig)
        ELSE Ok([sig EXCEPT ![mu.m].fields = Drop(@, mu.f),
                            ![mu.m].ut = PruneUT(@, mu.f)])
    [] mu.k = "RenF" ->
        IF mu.m \notin DOMAIN sig THEN Fail(sig)
        ELSE IF mu.of \notin DOMAIN sig[mu.m].fields THEN Fail(sig)
        ELSE LET old == sig[mu.m].fields[mu.of]
                 attrs == IF old.ftype = "M2M"
                          THEN (IF TruthyStr(mu.dbtable)
                                THEN Put(old.attrs, "db_table", mu.dbtable)
                                ELSE Drop(old.attrs, "db_table"))
                          ELSE (IF TruthyStr(mu.dbcol)
                                THEN Put(old.attrs, "db_column", mu.dbcol)
                                ELSE Drop(old.attrs, "db_column"))
                 ren(t) == [i \in 1..Len(t) |-> IF t[i] = mu.of THEN mu.nf ELSE t[i]]
                 s1 == [sig EXCEPT ![mu.m].fields =
                           Put(Drop(@, mu.of), mu.nf, [old EXCEPT !.attrs = attrs]),
                        \* unique_together / index_together / Meta.indexes follow the renamed field
                        ![mu.m].ut = [i \in 1..Len(@) |-> ren(@[i])],
                        ![mu.m].idx = [i \in 1..Len(@) |-> [@[i] EXCEPT !.fields = ren(@)]]]
             IN Ok(IF "it" \in DOMAIN s1[mu.m]
                   THEN [s1 EXCEPT ![mu.m].it = [i \in 1..Len(@) |-> ren(@[i])]]
                   ELSE s1)
    [] mu.k = "Meta" ->
        IF mu.m \notin DOMAIN sig THEN Fail(sig)
        ELSE IF mu.prop = "unique_together"
             THEN Ok([sig EXCEPT ![mu.m].ut = mu.val, ![mu.m].uta = TRUE])
        ELSE IF mu.prop = "indexes"
             THEN Ok([sig EXCEPT ![mu.m].idx = mu.ival])
        ELSE IF mu.prop = "constraints"
             THEN Ok([sig EXCEPT ![mu.m].cons = mu.ival])
        ELSE IF mu.prop = "index_together"
             THEN Ok([sig EXCEPT ![mu.m] = WithIt(@, mu.val)])
        ELSE Fail(sig)
    [] mu.k = "RenM" ->
        IF mu.om \notin DOMAIN sig THEN Fail(sig)
        ELSE LET ms  == [sig[mu.om] EXCEPT !.table = mu.dbtable]
                 s1  == Put(Drop(sig, mu.om), mu.nm, ms)
             IN Ok(Retarget(s1, mu.om, mu.nm))
    [] mu.k = "DelM" ->
        IF mu.m \notin DOMAIN sig THEN Fail(sig)
        ELSE Ok(Drop(sig, mu.m))
    [] mu.k = "SQL" -> Ok(sig)         \* SQLMutation with a no-op update_func
    [] OTHER -> Fail(sig)

(* Reference semantics: apply the mutations one at a time, in order *)
RECURSIVE SimSeq(_, _)
SimSeq(ms, sig) ==
    IF ms = <<>> THEN Ok(sig)
    ELSE LET r == Sim(Head(ms), sig)
         IN IF r.ok THEN SimSeq(Tail(ms), r.sig) ELSE r

---------------------------------------------------------------------------
(* Signature equality as ModelSignature.__eq__ defines it: unique_together *)
(* compares through has_unique_together_changed, index lists as sets.      *)

UTChanged(old, new) ==
    \/ old.ut # new.ut
    \/ ((old.ut # <<>> \/ new.ut # <<>>) /\ old.uta # new.uta)

(* Meta.db_table_comment, where a model record carries one *)
Comment(ms) == IF "comment" \in DOMAIN ms THEN ms.comment ELSE None

NoData(fields) == [fn \in DOMAIN fields |->
                     [ftype |-> fields[fn].ftype, attrs |-> fields[fn].attrs,
                      rel |-> fields[fn].rel]]
ModelEq(a, b) == /\ a.table = b.table
                 /\ NoData(a.fields) = NoData(b.fields)
                 /\ SeqSet(a.idx) = SeqSet(b.idx)
                 /\ SeqSet(a.cons) = SeqSet(b.cons)
                 /\ Comment(a) = Comment(b)
                 /\ SeqSet(It(a)) = SeqSet(It(b))
                 /\ ~UTChanged(b, a)

SigEq(a, b) == /\ DOMAIN a = DOMAIN b
               /\ \A mn \in DOMAIN a : ModelEq(a[mn], b[mn])

(* Diff(a, b).is_empty() as ModelSignature.diff / FieldSignature.diff compute it:
   attributes compare through their defaults (an omitted attribute equals an
   explicit default), index lists compare as LISTS, unique_together through
   has_unique_together_changed *)
FieldDiffEmpty(x, y) ==
    /\ \A a \in (DOMAIN x.attrs) \cup (DOMAIN y.attrs) : AttrValue(x, a) = AttrValue(y, a)
    /\ (x.ftype = y.ftype \/ DbType(x.ftype, x.attrs)[1] = DbType(y.ftype, y.attrs)[1])
    /\ x.rel = y.rel
ModelDiffEmpty(a, b) ==
    /\ DOMAIN a.fields = DOMAIN b.fields
    /\ \A fn \in DOMAIN a.fields : FieldDiffEmpty(a.fields[fn], b.fields[fn])
    /\ ~UTChanged(a, b)
    /\ a.idx = b.idx
    /\ a.cons = b.cons
    /\ Comment(a) = Comment(b)
    /\ It(a) = It(b)
DiffEmpty(a, b) == /\ DOMAIN a = DOMAIN b
                   /\ \A mn \in DOMAIN a : ModelDiffEmpty(a[mn], b[mn])

(* same pre-existing row data in every surviving column (ghost component) *)
DataEq(a, b) == /\ DOMAIN a = DOMAIN b
                /\ \A mn \in DOMAIN a :
                     /\ DOMAIN a[mn].fields = DOMAIN b[mn].fields
                     /\ \A fn \in DOMAIN a[mn].fields :
                          a[mn].fields[fn].data = b[mn].fields[fn].data

(* C11 on one app: every relation names a model that exists, unless that
   model was explicitly deleted *)
NoDangling(sig, deleted) ==
    \A mn \in DOMAIN sig : \A fn \in DOMAIN sig[mn].fields :
        LET r == sig[mn].fields[fn].rel
        IN r = None \/ r \in DOMAIN sig \/ r \in deleted
=============================================================================
