------------------------------ MODULE MigGraph ------------------------------
(***************************************************************************)
(* Part 3 of the dependency-ordering specification (property C09):          *)
(* evolutions and Django migrations in one upgrade.                         *)
(*                                                                         *)
(* Two evolution apps (1, 2; one evolution applied, 0..2 pending) and two   *)
(* migration apps (3, 4; chains of GLen migrations, any prefix applied).    *)
(* Init chooses up to MaxDecl ordering declarations:                        *)
(*   eam / ebm : AFTER_MIGRATIONS / BEFORE_MIGRATIONS = [(g, n)] in one     *)
(*               pending evolution of an app                                *)
(*   aam / abm : the same at app level (evolutions/__init__.py)             *)
(*   md        : Django's own `dependencies` between migrations of the two  *)
(*               migration apps                                             *)
(* This module is the REFERENCE semantics: the set of ordering requirements *)
(* in force among the pending units and whether they can all be met.  It    *)
(* does not transcribe how EvolveAppTask builds its graph; the replay       *)
(* judges the order the real upgrade executes against `Req`.                *)
(***************************************************************************)
EXTENDS Naturals, Sequences, FiniteSets, TLC, Json

CONSTANTS GLen, MaxDecl, EmitRecords,
          SplitOnly      \* TRUE: only upgrades in which an app has two pending evolutions and an
                         \* evolution-level declaration may order something between them (C08 part 3)

VARIABLES epending,   \* [EApps -> 0..2]
          gapplied,   \* [GApps -> 0..GLen]
          decls,
          hollow      \* pending evolutions with MUTATIONS = [] (ordering only, no SQL)

vars == <<epending, gapplied, decls, hollow>>
EApps == {1, 2}
GApps == {3, 4}
EApplied == 1

PendingEvos(a) == { <<"evo", a, i>> : i \in (EApplied + 1)..(EApplied + epending[a]) }
PendingMigs(g) == { <<"mig", g, n>> : n \in (gapplied[g] + 1)..GLen }
Units == UNION { PendingEvos(a) : a \in EApps } \cup UNION { PendingMigs(g) : g \in GApps }

AllDecls ==
    { <<"eam", a, i, g, n>> : a \in EApps, i \in 2..3, g \in GApps, n \in 1..GLen }
    \cup { <<"ebm", a, i, g, n>> : a \in EApps, i \in 2..3, g \in GApps, n \in 1..GLen }
    \cup { <<"aam", a, 0, g, n>> : a \in EApps, g \in GApps, n \in 1..GLen }
    \cup { <<"abm", a, 0, g, n>> : a \in EApps, g \in GApps, n \in 1..GLen }
    \* eae: evolution i of app a declares AFTER_EVOLUTIONS = [(b, 'e<j>')] on the other evolution app
    \cup { d \in { <<"eae", a, i, b, j>> : a \in EApps, i \in 2..3, b \in EApps, j \in 2..3 } : d[2] # d[4] }
    \cup { <<"md", 4, n, 3, k>> : n \in 1..GLen, k \in 1..GLen }
    \cup { <<"md", 3, n, 4, k>> : n \in 2..GLen, k \in 1..GLen }

Init == /\ epending \in [EApps -> 0..2]
        /\ gapplied \in [GApps -> 0..GLen]
        /\ decls \in {{}} \cup { {d} : d \in AllDecls }
                       \cup (IF MaxDecl >= 2 THEN { {d, e} : d \in AllDecls, e \in AllDecls } ELSE {})
        \* a declaration sits in an evolution that is pending
        /\ \A d \in decls : d[1] \in {"eam", "ebm", "eae"} => <<"evo", d[2], d[3]>> \in PendingEvos(d[2])
        \* an evolution can only name an evolution that exists (applied or pending)
        /\ \A d \in decls : d[1] = "eae" => d[5] <= EApplied + epending[d[4]]
        /\ \A d \in decls : d[1] \in {"aam", "abm"} => epending[d[2]] > 0
        \* history is consistent: an applied migration has its dependencies applied
        /\ \A d \in decls : d[1] = "md" => (d[3] <= gapplied[d[2]] => d[5] <= gapplied[d[4]])
        \* at most one md in each direction (Django rejects circular migration graphs itself)
        /\ Cardinality({ d \in decls : d[1] = "md" }) <= 1
        /\ hollow \in {{}} \cup { {u} : u \in UNION { PendingEvos(a) : a \in EApps } }
        /\ (SplitOnly => /\ \E a \in EApps : epending[a] = 2
                         /\ decls # {} /\ \A d \in decls : d[1] \in {"eam", "ebm", "eae"}
                         /\ gapplied = [g \in GApps |-> 1])
Next == UNCHANGED vars
Spec == Init /\ [][Next]_vars

---------------------------------------------------------------------------
(* <<x, y>> : x must be executed after y *)
ChainReq ==
    { <<x, y>> \in Units \X Units : x[1] = y[1] /\ x[2] = y[2] /\ x[3] > y[3] }
MdReq(d) == LET x == <<"mig", d[2], d[3]>>
                y == <<"mig", d[4], d[5]>>
            IN IF x \in Units /\ y \in Units THEN { <<x, y>> } ELSE {}
DeclReq(d) ==
    LET mig == <<"mig", d[4], d[5]>>
        evo == <<"evo", d[2], d[3]>>
    IN IF d[1] = "eae"
       THEN (IF <<"evo", d[4], d[5]>> \in Units THEN { <<evo, <<"evo", d[4], d[5]>>>> } ELSE {})
       ELSE IF d[1] = "md" THEN MdReq(d)
       ELSE IF mig \notin Units THEN {}
       ELSE IF d[1] = "eam" THEN { <<evo, mig>> }
       ELSE IF d[1] = "ebm" THEN { <<mig, evo>> }
       ELSE IF d[1] = "aam" THEN { <<e, mig>> : e \in PendingEvos(d[2]) }
       ELSE { <<mig, e>> : e \in PendingEvos(d[2]) }
(* An app whose pending evolutions are ALL ordering-only has nothing to execute: its task
   is not required, its evolutions are recorded as applied without entering the graph, and
   what they declare about order is void (there is no execution to order). *)
Idle(a) == PendingEvos(a) # {} /\ PendingEvos(a) \subseteq hollow
IdleUnits == UNION { PendingEvos(a) : a \in { x \in EApps : Idle(x) } }
Req == { p \in ChainReq \cup UNION { DeclReq(d) : d \in decls } :
           p[1] \notin IdleUnits /\ p[2] \notin IdleUnits }

(* the requirements cannot all be met iff some unit (transitively) has to come after itself *)
Succ(R, S) == { p[2] : p \in { q \in R : q[1] \in S } }
RECURSIVE Reach(_, _, _)
Reach(R, S, k) == IF k = 0 \/ S = {} THEN {} ELSE LET T == Succ(R, S) IN T \cup Reach(R, T, k - 1)
Unsatisfiable == LET R == Req IN \E u \in Units : u \in Reach(R, {u}, Cardinality(Units))

RECURSIVE SetToSeq(_)
SetToSeq(X) == IF X = {} THEN <<>> ELSE LET x == CHOOSE y \in X : TRUE IN <<x>> \o SetToSeq(X \ {x})

Emit == EmitRecords =>
          PrintT(<<"REC", ToJson([epending |-> epending, gapplied |-> gapplied,
                                   decls |-> SetToSeq(decls), units |-> SetToSeq(Units),
                                   hollow |-> SetToSeq(hollow),
                                   req |-> SetToSeq(Req), unsat |-> Unsatisfiable])>>)
Constraint == Emit
(* sanity of the reference itself: chains alone are always satisfiable *)
ChainsAloneSatisfiable == decls = {} => ~Unsatisfiable
=============================================================================
