------------------------------ MODULE Perturb ------------------------------
(***************************************************************************)
(* C12: an upgrade is executed only if simulating the pending evolution    *)
(* yields exactly the signature of the current models.                     *)
(*                                                                         *)
(* A behaviour first builds a valid evolution (Optimizer!Extend), whose     *)
(* result `cur` plays the role of "the current models", and then applies    *)
(* ONE perturbation to the evolution's definition: drop, duplicate or swap  *)
(* a mutation, retarget it to another model or field, remove its initial    *)
(* value or change an attribute value.  For the perturbed evolution the     *)
(* model decides what the evolve command must do:                           *)
(*    "sim-fails"  the optimised run is rejected (SimulationFailure etc.)   *)
(*    "residual"   it simulates, but a difference to the models remains     *)
(*    "reaches"    it simulates exactly to the current models               *)
(* and ExecuteOnlyIfReaches is the design invariant.                        *)
(***************************************************************************)
EXTENDS Optimizer

VARIABLES pert,       \* the perturbed evolution (sequence of mutations)
          kind        \* name of the perturbation, "" while building

pvars == <<vars, pert, kind>>

ReplaceAt(s, i, x) == [s EXCEPT ![i] = x]
RemoveAt(s, i) == SubSeq(s, 1, i - 1) \o SubSeq(s, i + 1, Len(s))
InsertAt(s, i, x) == SubSeq(s, 1, i) \o <<x>> \o SubSeq(s, i + 1, Len(s))

OtherModel(m) == CHOOSE x \in ModelNames : x # m /\ (x \in DOMAIN Sig0 \/ \A y \in ModelNames \ {m} : y \notin DOMAIN Sig0)
OtherField(f) == CHOOSE x \in FieldNames : x # f

Perturbations ==
    { [kind |-> "drop", muts |-> RemoveAt(seq, i)] : i \in 1..Len(seq) }
    \cup { [kind |-> "duplicate", muts |-> InsertAt(seq, i, seq[i])] : i \in 1..Len(seq) }
    \cup { [kind |-> "swap", muts |-> ReplaceAt(ReplaceAt(seq, i, seq[i + 1]), i + 1, seq[i])]
             : i \in 1..(Len(seq) - 1) }
    \cup { [kind |-> "retarget-model",
            muts |-> ReplaceAt(seq, i, [seq[i] EXCEPT !.m = OtherModel(@)])]
             : i \in { j \in 1..Len(seq) : seq[j].k \in {"Add", "Chg", "Del", "Meta", "DelM"} } }
    \cup { [kind |-> "rename-field",
            muts |-> ReplaceAt(seq, i, [seq[i] EXCEPT !.f = OtherField(@)])]
             : i \in { j \in 1..Len(seq) : seq[j].k \in {"Add", "Chg", "Del"} } }
    \cup { [kind |-> "remove-initial",
            muts |-> ReplaceAt(seq, i, [seq[i] EXCEPT !.init = None])]
             : i \in { j \in 1..Len(seq) : seq[j].k \in {"Add", "Chg"} /\ seq[j].init # None } }
    \cup { [kind |-> "change-attribute",
            muts |-> ReplaceAt(seq, i, [seq[i] EXCEPT !.attrs = [@ EXCEPT !["max_length"] = @ + 5]])]
             : i \in { j \in 1..Len(seq) : seq[j].k \in {"Add", "Chg"} /\ "max_length" \in DOMAIN seq[j].attrs } }
    \* an attribute the evolution does not mention is stated with a value that is NOT the field type's
    \* default (db_index=False on a relation, db_index=True / unique=True elsewhere): the evolved
    \* signature then differs from the models in exactly that attribute
    \cup { [kind |-> "state-non-default",
            muts |-> ReplaceAt(seq, p[1], [seq[p[1]] EXCEPT !.attrs = Put(@, p[2], ~AttrDefault(seq[p[1]].ftype, p[2]))])]
             : p \in { q \in (1..Len(seq)) \X {"db_index", "unique"} :
                          /\ seq[q[1]].k = "Add" /\ seq[q[1]].ftype # "M2M"
                          /\ q[2] \notin DOMAIN seq[q[1]].attrs
                          /\ ~(q[2] = "unique" /\ seq[q[1]].ftype = "O2O") } }
    \cup { [kind |-> "flip-null",
            muts |-> ReplaceAt(seq, i, [seq[i] EXCEPT !.attrs = [@ EXCEPT !["null"] = ~@]])]
             : i \in { j \in 1..Len(seq) : seq[j].k \in {"Add", "Chg"} /\ "null" \in DOMAIN seq[j].attrs } }

PInit == Init /\ pert = <<>> /\ kind = ""

PNext == \/ (kind = "" /\ Next /\ UNCHANGED <<pert, kind>>)
         \/ (kind = "" /\ seq # <<>> /\ \E p \in Perturbations :
                pert' = p.muts /\ kind' = p.kind /\ UNCHANGED vars)

PSpec == PInit /\ [][PNext]_pvars

(* get_app_pending_mutations: only mutations of models whose stored signature
   differs from the current models (or that disappeared) are kept, RenameModel
   and non-model mutations always *)
(* the signature Django Evolution computes from the deployed models never
   stores an attribute whose value is the default (FieldSignature.from_field) *)
Canon(sig) ==
    [mn \in DOMAIN sig |->
        [sig[mn] EXCEPT !.fields =
            [fn \in DOMAIN sig[mn].fields |->
                [sig[mn].fields[fn] EXCEPT !.attrs =
                    LET at == sig[mn].fields[fn].attrs
                        keep == { a \in DOMAIN at :
                                    at[a] # AttrDefault(sig[mn].fields[fn].ftype, a) }
                    IN [a \in keep |-> at[a]]]]]]
Target == Canon(cur)

ChangedModels ==
    { mn \in DOMAIN cur : mn \in DOMAIN Sig0 /\ ~ModelEq(Sig0[mn], Target[mn]) }
    \cup { mn \in DOMAIN Sig0 : mn \notin DOMAIN cur }
(* as repaired (d90e9c3): the new name of a renamed changed model counts as changed *)
RenamedChanged(ms) == { ms[i].nm : i \in { j \in 1..Len(ms) : ms[j].k = "RenM" /\ ms[j].om \in ChangedModels } }
(* as repaired (51d8f08): a RenameModel is kept only if it renames a model the stored
   signature knows, possibly under the name an earlier kept rename gave it *)
RECURSIVE PendingFrom(_, _, _)
PendingFrom(ms, known, all) ==
    IF ms = <<>> THEN <<>>
    ELSE LET mu == Head(ms) IN
         IF mu.k = "RenM"
         THEN IF mu.om \in known
              THEN <<mu>> \o PendingFrom(Tail(ms), (known \ {mu.om}) \cup {mu.nm}, all)
              ELSE PendingFrom(Tail(ms), known, all)
         ELSE (IF ~IsModelMutation(mu) \/ mu.m \in ChangedModels \cup RenamedChanged(all)
               THEN <<mu>> ELSE <<>>) \o PendingFrom(Tail(ms), known, all)
Pending(ms) == PendingFrom(ms, DOMAIN Sig0, ms)

(* WHY the perturbed evolution cannot be simulated, taking its mutations one at a time: the
   property lists the reasons for which an evolution must be rejected before any SQL runs *)
FailReason(mu, sig) ==
    LET mname == IF mu.k = "RenM" THEN mu.om ELSE mu.m IN
    IF IsModelMutation(mu) /\ mname \notin DOMAIN sig THEN "missing-model"
    ELSE IF mu.k \in {"Chg", "Del"} /\ mu.f \notin DOMAIN sig[mu.m].fields THEN "missing-field"
    ELSE IF mu.k = "RenF" /\ mu.of \notin DOMAIN sig[mu.m].fields THEN "missing-field"
    ELSE IF mu.k = "Add" /\ mu.f \in DOMAIN sig[mu.m].fields THEN "add-existing"
    ELSE IF mu.k \in {"Add", "Chg"} THEN "non-null-without-initial"
    ELSE "other"
RECURSIVE FirstFail(_, _)
FirstFail(ms, sig) == IF ms = <<>> THEN "none"
                      ELSE LET r == Sim(Head(ms), sig)
                           IN IF ~r.ok THEN FailReason(Head(ms), sig) ELSE FirstFail(Tail(ms), r.sig)

(* what the real pipeline does with the perturbed evolution *)
PRun == TwoPass(Pending(pert), Sig0)
Prediction == IF ~PRun.ok \/ MetaNamesMissing(Pending(pert), Sig0) THEN "sim-fails"
              ELSE IF DiffEmpty(PRun.sig, cur) THEN "reaches" ELSE "residual"
(* the unperturbed evolution, as a control *)
CRun == TwoPass(Pending(seq), Sig0)
Control == IF ~CRun.ok THEN "sim-fails"
           ELSE IF DiffEmpty(CRun.sig, cur) THEN "reaches" ELSE "residual"

MayExecute == Prediction = "reaches"
(* design invariant: only an evolution that reaches the models may execute;
   trivially true of the model's own decision, it is what the replay checks
   on the real command *)
ExecuteOnlyIfReaches == (kind # "" /\ MayExecute) => DiffEmpty(PRun.sig, cur)

PEmit == (EmitRecords /\ kind # "") =>
           PrintT(<<"REC", ToJson([seq |-> seq, start |-> StartId, final |-> cur,
                                    pert |-> pert, kind |-> kind,
                                    prediction |-> Prediction, control |-> Control,
                                    reason |-> FirstFail(Pending(pert), Sig0),
                                    \* mutations left after the changed-models filter: with
                                    \* none left the task has nothing to simulate at all
                                    npending |-> Len(Pending(pert))])>>)
PConstraint == PEmit
=============================================================================
