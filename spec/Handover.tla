------------------------------ MODULE Handover ------------------------------
(***************************************************************************)
(* Handing an app over from evolutions to Django migrations (property C10). *)
(*                                                                         *)
(* The app `shop` has K evolutions adding columns c1..cK, then - if the     *)
(* handover marks more than the initial migration as covered - one          *)
(* evolution `em` adding the columns of the covered migrations, then        *)
(* `e_move` = MoveToDjangoMigrations(mark_applied = first S migrations).    *)
(* Its migration chain is 0001_initial (the table with name, c1..cK),       *)
(* 0002 (adds m1), ... up to M migrations.                                  *)
(*                                                                         *)
(* Init picks K, S, the start state of the database (fresh / after j        *)
(* evolutions / already handed over when the chain had fewer migrations)    *)
(* and the companion apps.  The upgrade is a small step machine; a second   *)
(* upgrade must be a no-op.                                                 *)
(***************************************************************************)
EXTENDS Naturals, Sequences, FiniteSets, TLC, Json

CONSTANTS MaxK, M, EmitRecords

VARIABLES K, S, start, companions,
          newModel,      \* the version that hands the app over also brings a NEW model (Tag), whose CreateModel
                         \* is part of 0001_initial - a migration the handover marks as covered: its table
                         \* has to be created by the evolution stage, as for any new model
          tagTable,      \* the table of that model exists
          moveSql,       \* the evolution that carries MoveToDjangoMigrations also adds a column (x): it has SQL
          declares,      \* ... and declares AFTER_MIGRATIONS = [('mig', '0002_m1')], the companion's pending
                         \* migration, next to the dependencies the move itself generates
          premarked,     \* django_migrations already lists the migrations about to be marked (say, an
                         \* earlier `migrate --fake` with Django Evolution disabled)
          failFirst,     \* a first attempt of the upgrade fails at its first evolution statement
          attempted,
          evoRecorded,   \* evolution labels recorded as applied
          evoExecuted,   \* evolution labels whose SQL ran (in order), per run
          migRecorded,   \* migration number -> how many rows in django_migrations
          migExecuted,   \* migrations run (in order), per run
          soft,          \* migrations announced and recorded without being run, per run: the initial
                         \* migration of an app whose table is already there (a table from before the
                         \* app had migrations; Django's fake_initial detection)
          columns,       \* columns of shop_item
          sigMethod, sigApplied,
          pc, run

vars == <<K, S, start, companions, newModel, tagTable, moveSql, declares, premarked, failFirst, attempted, evoRecorded, evoExecuted, migRecorded, migExecuted,
          soft, columns, sigMethod, sigApplied, pc, run>>

(* evolution labels before the move, in sequence order *)
PreMove == [i \in 1..(K + (IF S > 1 THEN 1 ELSE 0)) |->
              IF i <= K THEN <<"e", i>> ELSE <<"em", 0>>]
AllEvos == PreMove \o << <<"e_move", 0>> >>
P == Len(PreMove)
ColsOfEvo(l) == IF l[1] = "e_move" THEN (IF moveSql THEN { <<"x", 0>> } ELSE {})
                ELSE IF l[1] = "e" THEN { <<"c", l[2]>> }
                ELSE IF l[1] = "em" THEN { <<"m", i>> : i \in 1..(S - 1) } ELSE {}
RECURSIVE ColsOfEvos(_)
ColsOfEvos(seq) == IF seq = <<>> THEN {} ELSE ColsOfEvo(Head(seq)) \cup ColsOfEvos(Tail(seq))
(* migration n (1-based): 1 creates the table with name and c1..cK, n > 1 adds m(n-1) *)
ColsOfMig(n) == IF n = 1 THEN { <<"name", 0>> } \cup { <<"c", i>> : i \in 1..K }
                               \cup (IF moveSql THEN { <<"x", 0>> } ELSE {})
                ELSE { <<"m", n - 1>> }
RECURSIVE ColsOfMigs(_)
ColsOfMigs(ns) == IF ns = {} THEN {} ELSE LET n == CHOOSE x \in ns : TRUE IN ColsOfMig(n) \cup ColsOfMigs(ns \ {n})
Prefix(seq, n) == SubSeq(seq, 1, n)
SeqSet(seq) == { seq[i] : i \in 1..Len(seq) }
Zero == [n \in 1..M |-> 0]

(* legacy: shop_item exists as 0001_initial would create it - made by hand or by syncdb long
   ago - and neither Django nor Django Evolution has recorded anything about the app *)
Starts == {<<"fresh", 0>>, <<"legacy", 0>>} \cup { <<"evo", j>> : j \in 0..P } \cup { <<"onmig", m0>> : m0 \in (IF S = 0 THEN 1 ELSE S)..(M - 1) }

(* S = 0: MoveToDjangoMigrations(mark_applied=[]) - no migration is covered by the evolutions; even the
   initial one is left to the executor, which finds the table in place and takes it over (soft) *)
Init == /\ K \in 0..MaxK /\ S \in 0..M
        /\ start \in Starts
        /\ companions \in SUBSET {"blog", "mig"}
        /\ newModel \in (IF start[1] = "evo" /\ S >= 1 THEN BOOLEAN ELSE {FALSE})
        /\ tagTable = FALSE
        /\ moveSql \in BOOLEAN
        /\ declares \in (IF moveSql /\ "mig" \in companions /\ start[1] = "evo" THEN BOOLEAN ELSE {FALSE})
        \* only when an evolution with SQL is pending is there a statement to fail at
        /\ failFirst \in (IF start[1] = "evo" /\ start[2] < P THEN BOOLEAN ELSE {FALSE})
        /\ attempted = FALSE
        /\ premarked \in (IF start[1] = "evo" THEN BOOLEAN ELSE {FALSE})
        /\ run = 1 /\ pc = "begin"
        /\ evoExecuted = <<>> /\ migExecuted = <<>> /\ soft = <<>>
        /\ CASE start[1] = "legacy" ->
                  /\ evoRecorded = {} /\ migRecorded = Zero /\ columns = ColsOfMig(1)
                  /\ sigMethod = "none" /\ sigApplied = {}
             [] start[1] = "fresh" ->
                  /\ evoRecorded = {} /\ migRecorded = Zero /\ columns = {}
                  /\ sigMethod = "none" /\ sigApplied = {}
             [] start[1] = "evo" ->
                  /\ evoRecorded = SeqSet(Prefix(PreMove, start[2]))
                  /\ migRecorded = [n \in 1..M |-> IF premarked /\ n <= S THEN 1 ELSE 0]
                  /\ columns = { <<"name", 0>> } \cup ColsOfEvos(Prefix(PreMove, start[2]))
                  /\ sigMethod = "evolutions" /\ sigApplied = {}
             [] OTHER ->
                  /\ evoRecorded = SeqSet(AllEvos)
                  /\ migRecorded = [n \in 1..M |-> IF n <= start[2] THEN 1 ELSE 0]
                  /\ columns = ColsOfMigs(1..start[2])
                  /\ sigMethod = "migrations" /\ sigApplied = 1..start[2]

Recorded == { n \in 1..M : migRecorded[n] > 0 }
Step(next) == pc' = next /\ UNCHANGED <<K, S, start, companions, newModel, moveSql, declares, run, failFirst, attempted, premarked>>

(* a failed attempt: the first evolution statement fails, the transaction is rolled back, and
   (as repaired, the marks being recorded only after all batches) nothing at all has changed *)
FailedAttempt ==
    /\ pc = "begin" /\ failFirst /\ ~attempted /\ run = 1
    /\ attempted' = TRUE
    /\ UNCHANGED <<K, S, start, companions, newModel, tagTable, moveSql, declares, failFirst, premarked, run, pc, evoRecorded, evoExecuted, migRecorded,
                   migExecuted, soft, columns, sigMethod, sigApplied>>

(* a brand-new app that ends up on migrations is created by its migrations; the whole
   evolution sequence is recorded without running any of it *)
FreshInstall ==
    /\ pc = "begin" /\ sigMethod = "none"
    /\ evoRecorded' = SeqSet(AllEvos)
    /\ UNCHANGED <<tagTable, evoExecuted, migRecorded, migExecuted, soft, columns, sigMethod, sigApplied>>
    /\ Step("migrate")

(* pending evolutions first, the move among them *)
RunEvolutions ==
    /\ pc = "begin" /\ sigMethod = "evolutions" /\ (failFirst => attempted)
    /\ LET pending == SelectSeq(AllEvos, LAMBDA l : l \notin evoRecorded)
       IN /\ evoExecuted' = pending
          /\ evoRecorded' = evoRecorded \cup SeqSet(pending)
          /\ columns' = columns \cup ColsOfEvos(pending)
    \* a model that is new in this version gets its table here, whatever the migrations say about it
    /\ tagTable' = (tagTable \/ newModel)
    /\ UNCHANGED <<migRecorded, migExecuted, soft, sigMethod, sigApplied>>
    /\ Step("mark")

(* the migrations named as covered are recorded, once, without being run *)
MarkApplied ==
    /\ pc = "mark"
    /\ migRecorded' = [n \in 1..M |-> IF n <= S /\ migRecorded[n] = 0 THEN 1 ELSE migRecorded[n]]
    /\ UNCHANGED <<tagTable, evoRecorded, evoExecuted, migExecuted, soft, columns, sigMethod, sigApplied>>
    /\ Step("migrate")

AlreadyOnMigrations ==
    /\ pc = "begin" /\ sigMethod = "migrations"
    /\ UNCHANGED <<tagTable, evoRecorded, evoExecuted, migRecorded, migExecuted, soft, columns, sigMethod, sigApplied>>
    /\ Step("migrate")

(* every remaining migration, lowest first (the chain is linear) *)
RunMigration ==
    /\ pc = "migrate" /\ Recorded # 1..M
    /\ LET n == CHOOSE x \in (1..M) \ Recorded : \A y \in (1..M) \ Recorded : x <= y
           \* the initial migration of a table that is already there is announced and recorded,
           \* not run
           isSoft == n = 1 /\ columns # {}
       IN /\ migExecuted' = IF isSoft THEN migExecuted ELSE Append(migExecuted, n)
          /\ soft' = IF isSoft THEN Append(soft, n) ELSE soft
          /\ migRecorded' = [migRecorded EXCEPT ![n] = @ + 1]
          /\ columns' = columns \cup ColsOfMig(n)
    /\ UNCHANGED <<tagTable, evoRecorded, evoExecuted, sigMethod, sigApplied>>
    /\ Step("migrate")

SaveSignature ==
    /\ pc = "migrate" /\ Recorded = 1..M
    /\ sigMethod' = "migrations" /\ sigApplied' = Recorded
    /\ UNCHANGED <<tagTable, evoRecorded, evoExecuted, migRecorded, migExecuted, soft, columns>>
    /\ Step("done")

(* the second upgrade *)
Rerun == /\ pc = "done" /\ run = 1
         /\ run' = 2 /\ pc' = "begin" /\ evoExecuted' = <<>> /\ migExecuted' = <<>> /\ soft' = <<>>
         /\ UNCHANGED <<K, S, start, companions, newModel, tagTable, moveSql, declares, failFirst, attempted, premarked, evoRecorded, migRecorded, columns,
                        sigMethod, sigApplied>>

Next == FailedAttempt \/ FreshInstall \/ RunEvolutions \/ MarkApplied \/ AlreadyOnMigrations \/ RunMigration
        \/ SaveSignature \/ Rerun
Spec == Init /\ [][Next]_vars

---------------------------------------------------------------------------
(* C10 *)
Done == pc = "done"
RecordedExactlyOnce == Done => \A n \in 1..M : migRecorded[n] = 1
MarkedNotExecuted == (Done /\ run = 1 /\ start[1] = "evo") => \A i \in 1..Len(migExecuted) : migExecuted[i] > S
RemainingExecutedInOrder ==
    Done => /\ \A i \in 1..(Len(migExecuted) - 1) : migExecuted[i] < migExecuted[i + 1]
            /\ (run = 1 /\ start[1] = "evo") => SeqSet(migExecuted) \cup SeqSet(soft) = (S + 1)..M
PendingEvolutionsFirst == (Done /\ run = 1 /\ start[1] = "evo") =>
                             evoExecuted = SubSeq(AllEvos, start[2] + 1, Len(AllEvos))
SignatureListsRecorded == Done => sigMethod = "migrations" /\ sigApplied = Recorded
SchemaComplete == Done => (columns = ColsOfMigs(1..M) /\ (newModel => tagTable))
NoEvolutionSqlOnceOnMigrations == (Done /\ (run = 2 \/ start[1] = "onmig")) => evoExecuted = <<>>
RerunIsNoop == (Done /\ run = 2) => evoExecuted = <<>> /\ migExecuted = <<>> /\ soft = <<>>
(* only a table nobody has on record is taken over that way, and only its initial migration *)
SoftOnlyLegacyInitial == soft # <<>> => (soft = <<1>> /\ run = 1
                                         /\ (start[1] = "legacy" \/ (start[1] = "evo" /\ S = 0)))

(* the companion apps: `blog` (evolutions only, one pending evolution b1) and `mig`
   (migrations only, 0001_initial applied, 0002 pending); on a fresh database blog's
   evolution is recorded without being run and mig is created by both its migrations.
   Handing shop over must not change what happens to them. *)
CompanionExpect ==
    [blogExecuted |-> IF "blog" \in companions /\ run = 1 /\ start[1] \notin {"fresh", "legacy"} THEN <<"b1">> ELSE <<>>,
     blogRecorded |-> IF "blog" \in companions THEN <<"b1">> ELSE <<>>,
     migExecuted  |-> IF "mig" \in companions /\ run = 1
                      THEN (IF start[1] \in {"fresh", "legacy"} THEN <<1, 2>> ELSE <<2>>) ELSE <<>>,
     migRecorded  |-> IF "mig" \in companions THEN <<1, 1>> ELSE <<>>,
     \* the declared dependency: the companion's migration 0002 runs before the SQL of the evolution that
     \* declares it (C09 on the handover)
     migBeforeMove |-> declares /\ run = 1 /\ <<"e_move", 0>> \in SeqSet(evoExecuted)]

RECURSIVE SetToSeq(_)
SetToSeq(X) == IF X = {} THEN <<>> ELSE LET x == CHOOSE y \in X : TRUE IN <<x>> \o SetToSeq(X \ {x})

Emit == (EmitRecords /\ Done) =>
          PrintT(<<"REC", ToJson([K |-> K, S |-> S, start |-> start, companions |-> SetToSeq(companions),
                                   moveSql |-> moveSql, declares |-> declares, newModel |-> newModel,
                                   failFirst |-> failFirst, premarked |-> premarked,
                                   run |-> run, evoExecuted |-> evoExecuted, migExecuted |-> migExecuted, soft |-> soft,
                                   evoRecorded |-> SetToSeq(evoRecorded), migRecorded |-> migRecorded,
                                   columns |-> SetToSeq(columns), sigApplied |-> SetToSeq(sigApplied),
                                   companion |-> CompanionExpect])>>)
Constraint == Emit
=============================================================================
