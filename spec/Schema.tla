------------------------------- MODULE Schema -------------------------------
(***************************************************************************)
(* The abstract database and what each mutation should do to it (design    *)
(* module, properties C01, C02, C15).                                      *)
(*                                                                         *)
(*   Fresh(sig)       the schema Django creates for the models a signature *)
(*                    describes: tables, columns (name, type, null, pk,    *)
(*                    unique), single- and multi-column indexes, foreign-  *)
(*                    key targets, many-to-many tables                     *)
(*   DbApply(mu, db, sig)  the intended operational effect of one mutation *)
(*                    on the database (what the lowering must achieve)     *)
(*                                                                         *)
(* SchemaIsFresh says the operational effects compose to the declarative   *)
(* target: after any valid sequence, applying the effects one by one to    *)
(* Fresh(start) gives Fresh(final signature).  It is not vacuous: it ties  *)
(* DeleteField's pruning of unique_together, RenameField, RenameModel's    *)
(* retargeting and DeleteModel's many-to-many tables together.  The replay *)
(* compares the REAL database with Fresh(final) (binding) and with models  *)
(* created from scratch by Django (verdict).                               *)
(***************************************************************************)
EXTENDS Optimizer

(* column name of a field: db_column if stated; relations get the _id suffix *)
ColName(fn, fs) == IF Has(fs.attrs, "db_column") /\ fs.attrs["db_column"] # None
                   THEN fs.attrs["db_column"]
                   ELSE IF fs.ftype \in {"FK", "O2O"} THEN fn \o "_id" ELSE fn

ColType(fs) == CASE fs.ftype = "Char" -> <<"varchar", Get(fs.attrs, "max_length", 0)>>
                 [] fs.ftype \in {"Int", "Auto", "FK", "O2O"} -> <<"integer">>
                 [] OTHER -> <<fs.ftype>>

IsCol(fs) == fs.ftype # "M2M"
Bool(fs, a) == AttrValue(fs, a) = TRUE

Column(fn, fs) == [n |-> ColName(fn, fs), t |-> ColType(fs),
                   null |-> Bool(fs, "null"), pk |-> Bool(fs, "primary_key")]

(* indexes as <<sequence of column names, unique>> *)
FieldIndexes(fn, fs) ==
    IF ~IsCol(fs) \/ Bool(fs, "primary_key") THEN {}
    ELSE IF Bool(fs, "unique") \/ fs.ftype = "O2O" THEN { <<<<ColName(fn, fs)>>, TRUE>> }
    ELSE IF Bool(fs, "db_index") THEN { <<<<ColName(fn, fs)>>, FALSE>> }
    ELSE {}

ColsOf(ms, names) == [i \in 1..Len(names) |->
                        IF names[i] \in DOMAIN ms.fields
                        THEN ColName(names[i], ms.fields[names[i]]) ELSE "?" \o names[i]]

(* the column a relation to model `ms` points at: its primary key's column *)
PkCol(ms) == LET pks == { f \in DOMAIN ms.fields : Bool(ms.fields[f], "primary_key") }
             IN IF pks = {} THEN "?" ELSE LET pf == CHOOSE f \in pks : TRUE IN ColName(pf, ms.fields[pf])

FreshTable(sig, mn) ==
    LET ms == sig[mn] IN
    [cols |-> { Column(fn, ms.fields[fn]) : fn \in { f \in DOMAIN ms.fields : IsCol(ms.fields[f]) } },
     idx  |-> UNION { FieldIndexes(fn, ms.fields[fn]) : fn \in DOMAIN ms.fields }
              \cup { <<ColsOf(ms, ms.ut[i]), TRUE>> : i \in 1..Len(ms.ut) }
              \cup { <<ColsOf(ms, ms.idx[i].fields), FALSE>> : i \in 1..Len(ms.idx) }
              \cup { <<ColsOf(ms, It(ms)[i]), FALSE>> : i \in 1..Len(It(ms)) }
              \* unique constraints are unique indexes; check constraints are kept in `chk`
              \cup { <<ColsOf(ms, ms.cons[i].fields), TRUE>> : i \in { j \in 1..Len(ms.cons) : ms.cons[j].kind = "unique" } },
     chk  |-> { ms.cons[i].name : i \in { j \in 1..Len(ms.cons) : ms.cons[j].kind = "check" } },
     \* <<column, referenced table, referenced column>>
     fks  |-> { <<ColName(fn, ms.fields[fn]),
                  IF ms.fields[fn].rel \in DOMAIN sig THEN sig[ms.fields[fn].rel].table
                  ELSE "?" \o ms.fields[fn].rel,
                  IF ms.fields[fn].rel \in DOMAIN sig THEN PkCol(sig[ms.fields[fn].rel]) ELSE "?">>
                : fn \in { f \in DOMAIN ms.fields : ms.fields[f].ftype \in {"FK", "O2O"} } }]

M2MTables(sig) ==
    { sig[mn].table \o "_" \o fn : mn \in DOMAIN sig,
      fn \in UNION { { f \in DOMAIN sig[m].fields : sig[m].fields[f].ftype = "M2M" } : m \in DOMAIN sig } }

Fresh(sig) == [t \in { sig[mn].table : mn \in DOMAIN sig } |->
                 FreshTable(sig, CHOOSE mn \in DOMAIN sig : sig[mn].table = t)]

---------------------------------------------------------------------------
(* intended operational effects *)

RenameColIn(ix, old, new) == <<[i \in 1..Len(ix[1]) |-> IF ix[1][i] = old THEN new ELSE ix[1][i]], ix[2]>>
Mentions(ix, c) == \E i \in 1..Len(ix[1]) : ix[1][i] = c

DbApply(mu, db, sig) ==
  CASE mu.k = "Add" ->
        LET t == sig[mu.m].table
            fs == NewField(mu.ftype, mu.attrs, mu.init)
        IN IF ~IsCol(fs) THEN db
           ELSE [db EXCEPT ![t].cols = @ \cup { Column(mu.f, fs) },
                           ![t].idx  = @ \cup FieldIndexes(mu.f, fs),
                           ![t].fks  = IF fs.ftype \in {"FK", "O2O"}
                                       THEN @ \cup { <<ColName(mu.f, fs), sig[fs.rel].table, PkCol(sig[fs.rel])>> }
                                       ELSE @]
    [] mu.k = "Del" ->
        LET t == sig[mu.m].table
            fs == sig[mu.m].fields[mu.f]
            c == ColName(mu.f, fs)
        IN IF ~IsCol(fs) THEN db
           ELSE [db EXCEPT ![t].cols = { x \in @ : x.n # c },
                           \* every index that mentions the column goes with it; a
                           \* unique_together entry shrinks to its remaining columns
                           ![t].idx  = { x \in @ : ~Mentions(x, c) }
                                       \cup { <<ColsOf(sig[mu.m], PruneTuple(sig[mu.m].ut[i], mu.f)), TRUE>>
                                              : i \in { j \in 1..Len(sig[mu.m].ut) :
                                                          InSeq(mu.f, sig[mu.m].ut[j])
                                                          /\ PruneTuple(sig[mu.m].ut[j], mu.f) # <<>> } },
                           ![t].fks  = { x \in @ : x[1] # c }]
    [] mu.k = "Chg" ->
        LET t == sig[mu.m].table
            old == sig[mu.m].fields[mu.f]
            new == Sim(mu, sig).sig[mu.m].fields[mu.f]
            c == ColName(mu.f, old)
        IN [db EXCEPT ![t].cols = { x \in @ : x.n # c } \cup { Column(mu.f, new) },
                      ![t].idx  = (@ \ FieldIndexes(mu.f, old)) \cup FieldIndexes(mu.f, new)]
    [] mu.k = "RenF" ->
        LET t == sig[mu.m].table
            old == sig[mu.m].fields[mu.of]
            new == Sim(mu, sig).sig[mu.m].fields[mu.nf]
            c1 == ColName(mu.of, old)
            c2 == ColName(mu.nf, new)
            db1 == [db EXCEPT ![t].cols = { IF x.n = c1 THEN [x EXCEPT !.n = c2] ELSE x : x \in @ },
                              ![t].idx  = { RenameColIn(x, c1, c2) : x \in @ },
                              ![t].fks  = { IF x[1] = c1 THEN <<c2, x[2], x[3]>> ELSE x : x \in @ }]
        IN IF ~IsCol(old) THEN db
           \* a renamed primary key: every foreign key that points at it follows
           ELSE IF Bool(old, "primary_key")
           THEN [u \in DOMAIN db1 |->
                   [db1[u] EXCEPT !.fks = { IF x[2] = t /\ x[3] = c1 THEN <<x[1], x[2], c2>> ELSE x : x \in @ }]]
           ELSE db1
    [] mu.k = "Meta" ->
        LET t == sig[mu.m].table IN
        IF mu.prop = "unique_together"
        THEN [db EXCEPT ![t].idx =
                (@ \ { <<ColsOf(sig[mu.m], sig[mu.m].ut[i]), TRUE>> : i \in 1..Len(sig[mu.m].ut) })
                \cup { <<ColsOf(sig[mu.m], mu.val[i]), TRUE>> : i \in 1..Len(mu.val) }]
        ELSE IF mu.prop = "constraints"
        THEN LET uq(cs) == { <<ColsOf(sig[mu.m], cs[i].fields), TRUE>> : i \in { j \in 1..Len(cs) : cs[j].kind = "unique" } }
                 ck(cs) == { cs[i].name : i \in { j \in 1..Len(cs) : cs[j].kind = "check" } }
             IN [db EXCEPT ![t].idx = (@ \ uq(sig[mu.m].cons)) \cup uq(mu.ival),
                           ![t].chk = ck(mu.ival)]
        ELSE IF mu.prop = "indexes"
        THEN [db EXCEPT ![t].idx =
                (@ \ { <<ColsOf(sig[mu.m], sig[mu.m].idx[i].fields), FALSE>> : i \in 1..Len(sig[mu.m].idx) })
                \cup { <<ColsOf(sig[mu.m], mu.ival[i].fields), FALSE>> : i \in 1..Len(mu.ival) }]
        ELSE IF mu.prop = "index_together"
        THEN [db EXCEPT ![t].idx =
                (@ \ { <<ColsOf(sig[mu.m], It(sig[mu.m])[i]), FALSE>> : i \in 1..Len(It(sig[mu.m])) })
                \cup { <<ColsOf(sig[mu.m], mu.val[i]), FALSE>> : i \in 1..Len(mu.val) }]
        ELSE db
    [] mu.k = "RenM" ->
        LET t1 == sig[mu.om].table
            t2 == mu.dbtable
            moved == [t \in ((DOMAIN db) \ {t1}) \cup {t2} |-> IF t = t2 THEN db[t1] ELSE db[t]]
        IN [t \in DOMAIN moved |->
              [moved[t] EXCEPT !.fks = { IF x[2] = t1 THEN <<x[1], t2, x[3]>> ELSE x : x \in @ }]]
    [] mu.k = "DelM" -> [t \in (DOMAIN db) \ {sig[mu.m].table} |-> db[t]]
    [] OTHER -> db

RECURSIVE DbApplySeq(_, _, _)
DbApplySeq(ms, db, sig) ==
    IF ms = <<>> THEN db
    ELSE DbApplySeq(Tail(ms), DbApply(Head(ms), db, sig), Sim(Head(ms), sig).sig)

Evolved == DbApplySeq(seq, Fresh(Sig0), Sig0)

(* C01 at design level *)
SchemaIsFresh == Evolved = Fresh(cur)
(* C01 last sentence / C15: tables of models the sequence neither names nor
   relates to are exactly as they were *)
Touched == { seq[i].m : i \in 1..Len(seq) } \cup { seq[i].nm : i \in { j \in 1..Len(seq) : seq[j].k = "RenM" } }
UntouchedTablesEqual ==
    \A mn \in (DOMAIN Sig0) \ Touched :
        (mn \in DOMAIN cur /\ \A x \in Touched : \A fn \in DOMAIN Sig0[mn].fields : Sig0[mn].fields[fn].rel # x)
            => Evolved[Sig0[mn].table] = Fresh(Sig0)[Sig0[mn].table]
(* the evolved signature can be rendered as Django models at all *)
Realisable ==
    \A mn \in DOMAIN cur :
        /\ \A i \in 1..Len(cur[mn].ut) : SeqSet(cur[mn].ut[i]) \subseteq DOMAIN cur[mn].fields
        /\ \A i \in 1..Len(It(cur[mn])) : SeqSet(It(cur[mn])[i]) \subseteq DOMAIN cur[mn].fields
        /\ \A fn \in DOMAIN cur[mn].fields :
              cur[mn].fields[fn].rel = None \/ cur[mn].fields[fn].rel \in DOMAIN cur

SViolations == { c \in {"SchemaIsFresh", "UntouchedTablesEqual", "Realisable"} :
                   CASE c = "SchemaIsFresh" -> ~SchemaIsFresh
                     [] c = "UntouchedTablesEqual" -> ~UntouchedTablesEqual
                     [] OTHER -> ~Realisable }

RECURSIVE SetToSeq(_)
SetToSeq(S) == IF S = {} THEN <<>> ELSE LET x == CHOOSE y \in S : TRUE IN <<x>> \o SetToSeq(S \ {x})
DbJson(db) == [t \in DOMAIN db |-> [cols |-> SetToSeq(db[t].cols), idx |-> SetToSeq(db[t].idx),
                                    chk |-> SetToSeq(db[t].chk),
                                    fks |-> SetToSeq(db[t].fks)]]

SEmit == EmitRecords =>
           PrintT(<<"REC", ToJson([seq |-> seq, start |-> StartId, final |-> cur,
                                    fresh |-> DbJson(Fresh(cur)),
                                    optOk |-> One.ok, twoOk |-> Two.ok,
                                    hazards |-> Hazards, oviol |-> Violations,
                                    sviol |-> SViolations, deleted |-> deleted])>>)
SConstraint == SEmit
=============================================================================
