----------------------------- MODULE Optimizer -----------------------------
(***************************************************************************)
(* The mutation optimiser, the per-model batching and the SQLite rebuild   *)
(* plan -- a transcription of                                              *)
(*   mutators/app_mutator.py : AppMutator._preprocess_mutations,           *)
(*                             _create_mutation_batches,                   *)
(*                             _process_mutation_batch (both passes),      *)
(*                             run_mutation (ModelMutator grouping)        *)
(*   db/common.py            : generate_table_ops_sql / _are_ops_mergeable *)
(*   db/sqlite3.py           : which alter-table items force a rebuild     *)
(* next to the reference semantics "apply the mutations one at a time"     *)
(* (Sig!SimSeq).  Properties C03 and C18.                                  *)
(*                                                                         *)
(* The mutation OBJECTS are modelled as an object store `objs` (index =    *)
(* object identity) because the code rewrites them in place and keeps      *)
(* `removed_mutations` by identity; lists of mutations are sequences of    *)
(* indices into the store.                                                 *)
(*                                                                         *)
(* State machine: `seq` grows by one mutation per step; a step is enabled  *)
(* iff the extended sequence is valid one mutation at a time.              *)
(***************************************************************************)
EXTENDS Sig, Json

CONSTANTS MaxLen,        \* bound on the sequence length
          StartId,       \* which start signature of the catalogue
          AlphaId,       \* which mutation alphabet
          Mergeable,     \* the op types the backend merges (bound to the code's tuple)
          EmitRecords    \* print one prediction record per explored sequence

VARIABLES seq,           \* the mutations so far (the evolution definitions)
          cur,           \* signature after applying them one at a time
          deleted        \* models explicitly deleted so far

vars == <<seq, cur, deleted>>

---------------------------------------------------------------------------
(* Mutation records *)

Blank == [k |-> "", m |-> None, f |-> None, of |-> None, nf |-> None,
          om |-> None, nm |-> None, ftype |-> None, attrs |-> EmptyDict,
          init |-> None, prop |-> None, val |-> <<>>, ival |-> <<>>,
          dbcol |-> None, dbtable |-> None]

MAdd(m, f, t, attrs, init) == [Blank EXCEPT !.k = "Add", !.m = m, !.f = f,
                                 !.ftype = t, !.attrs = attrs, !.init = init]
MChg(m, f, t, attrs, init) == [Blank EXCEPT !.k = "Chg", !.m = m, !.f = f,
                                 !.ftype = t, !.attrs = attrs, !.init = init]
MDel(m, f)       == [Blank EXCEPT !.k = "Del", !.m = m, !.f = f]
MRenF(m, f, g)   == [Blank EXCEPT !.k = "RenF", !.m = m, !.f = f, !.of = f, !.nf = g]
(* a rename that keeps the column: RenameField(..., db_column=<the column the field has>); "@f" stands for
   "the default column of field f" *)
MRenFK(m, f, g)  == [Blank EXCEPT !.k = "RenF", !.m = m, !.f = f, !.of = f, !.nf = g, !.dbcol = "@" \o f]
MMetaUT(m, v)    == [Blank EXCEPT !.k = "Meta", !.m = m, !.prop = "unique_together", !.val = v]
MMetaIT(m, v)    == [Blank EXCEPT !.k = "Meta", !.m = m, !.prop = "index_together", !.val = v]
MMetaIdx(m, v)   == [Blank EXCEPT !.k = "Meta", !.m = m, !.prop = "indexes", !.ival = v]
MMetaCons(m, v)  == [Blank EXCEPT !.k = "Meta", !.m = m, !.prop = "constraints", !.ival = v]
TableOf(m)       == "t_" \o m
MRenM(a, b)      == [Blank EXCEPT !.k = "RenM", !.m = a, !.om = a, !.nm = b, !.dbtable = TableOf(b)]
MDelM(m)         == [Blank EXCEPT !.k = "DelM", !.m = m]
MSQL             == [Blank EXCEPT !.k = "SQL"]

IsModelMutation(mu) == mu.k # "SQL"      \* isinstance(mutation, BaseModelMutation)

---------------------------------------------------------------------------
(* Start signatures and alphabets *)

OrigData(attrs) == IF Get(attrs, "null", FALSE) = TRUE THEN "orig-n" ELSE "orig-nn"
Field(t, attrs) == [ftype |-> t, attrs |-> attrs, rel |-> None, data |-> OrigData(attrs)]
FKField(target, attrs) == [ftype |-> "FK", attrs |-> attrs, rel |-> target, data |-> OrigData(attrs)]
(* a OneToOneField is a relation column that is unique by itself: its signature says unique = TRUE *)
O2OField(target, attrs) == [ftype |-> "O2O", attrs |-> attrs @@ D1("unique", TRUE), rel |-> target,
                            data |-> OrigData(attrs)]
IdField == Field("Auto", D1("primary_key", TRUE))
M2MField(target) == [ftype |-> "M2M", attrs |-> EmptyDict, rel |-> target, data |-> "orig-nn"]
IxFG   == [fields |-> <<"f", "g">>, name |-> "ix_fg", cond |-> None]
IxCond == [fields |-> <<"f">>, name |-> "ix_cond", cond |-> "g"]      \* condition=Q(g__gt=0)
IxH    == [fields |-> <<"h">>, name |-> "ix_h", cond |-> None]
(* Meta.constraints: kind "check" = CheckConstraint(check=Q(<cond>__gte=0)),
   kind "unique" = UniqueConstraint(fields=..., condition=Q(<cond>__gt=0) if cond) *)
CkG    == [kind |-> "check", fields |-> <<>>, name |-> "ck_g", cond |-> "g"]
UqFG   == [kind |-> "unique", fields |-> <<"f", "g">>, name |-> "uq_fg", cond |-> None]
UqCond == [kind |-> "unique", fields |-> <<"f">>, name |-> "uq_cond", cond |-> "g"]
(* the same NAMES with other definitions: a check on another column, the unique columns the
   other way round *)
CkH    == [kind |-> "check", fields |-> <<>>, name |-> "ck_g", cond |-> "h"]
UqGF   == [kind |-> "unique", fields |-> <<"g", "f">>, name |-> "uq_fg", cond |-> None]
Model(name, fields, ut) == [table |-> TableOf(name), fields |-> fields,
                            ut |-> ut, uta |-> TRUE, idx |-> <<>>, cons |-> <<>>]

Start(id) ==
  CASE id = 1 ->          \* two plain models
        [A |-> Model("A", [id |-> IdField,
                           f |-> Field("Char", D1("max_length", 10)),
                           g |-> Field("Int", D1("null", TRUE))], <<>>),
         B |-> Model("B", [id |-> IdField,
                           f |-> Field("Int", EmptyDict)], <<>>)]
    [] id = 2 ->          \* unique_together present, B references A
        [A |-> Model("A", [id |-> IdField,
                           f |-> Field("Char", D1("max_length", 10)),
                           g |-> Field("Int", EmptyDict)], << <<"f", "g">> >>),
         B |-> Model("B", [id |-> IdField,
                           f |-> FKField("A", EmptyDict)], <<>>)]
    [] id = 4 ->          \* one model with a unique column and an indexed column
        [A |-> Model("A", [id |-> IdField,
                           f |-> Field("Char", D2("max_length", 10, "unique", TRUE)),
                           g |-> Field("Int", D2("null", TRUE, "db_index", TRUE))], <<>>)]
    [] id = 5 ->          \* A references B: the referenced model sorts AFTER its referrer
        [A |-> Model("A", [id |-> IdField,
                           f |-> FKField("B", EmptyDict),
                           g |-> Field("Int", D1("null", TRUE))], <<>>),
         B |-> Model("B", [id |-> IdField,
                           f |-> Field("Char", D1("max_length", 10)),
                           g |-> Field("Int", EmptyDict)], <<>>)]
    [] id = 10 ->         \* A has a one-to-one relation to B (nullable) next to a plain column
        [A |-> Model("A", [id |-> IdField,
                           f |-> O2OField("B", D1("null", TRUE)),
                           g |-> Field("Int", D1("null", TRUE))], <<>>),
         B |-> Model("B", [id |-> IdField,
                           f |-> Field("Char", D1("max_length", 10)),
                           g |-> Field("Int", EmptyDict)], <<>>)]
    [] id = 6 ->          \* table-level unique over a relation column and a db_column column
        [A |-> Model("A", [id |-> IdField,
                           f |-> FKField("B", EmptyDict),
                           g |-> Field("Int", D1("db_column", "gcol"))], << <<"f", "g">> >>),
         B |-> Model("B", [id |-> IdField,
                           f |-> Field("Char", D1("max_length", 10))], <<>>)]
    [] id = 9 ->          \* Meta.constraints: a check, a unique and a conditional unique constraint
        [A |-> [Model("A", [id |-> IdField,
                            f |-> Field("Char", D1("max_length", 10)),
                            g |-> Field("Int", EmptyDict)], <<>>)
                  EXCEPT !.cons = <<CkG, UqFG, UqCond>>],
         B |-> Model("B", [id |-> IdField,
                           f |-> Field("Int", EmptyDict)], <<>>)]
    [] id = 11 ->         \* Meta.constraints as in 9, with a second integer column to check instead
        [A |-> [Model("A", [id |-> IdField,
                            f |-> Field("Char", D1("max_length", 10)),
                            g |-> Field("Int", EmptyDict),
                            h |-> Field("Int", D1("null", TRUE))], <<>>)
                  EXCEPT !.cons = <<CkG, UqFG, UqCond>>]]
    [] id = 12 ->         \* Meta.index_together: a two-column entry and a one-column entry
        [A |-> WithIt(Model("A", [id |-> IdField,
                                  f |-> Field("Char", D1("max_length", 10)),
                                  g |-> Field("Int", D1("null", TRUE))], <<>>),
                      << <<"f", "g">>, <<"g">> >>),
         B |-> Model("B", [id |-> IdField,
                           f |-> Field("Int", EmptyDict)], <<>>)]
    [] id = 8 ->          \* A declares a many-to-many relation to B
        [A |-> Model("A", [id |-> IdField,
                           f |-> Field("Char", D1("max_length", 10)),
                           g |-> M2MField("B")], <<>>),
         B |-> Model("B", [id |-> IdField,
                           f |-> Field("Int", EmptyDict)], <<>>)]
    [] id = 7 ->          \* Meta.indexes: a two-column index and a conditional (partial) index
        [A |-> [Model("A", [id |-> IdField,
                            f |-> Field("Char", D1("max_length", 10)),
                            g |-> Field("Int", EmptyDict)], <<>>)
                  EXCEPT !.idx = <<IxFG, IxCond>>],
         B |-> Model("B", [id |-> IdField,
                           f |-> Field("Int", EmptyDict)], <<>>)]
    [] OTHER ->           \* one model only
        [A |-> Model("A", [id |-> IdField,
                           f |-> Field("Char", D1("max_length", 10)),
                           g |-> Field("Int", D1("null", TRUE))], <<>>)]

Sig0 == Start(StartId)

ModelNames == {"A", "B", "C"}
FieldNames == {"f", "g", "h"}
NameRank(n) == CASE n = "A" -> 1 [] n = "B" -> 2 [] n = "C" -> 3 [] OTHER -> 9

FieldMutations(m, x) ==
    { MAdd(m, x, "Int", D1("null", TRUE), None),
      MAdd(m, x, "Char", D1("max_length", 10), "i"),
      MChg(m, x, None, D1("null", TRUE), None),
      MChg(m, x, None, D1("null", FALSE), "i"),
      MChg(m, x, None, D1("max_length", 20), None),
      MChg(m, x, None, D1("db_index", TRUE), None),
      MDel(m, x) }
    \cup { MRenF(m, x, y) : y \in FieldNames \ {x} }

TypeMutations(m, x) ==
    { MChg(m, x, "Text", EmptyDict, None),
      MChg(m, x, "Text", D1("null", FALSE), "i"),     \* re-type and make non-null, with an initial value
      MChg(m, x, "Char", D1("max_length", 20), None) }

ModelMutations(m) ==
    { MMetaUT(m, << <<"f", "g">> >>), MMetaUT(m, <<>>),
      MMetaUT(m, << <<"f", "h">> >>),
      MDelM(m) }
    \cup { MRenM(m, n) : n \in ModelNames \ {m} }

Alphabet ==
  CASE AlphaId = 1 ->      \* everything, over all three model names
        UNION { UNION { FieldMutations(m, x) : x \in FieldNames } : m \in ModelNames }
        \cup UNION { ModelMutations(m) : m \in ModelNames }
        \cup { MSQL }
    [] AlphaId = 2 ->      \* field-level focus on model A, with type changes
        UNION { FieldMutations("A", x) \cup TypeMutations("A", x) : x \in FieldNames }
        \cup { MMetaUT("A", << <<"f", "g">> >>), MMetaUT("A", <<>>), MSQL }
    [] AlphaId = 3 ->      \* relations: FK additions and model renames/deletes
        UNION { ModelMutations(m) : m \in ModelNames }
        \cup { MAdd(m, "h", "FK", D2("null", TRUE, "related_model", t), None)
                 : m \in {"A", "B"}, t \in ModelNames }
        \cup { MAdd(m, "h", "O2O", D3("null", TRUE, "related_model", t, "unique", TRUE), None)
                 : m \in {"A", "B"}, t \in ModelNames }
        \cup { MChg("A", "g", None, D1("db_index", TRUE), None) }
        \cup { MDel(m, x) : m \in {"A", "B"}, x \in {"f", "h"} }
        \cup { MRenF(m, "h", "g") : m \in {"B"} } \cup { MRenF("A", "f", "h") }
    [] AlphaId = 6 ->      \* plain column changes on two models (multi-table evolutions)
        UNION { { MAdd(m, "h", "Int", D1("null", TRUE), None),
                  MAdd(m, "h", "Char", D1("max_length", 10), "i"),
                  \* a nullable column WITH an initial value: every existing row gets the value
                  \* (no unique toggles in this alphabet: equal values in every row are fine)
                  MAdd(m, "h", "Int", D1("null", TRUE), "j"),
                  MChg(m, "g", None, D1("null", FALSE), "i"),
                  MChg(m, "g", None, D1("null", TRUE), None),
                  MChg(m, "g", None, D1("db_index", TRUE), None),
                  MDel(m, "g"), MDel(m, "h") } : m \in {"A", "B"} }
    [] AlphaId = 4 ->      \* unique / db_index toggles next to other changes on model A
        UNION { { MChg("A", x, None, D1("unique", FALSE), None),
                  MChg("A", x, None, D1("unique", TRUE), None),
                  MChg("A", x, None, D1("db_index", FALSE), None),
                  MChg("A", x, None, D1("db_index", TRUE), None),
                  MChg("A", x, None, D1("null", TRUE), None),
                  MChg("A", x, None, D1("max_length", 20), None),
                  \* an initial value that the change has no use for (nothing is made non-null):
                  \* it must not touch the rows
                  MChg("A", x, None, D1("unique", TRUE), "i"),
                  MChg("A", x, None, D1("unique", FALSE), "j"),
                  MChg("A", x, None, D1("db_index", TRUE), "i"),
                  MChg("A", x, None, D1("max_length", 20), "j"),
                  MAdd("A", x, "Int", D1("null", TRUE), None),
                  MAdd("A", x, "Int", D2("null", TRUE, "unique", TRUE), None),
                  \* an indexed column that comes (back): after MDel of an indexed column of the same
                  \* name the tracked database state must have forgotten the old index
                  MAdd("A", x, "Int", D2("null", TRUE, "db_index", TRUE), None),
                  MDel("A", x) } : x \in FieldNames }
    [] AlphaId = 5 ->      \* field-name reuse on model A: renames, deletes, re-adds, and
                           \* NULLs filled with two different initial values
        UNION { { MChg("A", x, None, D1("max_length", 20), None),
                  MChg("A", x, None, D1("null", TRUE), None),
                  MChg("A", x, None, D1("null", FALSE), "i"),
                  MChg("A", x, None, D1("null", FALSE), "j"),
                  MAdd("A", x, "Int", D1("null", TRUE), None),
                  MDel("A", x) } \cup { MRenF("A", x, y) : y \in FieldNames \ {x} }
                : x \in FieldNames }
    [] AlphaId = 10 ->     \* Meta.constraints next to rebuilds of the same table
        { MAdd("A", "h", "Int", D1("null", TRUE), None),
          MAdd("A", "h", "Char", D1("max_length", 10), "i"),
          MChg("A", "f", None, D1("max_length", 20), None),
          MChg("A", "g", None, D1("null", TRUE), None),
          MChg("A", "f", None, D1("db_index", TRUE), None),
          MDel("A", "h"),
          MMetaCons("A", <<>>), MMetaCons("A", <<CkG>>), MMetaCons("A", <<UqCond>>),
          MMetaCons("A", <<CkG, UqFG>>), MMetaCons("A", <<CkG, UqFG, UqCond>>),
          \* (g, f), not (f, g): a unique_together over the very columns of uq_fg would be a
          \* second, indistinguishable unique index
          MMetaUT("A", << <<"g", "f">> >>), MSQL }
    [] AlphaId = 15 ->     \* field renames that keep their column (no SQL at all), names re-used by the next
                           \* rename, and changes that address the fields by their NEW names
        { MRenFK("A", "f", "h"), MRenFK("A", "g", "f"), MRenFK("A", "g", "h"), MRenF("A", "g", "h"),
          MChg("A", "f", None, D1("null", TRUE), None), MChg("A", "h", None, D1("null", TRUE), None),
          MChg("A", "g", None, D1("db_index", TRUE), None), MChg("A", "h", None, D1("db_index", TRUE), None),
          MDel("A", "f"), MAdd("A", "k", "Int", D1("null", TRUE), None) }
    [] AlphaId = 14 ->     \* a relation added to a model that is renamed later in the same batch, inside a run
                           \* of other rebuilding changes of the referring table; the referring model sorts
                           \* after the renamed one and before its new name, and a third model changes too
        { MAdd("B", "h", "FK", D2("null", TRUE, "related_model", "A"), None),
          MAdd("B", "k", "Int", D1("null", TRUE), None),
          MAdd("B", "g", "Int", D1("null", TRUE), None),
          MRenM("A", "C"),
          MAdd("C", "h", "Int", D1("null", TRUE), None),
          MAdd("A", "h", "Int", D1("null", TRUE), None),
          MDel("C", "g") }
    [] AlphaId = 13 ->     \* Meta.index_together next to rebuilds, renames and deletions on the same table
        { MAdd("A", "h", "Int", D1("null", TRUE), None),
          MAdd("A", "h", "Char", D1("max_length", 10), "i"),
          MChg("A", "f", None, D1("max_length", 20), None),
          MChg("A", "g", None, D1("null", FALSE), "i"),
          MChg("A", "g", None, D1("db_index", TRUE), None),
          MDel("A", "h"), MRenF("A", "f", "h"), MRenF("A", "g", "k"),
          MMetaIT("A", <<>>), MMetaIT("A", << <<"f", "g">> >>), MMetaIT("A", << <<"g">>, <<"f", "g">> >>),
          MMetaIT("A", << <<"g", "f">>, <<"f">> >>), MMetaIT("A", << <<"f", "h">> >>),
          MMetaUT("A", << <<"f", "g">> >>), MRenM("A", "C"), MSQL }
    [] AlphaId = 12 ->     \* constraints REDEFINED under the name they already have, alone and next to
                           \* other changes of the same table
        { MMetaCons("A", <<CkH, UqFG, UqCond>>), MMetaCons("A", <<CkG, UqGF, UqCond>>),
          MMetaCons("A", <<CkH, UqGF>>), MMetaCons("A", <<CkG, UqFG, UqCond>>),
          MMetaCons("A", <<CkG>>), MMetaCons("A", <<>>),
          MChg("A", "f", None, D1("max_length", 20), None),
          MAdd("A", "k", "Int", D1("null", TRUE), None),
          MChg("A", "h", None, D1("db_index", TRUE), None), MSQL }
    [] AlphaId = 11 ->     \* a referenced primary key / model is renamed, and the table that refers to it is
                           \* rebuilt, gains another relation to it, or has the relation renamed (C11's
                           \* database clause: every foreign key points at the renamed table / column)
        { MRenF("B", "id", "k"), MRenM("B", "C"),
          MDel("A", "g"), MChg("A", "g", None, D1("null", TRUE), None),
          MChg("A", "g", None, D1("db_index", TRUE), None),
          MAdd("A", "h", "FK", D2("null", TRUE, "related_model", "B"), None),
          MAdd("A", "h", "FK", D2("null", TRUE, "related_model", "C"), None),
          MAdd("A", "h", "Int", D1("null", TRUE), None),
          MRenF("A", "f", "h"), MDel("B", "g"), MRenF("C", "id", "k") }
    [] AlphaId = 9 ->      \* the other column types of C01's quantifier, added / re-typed / made nullable / dropped
        { MAdd("A", "h", "BigInt", D1("null", TRUE), None),
          MAdd("A", "h", "PosInt", EmptyDict, "i"),
          MAdd("A", "h", "Bool", EmptyDict, "i"),
          MAdd("A", "h", "Decimal", D2("max_digits", 6, "decimal_places", 2), "i"),
          MAdd("A", "h", "DateTime", D1("null", TRUE), None),
          MAdd("A", "h", "Text", EmptyDict, "i"),
          \* initial values that Python regards as false (0, False, the empty string), on columns
          \* that need one and on nullable columns that do not
          MAdd("A", "h", "Int", D1("null", TRUE), "z"), MAdd("A", "h", "Int", EmptyDict, "z"),
          MAdd("A", "h", "Bool", D1("null", TRUE), "z"), MAdd("A", "h", "Bool", EmptyDict, "z"),
          MAdd("A", "h", "Char", D2("max_length", 10, "null", TRUE), "z"),
          MAdd("A", "h", "Decimal", D3("max_digits", 6, "decimal_places", 2, "null", TRUE), "z"),
          \* a string initial value with a percent sign and quotes in it, on a new column and to fill NULLs
          MAdd("A", "h", "Char", D1("max_length", 10), "p"),
          MAdd("A", "h", "Char", D2("max_length", 10, "null", TRUE), None),
          MChg("A", "h", None, D1("null", FALSE), "p"),
          MChg("A", "g", "BigInt", D1("null", TRUE), None),
          MChg("A", "h", None, D1("null", TRUE), None),
          MChg("A", "h", None, D1("db_index", TRUE), None),
          MChg("A", "f", None, D1("max_length", 20), None),
          MDel("A", "h"), MRenF("A", "h", "k") }
    [] AlphaId = 8 ->      \* many-to-many: the models at both ends renamed / deleted, fields added / renamed / deleted
        { MRenM("A", "C"), MRenM("B", "C"), MDelM("A"), MDelM("B"),
          MAdd("A", "h", "M2M", D1("related_model", "B"), None),
          MAdd("B", "h", "M2M", D1("related_model", "A"), None),
          MAdd("C", "h", "M2M", D1("related_model", "B"), None),
          MDel("A", "g"), MDel("A", "h"), MDel("C", "g"), MRenF("A", "g", "h"), MRenF("C", "g", "h"),
          MAdd("A", "h", "Int", D1("null", TRUE), None),
          MChg("A", "f", None, D1("max_length", 20), None),
          MChg("C", "f", None, D1("max_length", 20), None) }
    [] AlphaId = 7 ->      \* Meta.indexes (plain and conditional) next to rebuilds of the same table
        { MAdd("A", "h", "Int", D1("null", TRUE), None),
          MAdd("A", "h", "Char", D1("max_length", 10), "i"),
          MChg("A", "f", None, D1("max_length", 20), None),
          MChg("A", "g", None, D1("null", TRUE), None),
          MDel("A", "h"), MRenF("A", "f", "h"),
          MMetaIdx("A", <<>>), MMetaIdx("A", <<IxFG>>), MMetaIdx("A", <<IxCond>>),
          MMetaIdx("A", <<IxFG, IxCond, IxH>>),
          MMetaUT("A", << <<"f", "g">> >>), MSQL }
    [] OTHER -> { MSQL }

---------------------------------------------------------------------------
(* _create_mutation_batches: split at mutations that are not model mutations *)

RECURSIVE Batches(_, _, _, _)
(* objs, remaining indices, current batch [proc, idxs], batches so far *)
Batches(objs, idxs, curb, acc) ==
    IF idxs = <<>> THEN Append(acc, curb)
    ELSE LET i == Head(idxs)
             p == IsModelMutation(objs[i])
         IN IF p # curb.proc
            THEN Batches(objs, Tail(idxs), [proc |-> p, idxs |-> <<i>>], Append(acc, curb))
            ELSE Batches(objs, Tail(idxs), [curb EXCEPT !.idxs = Append(@, i)], acc)

CreateBatches(objs, idxs) == Batches(objs, idxs, [proc |-> TRUE, idxs |-> <<>>], <<>>)

---------------------------------------------------------------------------
(* First pass: last to first *)

CopyChangeAttrs(src, dst) ==
    [dst EXCEPT !.attrs = Upd(@, src.attrs),
                !.ftype = IF src.ftype # None THEN src.ftype ELSE @,
                !.init  = IF src.init  # None THEN src.init  ELSE @]

B0(objs) == [objs |-> objs, removed |-> {}, deletedF |-> {}, deletedM |-> {},
             noop |-> {}, models |-> {}, ut |-> EmptyDict, mi |-> EmptyDict,
             lastChg |-> EmptyDict, renames |-> EmptyDict, mrenames |-> EmptyDict,
             pendNoop |-> {}]

Pass1Step(b, i) ==
  LET mu == b.objs[i]
      b1 == [b EXCEPT !.models = @ \cup {mu.m}]
      id == <<mu.m, mu.f>>
  IN
  CASE mu.k = "Add" ->
        IF id \in b1.deletedF
        THEN [b1 EXCEPT !.noop = @ \cup {id}, !.deletedF = @ \ {id},
                        !.removed = @ \cup {i}]
        ELSE IF id \in DOMAIN b1.lastChg
             THEN LET j == b1.lastChg[id]
                  IN [b1 EXCEPT !.objs[i] = CopyChangeAttrs(b1.objs[j], @),
                                !.removed = @ \cup {j},
                                !.lastChg = Drop(@, id)]
             ELSE b1
    [] mu.k = "Chg" ->
        IF id \in b1.deletedF
        THEN [b1 EXCEPT !.removed = @ \cup {i}]
        ELSE IF id \in DOMAIN b1.lastChg
             THEN LET j == b1.lastChg[id]
                  IN [b1 EXCEPT !.objs[i] = CopyChangeAttrs(b1.objs[j], @),
                                !.removed = @ \cup {j},
                                !.lastChg = Put(@, id, i)]
             ELSE [b1 EXCEPT !.lastChg = Put(@, id, i)]
    [] mu.k = "Del" -> [b1 EXCEPT !.deletedF = @ \cup {id}]
    [] mu.k = "RenF" ->
        LET old == <<mu.m, mu.of>>
            new == <<mu.m, mu.nf>>
            del == new \in b1.deletedF
            b2  == IF del THEN [b1 EXCEPT !.deletedF = (@ \ {new}) \cup {old},
                                          !.removed = @ \cup {i}]
                   ELSE b1
            r1  == IF new \in DOMAIN b2.renames
                   THEN RenKey(b2.renames, new, old)
                   ELSE Put(b2.renames, old, [cp |-> FALSE, muts |-> <<>>])
            r2  == [r1 EXCEPT ![old].muts = Append(@, i)]
            lc  == IF new \in DOMAIN b2.lastChg
                   THEN RenKey(b2.lastChg, new, old) ELSE b2.lastChg
        IN [b2 EXCEPT !.renames = r2, !.lastChg = lc]
    [] mu.k = "DelM" -> [b1 EXCEPT !.deletedM = @ \cup {mu.m}]
    [] mu.k = "RenM" ->
        LET old == mu.om
            new == mu.nm
            del == new \in b1.deletedM
            b2  == IF del THEN [b1 EXCEPT !.deletedM = (@ \ {new}) \cup {old},
                                          !.removed = @ \cup {i}]
                   ELSE b1
            r1  == IF new \in DOMAIN b2.mrenames
                   THEN RenKey(b2.mrenames, new, old)
                   ELSE Put(b2.mrenames, old, [cp |-> FALSE, muts |-> <<>>])
            r2  == [r1 EXCEPT ![old].muts = Append(@, i)]
        IN [b2 EXCEPT !.mrenames = r2]
    [] mu.k = "Meta" ->
        IF mu.prop = "unique_together" /\ mu.m \notin DOMAIN b1.ut
        THEN [b1 EXCEPT !.ut = Put(@, mu.m, mu.val)]
        ELSE IF mu.prop = "indexes" /\ mu.m \notin DOMAIN b1.mi
             THEN [b1 EXCEPT !.mi = Put(@, mu.m, mu.ival)]
             ELSE b1
    [] OTHER -> b1

RECURSIVE Pass1(_, _)
Pass1(b, idxs) == IF idxs = <<>> THEN b
                  ELSE Pass1(Pass1Step(b, idxs[Len(idxs)]),
                             SubSeq(idxs, 1, Len(idxs) - 1))

---------------------------------------------------------------------------
(* Second pass: first to last.  `base` is the signature the AppMutator was *)
(* created with (used by the "already in the baseline" RenameModel skip).  *)

AllButLast(s) == SubSeq(s, 1, Len(s) - 1)

(* TRUE (as repaired): only a DeleteField that FOLLOWS the removed AddField of a no-op is part of the
   no-op (pending_noop_fields).  FALSE (as found): every DeleteField / RenameField of that field NAME
   was filtered out, also one that deletes an older field of the same name BEFORE the AddField:
   [DeleteField(f), AddField(f), DeleteField(f)] optimised to nothing. *)
NoopByPosition == TRUE
InNoop(b, id) == IF NoopByPosition THEN id \in b.pendNoop ELSE id \in b.noop

Pass2Step(b0, i, base) ==
  LET mu == b0.objs[i]
      id == <<mu.m, mu.f>>
      b  == IF mu.k = "Add" /\ id \in b0.noop /\ i \in b0.removed
            THEN [b0 EXCEPT !.pendNoop = @ \cup {id}] ELSE b0
  IN
  CASE mu.k = "Add" ->
        LET b1 == IF id \in DOMAIN b.renames
                  THEN LET info == b.renames[id]
                           rm   == b.objs[info.muts[1]]
                           o1   == [mu EXCEPT !.f = rm.nf,
                                       !.attrs = IF TruthyStr(rm.dbcol)
                                                 THEN Put(@, "db_column", rm.dbcol)
                                                 ELSE @]
                       IN [b EXCEPT !.objs[i] = o1,
                                    !.renames[id].cp = TRUE,
                                    !.removed = @ \cup SeqSet(info.muts)]
                  ELSE b
            rel == Get(b1.objs[i].attrs, "related_model", None)
        IN IF rel # None /\ rel \in DOMAIN b1.mrenames
           THEN LET newName == b1.objs[b1.mrenames[rel].muts[1]].nm
                IN [b1 EXCEPT !.mrenames[rel].cp = TRUE,
                              !.objs[i].attrs = Put(@, "related_model", newName)]
           ELSE b1
    [] mu.k = "Chg" ->
        IF id \in DOMAIN b.renames /\ b.renames[id].cp
        THEN [b EXCEPT !.objs[i].f = b.objs[b.renames[id].muts[1]].nf]
        ELSE b
    [] mu.k = "Del" ->
        IF InNoop(b, id) THEN [b EXCEPT !.removed = @ \cup {i}, !.pendNoop = @ \ {id}]
        ELSE IF id \in DOMAIN b.renames /\ b.renames[id].cp
             THEN [b EXCEPT !.objs[i].f = b.objs[b.renames[id].muts[1]].of]
             ELSE b
    [] mu.k = "RenF" ->
        LET old == <<mu.m, mu.of>>
            new == <<mu.m, mu.nf>>
            b1  == IF InNoop(b, old)
                   THEN [b EXCEPT !.noop = (@ \ {old}) \cup {new},
                                  !.pendNoop = IF old \in @ THEN (@ \ {old}) \cup {new} ELSE @,
                                  !.removed = @ \cup {i}]
                   ELSE b
        IN IF old \in DOMAIN b1.renames
           THEN LET muts == b1.renames[old].muts
                    r1   == RenKey(b1.renames, old, new)
                    r2   == IF new \in DOMAIN r1
                            THEN [r1 EXCEPT ![new] = [cp |-> TRUE,
                                                      muts |-> <<muts[Len(muts)]>>]]
                            ELSE r1
                IN [b1 EXCEPT !.objs[i].nf = b1.objs[muts[1]].nf,
                              !.removed = @ \cup SeqSet(AllButLast(muts)),
                              !.renames = r2]
           ELSE b1
    [] mu.k = "DelM" ->
        IF mu.m \in DOMAIN b.mrenames /\ b.mrenames[mu.m].cp
        THEN [b EXCEPT !.objs[i].m = b.objs[b.mrenames[mu.m].muts[1]].om]
        ELSE b
    [] mu.k = "RenM" ->
        LET old == mu.om
            new == mu.nm
        IN IF old \in DOMAIN b.mrenames
           THEN LET muts == b.mrenames[old].muts
                    rm   == b.objs[muts[1]]
                    r1   == RenKey(b.mrenames, old, new)
                    r2   == IF new \in DOMAIN r1
                            THEN [r1 EXCEPT ![new] = [cp |-> TRUE,
                                                      muts |-> <<muts[Len(muts)]>>]]
                            ELSE r1
                    skip == new \in DOMAIN base /\ old \notin DOMAIN base
                IN [b EXCEPT !.objs[i].nm = rm.nm,
                             !.objs[i].dbtable = IF TruthyStr(rm.dbtable)
                                                 THEN rm.dbtable ELSE @,
                             !.removed = (@ \cup SeqSet(AllButLast(muts)))
                                         \cup (IF skip THEN {i} ELSE {}),
                             !.mrenames = r2]
           ELSE b
    [] mu.k = "Meta" ->
        IF mu.prop = "unique_together" /\ mu.m \in DOMAIN b.ut
        THEN (IF mu.val # b.ut[mu.m] THEN [b EXCEPT !.removed = @ \cup {i}] ELSE b)
        ELSE IF mu.prop = "indexes" /\ mu.m \in DOMAIN b.mi
             THEN (IF mu.ival # b.mi[mu.m] THEN [b EXCEPT !.removed = @ \cup {i}] ELSE b)
             ELSE b
    [] OTHER -> b

RECURSIVE Pass2(_, _, _)
Pass2(b, idxs, base) == IF idxs = <<>> THEN b
                        ELSE Pass2(Pass2Step(b, Head(idxs), base), Tail(idxs), base)

NeedsPass2(b) == \/ b.noop # {} \/ DOMAIN b.renames # {} \/ DOMAIN b.mrenames # {}
                 \/ DOMAIN b.ut # {} \/ DOMAIN b.mi # {}

---------------------------------------------------------------------------
(* Filter, then regroup by sorted(model_names) *)

RECURSIVE SortNames(_)
SortNames(S) == IF S = {} THEN <<>>
                ELSE LET n == CHOOSE x \in S : \A y \in S : NameRank(x) <= NameRank(y)
                     IN <<n>> \o SortNames(S \ {n})

RECURSIVE ConcatByModel(_, _, _)
ConcatByModel(objs, idxs, names) ==
    IF names = <<>> THEN <<>>
    ELSE SelectSeq(idxs, LAMBDA i : objs[i].m = Head(names))
         \o ConcatByModel(objs, idxs, Tail(names))

(* _process_mutation_batch for one pre-processable batch.
   Returns [objs, list, crash]; crash models the KeyError that
   mutations_by_model[mutation.model_name] raises for an unknown name. *)
ProcessBatch(objs, idxs, base) ==
    LET p1   == Pass1(B0(objs), idxs)
        p2   == IF NeedsPass2(p1) THEN Pass2(p1, idxs, base) ELSE p1
        kept == SelectSeq(idxs, LAMBDA i : i \notin p2.removed)
        bad  == \E k \in 1..Len(kept) : p2.objs[kept[k]].m \notin p2.models
    IN [objs  |-> p2.objs,
        list  |-> IF bad THEN kept
                  ELSE ConcatByModel(p2.objs, kept, SortNames(p2.models)),
        staged |-> kept,            \* before regrouping (for cause analysis)
        crash |-> bad]

RECURSIVE ProcessBatches(_, _, _, _)
ProcessBatches(r, batches, base, regroup) ==
    IF batches = <<>> THEN r
    ELSE LET bt == Head(batches)
         IN IF bt.proc
            THEN LET pb == ProcessBatch(r.objs, bt.idxs, base)
                 IN ProcessBatches([objs  |-> pb.objs,
                                    list  |-> r.list \o (IF regroup THEN pb.list ELSE pb.staged),
                                    crash |-> r.crash \/ (regroup /\ pb.crash)],
                                   Tail(batches), base, regroup)
            ELSE ProcessBatches([r EXCEPT !.list = @ \o bt.idxs],
                                Tail(batches), base, regroup)

Indices(objs) == [i \in 1..Len(objs) |-> i]

(* AppMutator._preprocess_mutations *)
Opt(objs, base) ==
    ProcessBatches([objs |-> objs, list |-> <<>>, crash |-> FALSE],
                   CreateBatches(objs, Indices(objs)), base, TRUE)
(* the same without the by-model regrouping: used only to attribute causes *)
OptNoRegroup(objs, base) ==
    ProcessBatches([objs |-> objs, list |-> <<>>, crash |-> FALSE],
                   CreateBatches(objs, Indices(objs)), base, FALSE)

ListMuts(objs, list) == [k \in 1..Len(list) |-> objs[list[k]]]

(* AppMutator.run_mutations on a fresh mutator: optimise, then mutate+simulate
   each surviving mutation.  The ModelMutator needs the mutation's model to
   exist (ModelMutator.model_sig) before mutate() is called. *)
(* ModelMutator.create_model() builds a MockModel of the whole model: every
   relation field of that model (and a relation being added) needs the
   signature of its target, or MissingSignatureError is raised *)
RelTargetsExist(mu, sig) ==
    /\ \A fn \in DOMAIN sig[mu.m].fields :
          LET r == sig[mu.m].fields[fn].rel IN r = None \/ r \in DOMAIN sig
    /\ (mu.k = "Add" /\ "related_model" \in DOMAIN mu.attrs)
          => mu.attrs["related_model"] \in DOMAIN sig

RECURSIVE RunList(_, _)
RunList(ms, sig) ==
    IF ms = <<>> THEN Ok(sig)
    ELSE LET mu == Head(ms)
         IN IF IsModelMutation(mu) /\ mu.m \notin DOMAIN sig THEN Fail(sig)
            ELSE IF IsModelMutation(mu) /\ ~RelTargetsExist(mu, sig) THEN Fail(sig)
            ELSE LET r == Sim(mu, sig)
                 IN IF r.ok THEN RunList(Tail(ms), r.sig) ELSE r

OneRun(objs, base) ==
    LET o == Opt(objs, base)
    IN IF o.crash THEN [ok |-> FALSE, sig |-> base, objs |-> o.objs, list |-> o.list]
       ELSE LET r == RunList(ListMuts(o.objs, o.list), base)
            IN [ok |-> r.ok, sig |-> r.sig, objs |-> o.objs, list |-> o.list]

(* The Evolver task pipeline: prepare() optimises and simulates the objects on
   a clone of the signature, then _build_batches() optimises THE SAME objects
   again against the evolver's signature. *)
TwoPass(objs, base) ==
    LET first == OneRun(objs, base)
    IN IF ~first.ok THEN first ELSE OneRun(first.objs, base)

---------------------------------------------------------------------------
(* Operations, merge groups and SQLite rebuilds (C18) *)

(* the operations one mutation schedules on its ModelMutator, given the
   signature at that point.  t: op type; rb: forces a table rebuild on SQLite;
   dbi: changes db_index; fld: the field concerned *)
Op(t, rb, dbi, fld) == [t |-> t, rb |-> rb, dbi |-> dbi, fld |-> fld]
OpsOf(mu, sig) ==
  CASE mu.k = "Add" -> IF mu.ftype = "M2M" THEN <<Op("sql", FALSE, FALSE, mu.f)>>
                       ELSE <<Op("add_column", TRUE, FALSE, mu.f)>>
    [] mu.k = "Del" -> IF sig[mu.m].fields[mu.f].ftype = "M2M"
                       THEN <<Op("sql", FALSE, FALSE, mu.f)>>
                       ELSE <<Op("delete_column", TRUE, FALSE, mu.f)>>
    [] mu.k = "Chg" ->
        LET old == sig[mu.m].fields[mu.f]
            typeChanged == /\ mu.ftype # None /\ old.ftype # mu.ftype
                           /\ DbType(old.ftype, old.attrs) #
                              DbType(mu.ftype, Drop(mu.attrs, "related_model"))
            changed == { a \in DOMAIN mu.attrs : AttrValue(old, a) # mu.attrs[a] }
        IN IF typeChanged THEN <<Op("change_column_type", TRUE, FALSE, mu.f)>>
           ELSE IF changed = {} THEN <<>>
           ELSE <<Op("change_column",
                     (changed \cap {"null", "max_length", "unique"}) # {},
                     "db_index" \in changed, mu.f)>>
    \* on SQLite a change of Meta.constraints is carried out by a table rebuild
    [] mu.k = "Meta" -> <<Op("change_meta",
                             mu.prop = "constraints" /\ mu.m \in DOMAIN sig /\ mu.ival # sig[mu.m].cons,
                             FALSE, None)>>
    [] mu.k \in {"RenF", "RenM", "DelM"} -> <<Op("sql", FALSE, FALSE, None)>>
    [] OTHER -> <<>>

(* hazards of one mutation on its own, whatever it is merged with *)
(* Django names the columns of a many-to-many table after the models at its two
   ends (and the table after the owner's table and the field): renaming either
   model, or the field, is meant to rename them *)
M2MEnds(sig, mn) ==
    (\E fn \in DOMAIN sig[mn].fields : sig[mn].fields[fn].ftype = "M2M")
    \/ (\E m2 \in DOMAIN sig : \E fn \in DOMAIN sig[m2].fields :
            sig[m2].fields[fn].ftype = "M2M" /\ sig[m2].fields[fn].rel = mn)

MutHazards(mu, sig) ==
    IF mu.k = "RenM" /\ M2MEnds(sig, mu.om) THEN {"m2m-end-renamed"}
    \* Django gives a PositiveIntegerField column a CHECK (col >= 0); the column definitions
    \* Django Evolution generates never carry it
    ELSE IF mu.k = "Add" /\ mu.ftype = "PosInt" THEN {"positive-integer-check"}
    ELSE IF mu.k = "Chg"
    THEN LET old == sig[mu.m].fields[mu.f]
             typeChanged == /\ mu.ftype # None /\ old.ftype # mu.ftype
                            /\ DbType(old.ftype, old.attrs) #
                               DbType(mu.ftype, Drop(mu.attrs, "related_model"))
             changed == { a \in DOMAIN mu.attrs : AttrValue(old, a) # mu.attrs[a] }
             \* a type change REPLACES the attributes: a nullable column becomes NOT NULL unless
             \* null=True is stated again, and no initial value is asked for
             nullChanges == AttrValue(old, "null") # Get(mu.attrs, "null", FALSE)
         IN (IF typeChanged /\ ("null" \in changed \/ nullChanges) THEN {"typechange-with-null"} ELSE {})
    ELSE {}

NoOp == Op("none", FALSE, FALSE, None)
G0 == [prev |-> NoOp, grb |-> FALSE, cnt |-> 0, gdbi |-> FALSE, gmeta |-> FALSE,
       gdel |-> {}, haz |-> {}]

(* ops of one mutation folded into the merge-group state.  `tix`: the model has
   table-level indexes (unique_together / Meta.indexes) at this point *)
RECURSIVE OpsFold(_, _, _)
OpsFold(ops, g, tix) ==
    IF ops = <<>> THEN g
    ELSE LET op == Head(ops)
             merge == g.prev.t # "none" /\ g.prev.t \in Mergeable /\ op.t \in Mergeable
             g1 == IF merge THEN g
                   ELSE [g EXCEPT !.grb = FALSE, !.gdbi = FALSE, !.gmeta = FALSE, !.gdel = {}]
             g2 == [g1 EXCEPT !.prev = op,
                              !.cnt  = IF op.rb /\ ~g1.grb THEN @ + 1 ELSE @,
                              !.grb  = @ \/ op.rb,
                              !.gdbi = @ \/ op.dbi,
                              !.gmeta = @ \/ (op.t = "change_meta"),
                              !.gdel = IF op.t = "delete_column" THEN @ \cup {op.fld} ELSE @]
             hz == (IF g2.grb /\ g2.gmeta THEN {"meta-in-rebuild-group"} ELSE {})

         IN OpsFold(Tail(ops), [g2 EXCEPT !.haz = @ \cup hz], tix)

Bump(counts, key, n) == IF n = 0 THEN counts ELSE Put(counts, key, Get(counts, key, 0) + n)

(* walk a mutation list run by ONE AppMutator: split into ModelMutator groups
   (adjacent equal model_name), fold the ops into merge groups, count the
   merge groups that contain a rebuild, collect hazards *)
(* TRUE: DatabaseState.rename_table moves the tracked indexes along with a
   renamed table (as repaired, d61d5fe); FALSE: as originally found *)
StateFollowsTableRename == TRUE
(* TRUE: delete_column (SQLite) stops tracking the indexes on just the deleted column (as repaired,
   556d1aa); FALSE, as found: they stay in the tracked DatabaseState until the next rescan, and an
   AddField of the same column with db_index=True later in the same AppMutator run - e.g. after the
   optimiser folded ChangeField(db_index=True) into it - is rejected ("This index already exists") *)
StateForgetsDeletedColumn == TRUE
PlainIndexed(fs) == fs.ftype \in {"FK", "O2O"} \/ Get(fs.attrs, "db_index", FALSE) = TRUE

RECURSIVE Plan(_, _, _, _, _)
Plan(ms, sig, curModel, g, acc) ==
    IF ms = <<>> THEN [acc EXCEPT !.haz = @ \cup g.haz]
    ELSE LET mu == Head(ms)
         IN IF ~IsModelMutation(mu)
            THEN Plan(Tail(ms), Sim(mu, sig).sig, None, G0,
                      [acc EXCEPT !.haz = @ \cup g.haz])
            ELSE LET same == curModel = mu.m
                     gs   == IF same THEN [g EXCEPT !.cnt = 0] ELSE [G0 EXCEPT !.haz = g.haz]
                     tix  == sig[mu.m].ut # <<>> \/ sig[mu.m].idx # <<>> \/ It(sig[mu.m]) # <<>>
                     g1   == OpsFold(OpsOf(mu, sig), gs, tix)
                     stale == mu.k \in {"Meta", "Add", "Chg", "Del"}
                              /\ ((~StateFollowsTableRename /\ sig[mu.m].table \in acc.ren)
                                  \/ sig[mu.m].table \in acc.renf)
                     shrunk == mu.k = "Del" /\ \E i \in 1..Len(sig[mu.m].ut) :
                                   InSeq(mu.f, sig[mu.m].ut[i]) /\ Len(sig[mu.m].ut[i]) > 1
                     onto == mu.k = "RenF" /\ mu.nf \in DOMAIN sig[mu.m].fields
                     readd == ~StateForgetsDeletedColumn /\ mu.k = "Add"
                              /\ <<sig[mu.m].table, mu.f>> \in acc.deli
                              /\ Get(mu.attrs, "db_index", FALSE) = TRUE
                     g2   == [g1 EXCEPT !.haz = @ \cup MutHazards(mu, sig)
                                  \cup (IF stale THEN {"state-stale-after-rename"} ELSE {})
                                  \cup (IF onto THEN {"rename-onto-existing-column"} ELSE {})
                                  \cup (IF readd THEN {"deleted-column-index-still-tracked"} ELSE {})
                                  \cup (IF shrunk THEN {"unique-together-shrunk-by-delete"} ELSE {})]
                 IN Plan(Tail(ms), Sim(mu, sig).sig, mu.m, g2,
                         [acc EXCEPT !.counts = Bump(@, sig[mu.m].table, g2.cnt),
                                     !.ren = IF mu.k = "RenM" THEN @ \cup {mu.dbtable} ELSE @,
                                     !.deli = IF mu.k = "Del" /\ PlainIndexed(sig[mu.m].fields[mu.f])
                                              THEN @ \cup {<<sig[mu.m].table, mu.f>>} ELSE @,
                                     !.renf = IF mu.k = "RenF" THEN @ \cup {sig[mu.m].table}
                                              \* a renamed table keeps its stale column entries
                                              ELSE IF mu.k = "RenM" /\ sig[mu.om].table \in @
                                              THEN @ \cup {mu.dbtable} ELSE @])

(* ren / renf: tables renamed, and tables with a renamed column, so far in this
   AppMutator run -- DatabaseState keeps tracking their indexes under the old
   table / column name until the next rescan *)
Acc0 == [counts |-> EmptyDict, haz |-> {}, ren |-> {}, renf |-> {}, deli |-> {}]
PlanOf(ms, sig) == Plan(ms, sig, None, G0, Acc0)
Rebuilds(ms, sig) == PlanOf(ms, sig).counts

(* one AppMutator per mutation *)
RECURSIVE PlanIndividually(_, _, _)
PlanIndividually(ms, sig, acc) ==
    IF ms = <<>> THEN acc
    ELSE LET mu == Head(ms)
             p  == IF IsModelMutation(mu) THEN PlanOf(<<mu>>, sig) ELSE Acc0
         IN PlanIndividually(Tail(ms), Sim(mu, sig).sig,
                [counts |-> [t \in DOMAIN acc.counts \cup DOMAIN p.counts |->
                                Get(acc.counts, t, 0) + Get(p.counts, t, 0)],
                 haz |-> acc.haz \cup p.haz, ren |-> {}, renf |-> {}, deli |-> {}])

(* tables linked by a RenameModel of the sequence are one table *)
TableClass(t) ==
    LET linked == { <<TableOf(seq[i].om), seq[i].dbtable>> : i \in { j \in 1..Len(seq) : seq[j].k = "RenM" } }
        RECURSIVE Close(_, _)
        Close(S, n) == IF n = 0 THEN S
                       ELSE Close(S \cup { p[2] : p \in { q \in linked : q[1] \in S } }
                                    \cup { p[1] : p \in { q \in linked : q[2] \in S } }, n - 1)
    IN Close({t}, Len(seq))

SumOver(counts, T) ==
    LET RECURSIVE S(_)
        S(X) == IF X = {} THEN 0
                ELSE LET x == CHOOSE y \in X : TRUE IN Get(counts, x, 0) + S(X \ {x})
    IN S(T \cap DOMAIN counts)

---------------------------------------------------------------------------
(* The state machine *)

Init == seq = <<>> /\ cur = Sig0 /\ deleted = {}

Extend(mu) ==
    /\ Len(seq) < MaxLen
    /\ LET r == Sim(mu, cur)
       IN /\ r.ok
          \* stay inside the quantifier: a rename onto an existing name is not
          \* a "valid" rename (the simulation does not reject it; see DESIGN)
          /\ (mu.k = "RenF" => mu.nf \notin DOMAIN cur[mu.m].fields)
          /\ (mu.k = "RenM" => mu.nm \notin DOMAIN cur)
          \* a model is only deleted once no other model refers to it
          /\ (mu.k = "DelM" => \A mn \in DOMAIN cur \ {mu.m} :
                                  \A fn \in DOMAIN cur[mn].fields :
                                     cur[mn].fields[fn].rel # mu.m)
          \* unique_together only ever names fields the model has
          /\ ((mu.k = "Meta" /\ mu.prop \in {"unique_together", "index_together"})
                => \A i \in 1..Len(mu.val) : SeqSet(mu.val[i]) \subseteq DOMAIN cur[mu.m].fields)
          \* Meta.indexes only ever names fields the model has (the simulation
          \* does not check this; SQL generation raises FieldDoesNotExist)
          /\ ((mu.k = "Meta" /\ mu.prop = "indexes")
                => \A i \in 1..Len(mu.ival) :
                      /\ SeqSet(mu.ival[i].fields) \subseteq DOMAIN cur[mu.m].fields
                      /\ (mu.ival[i].cond # None => mu.ival[i].cond \in DOMAIN cur[mu.m].fields))
          /\ ((mu.k = "Meta" /\ mu.prop = "constraints")
                => \A i \in 1..Len(mu.ival) :
                      /\ SeqSet(mu.ival[i].fields) \subseteq DOMAIN cur[mu.m].fields
                      /\ (mu.ival[i].cond # None => mu.ival[i].cond \in DOMAIN cur[mu.m].fields))
          \* a relation is only ever added towards a model that exists
          /\ ((mu.k = "Add" /\ "related_model" \in DOMAIN mu.attrs)
                => mu.attrs["related_model"] \in DOMAIN cur)
          \* max_length is only ever changed on a CharField
          /\ ((mu.k = "Chg" /\ mu.ftype = None /\ "max_length" \in DOMAIN mu.attrs)
                => cur[mu.m].fields[mu.f].ftype = "Char")
          /\ cur' = r.sig
    /\ seq' = Append(seq, mu)
    /\ deleted' = IF mu.k = "DelM" THEN deleted \cup {mu.m} ELSE deleted

Next == \E mu \in Alphabet : Extend(mu)

Spec == Init /\ [][Next]_vars

---------------------------------------------------------------------------
(* Properties, evaluated in every state (= for every valid sequence) *)

One  == OneRun(seq, Sig0)
Two  == TwoPass(seq, Sig0)
Stg  == OptNoRegroup(seq, Sig0)
StgRun == RunList(ListMuts(Stg.objs, Stg.list), Sig0)

OptAccepted      == One.ok
OptSameSig       == One.ok => SigEq(One.sig, cur)
OptLeavesDefsIntact == One.objs = seq
TwoPassAccepted  == Two.ok
TwoPassSameSig   == Two.ok => SigEq(Two.sig, cur)

PlanOpt == IF One.ok THEN PlanOf(ListMuts(One.objs, One.list), Sig0) ELSE Acc0
PlanInd == PlanIndividually(seq, Sig0, Acc0)
PlanTwo == IF Two.ok THEN PlanOf(ListMuts(Two.objs, Two.list), Sig0) ELSE Acc0
RbOpt == PlanOpt.counts
RbInd == PlanInd.counts
(* a ChangeMeta naming a field the model does not have at that point is accepted by the
   simulation but cannot be lowered (FieldDoesNotExist while generating SQL, before any
   statement runs) *)
RECURSIVE MetaNamesMissing(_, _)
MetaNamesMissing(ms, sig) ==
    IF ms = <<>> THEN FALSE
    ELSE LET mu == Head(ms)
             r  == Sim(mu, sig)
             names == IF mu.prop \in {"unique_together", "index_together"} THEN UNION { SeqSet(mu.val[i]) : i \in 1..Len(mu.val) }
                      ELSE UNION { SeqSet(mu.ival[i].fields) : i \in 1..Len(mu.ival) }
         IN \/ /\ mu.k = "Meta" /\ mu.m \in DOMAIN sig
               /\ ~(names \subseteq DOMAIN sig[mu.m].fields)
            \/ (r.ok /\ MetaNamesMissing(Tail(ms), r.sig))

(* an index is named after its column when it is created and keeps that name when the
   column is renamed: adding an indexed field under the old name later wants the same name *)
Indexed(fs) == fs.ftype \in {"FK", "O2O"} \/ Get(fs.attrs, "db_index", FALSE) = TRUE
               \/ Get(fs.attrs, "unique", FALSE) = TRUE
RECURSIVE IndexNameReuse(_, _, _)
IndexNameReuse(ms, sig, freed) ==      \* freed: <<model, old field name>> of renamed indexed fields
    IF ms = <<>> THEN FALSE
    ELSE LET mu == Head(ms)
             r  == Sim(mu, sig)
             hit == mu.k = "Add" /\ <<mu.m, mu.f>> \in freed
                    /\ Indexed(NewField(mu.ftype, mu.attrs, mu.init))
             fr == IF mu.k = "RenF" /\ mu.m \in DOMAIN sig /\ mu.of \in DOMAIN sig[mu.m].fields
                      /\ Indexed(sig[mu.m].fields[mu.of])
                   THEN freed \cup {<<mu.m, mu.of>>}
                   ELSE IF mu.k = "RenM" THEN freed \cup { <<mu.nm, p[2]>> : p \in { q \in freed : q[1] = mu.om } }
                   ELSE freed
         IN hit \/ (r.ok /\ IndexNameReuse(Tail(ms), r.sig, fr))

(* sequences on which a known weakness of the SQLite lowering can show *)
(* The same index declared twice: two declarations of one model (a field's own db_index / unique, a
   unique_together / index_together / Meta.indexes / unique-constraint entry) that cover the same column
   list with the same uniqueness and condition.  Django creates one index per declaration; Django
   Evolution finds "the" index of a column list by its columns (DatabaseState.find_index) and therefore
   creates only one and drops whichever it meets. *)
FieldDecls(ms) == { <<<<f>>, (Get(ms.fields[f].attrs, "unique", FALSE) = TRUE \/ ms.fields[f].ftype = "O2O"), None>>
                      : f \in { x \in DOMAIN ms.fields : Indexed(ms.fields[x])
                                                          /\ Get(ms.fields[x].attrs, "primary_key", FALSE) # TRUE } }
TableDecls(ms) ==
    [i \in 1..Len(ms.ut) |-> <<ms.ut[i], TRUE, None>>]
    \o [i \in 1..Len(ms.idx) |-> <<ms.idx[i].fields, FALSE, ms.idx[i].cond>>]
    \o [i \in 1..Len(It(ms)) |-> <<It(ms)[i], FALSE, None>>]
    \o SelectSeq([i \in 1..Len(ms.cons) |-> <<ms.cons[i].fields, TRUE, ms.cons[i].cond, ms.cons[i].kind>>],
                  LAMBDA c : c[4] = "unique")
DeclaredTwice(ms) ==
    LET T == TableDecls(ms)
        key(c) == <<c[1], c[2], c[3]>>
    IN \/ \E i, j \in 1..Len(T) : i < j /\ key(T[i]) = key(T[j])
       \/ \E i \in 1..Len(T) : key(T[i]) \in FieldDecls(ms)
RECURSIVE DeclaredTwiceAlong(_, _)
DeclaredTwiceAlong(ms, sig) ==
    (\E mn \in DOMAIN sig : DeclaredTwice(sig[mn]))
    \/ (ms # <<>> /\ LET r == Sim(Head(ms), sig) IN r.ok /\ DeclaredTwiceAlong(Tail(ms), r.sig))

Hazards == PlanOpt.haz \cup PlanInd.haz \cup PlanTwo.haz
           \cup (IF IndexNameReuse(seq, Sig0, {}) THEN {"index-name-reused-after-rename"} ELSE {})
           \cup (IF DeclaredTwiceAlong(seq, Sig0) THEN {"index-declared-twice"} ELSE {})
           \* Extend only admits ChangeMetas naming existing fields: if the OPTIMISED list has one
           \* that does not, the optimiser removed (or renamed away) the field under it, e.g.
           \* [AddField(h), ChangeMeta(unique_together, [(f, h)]), DeleteField(h)]
           \cup (IF One.ok /\ MetaNamesMissing(ListMuts(One.objs, One.list), Sig0)
                 THEN {"optimiser-removed-field-named-by-meta"} ELSE {})
           \cup (IF Two.ok /\ MetaNamesMissing(ListMuts(Two.objs, Two.list), Sig0)
                 THEN {"optimiser-removed-field-named-by-meta"} ELSE {})

OptSameData    == One.ok => DataEq(One.sig, cur)
TwoPassSameData == Two.ok => DataEq(Two.sig, cur)

RebuildsNotWorse ==
    One.ok => \A t \in DOMAIN RbOpt :
                 SumOver(RbOpt, TableClass(t)) <= SumOver(RbInd, TableClass(t))

(* a sequence made only of additions, deletions, attribute changes and Meta
   changes on one model is carried out with a single rebuild *)
MergeableKind(mu) ==
    \/ mu.k \in {"Add", "Del", "Meta"}
    \/ (mu.k = "Chg" /\ mu.ftype = None /\ "db_column" \notin DOMAIN mu.attrs)
(* ... and in general: a table is rewritten at most once per maximal run of consecutive mergeable
   mutations on its model (as the sequence is written), plus once per change that is not mergeable
   (a type change, a column rename through ChangeField) *)
RECURSIVE RunBound(_, _, _, _)
RunBound(ms, sig, prevModel, acc) ==
    IF ms = <<>> THEN acc
    ELSE LET mu == Head(ms)
             nxt == Sim(mu, sig).sig
             tbl == IF mu.m \in DOMAIN sig THEN sig[mu.m].table ELSE "?"
             \* a ChangeField that restates the type the field already has is an attribute change
             sameType == mu.k = "Chg" /\ mu.ftype # None /\ "db_column" \notin DOMAIN mu.attrs
                         /\ mu.m \in DOMAIN sig /\ mu.f \in DOMAIN sig[mu.m].fields
                         /\ sig[mu.m].fields[mu.f].ftype = mu.ftype
         IN IF MergeableKind(mu) \/ sameType
            THEN RunBound(Tail(ms), nxt, mu.m, IF mu.m = prevModel THEN acc ELSE Bump(acc, tbl, 1))
            ELSE IF mu.k = "Chg" THEN RunBound(Tail(ms), nxt, None, Bump(acc, tbl, 1))
            ELSE RunBound(Tail(ms), nxt, None, acc)
OneRebuildPerMergeableRun ==
    One.ok => LET bound == RunBound(seq, Sig0, None, EmptyDict)
              IN \A t \in DOMAIN RbOpt :
                    SumOver(RbOpt, TableClass(t)) <= SumOver(bound, TableClass(t))

C11NoDangling == NoDangling(cur, deleted)

Violations ==
    { c \in {"OptAccepted", "OptSameSig", "OptLeavesDefsIntact", "TwoPassAccepted",
             "TwoPassSameSig", "RebuildsNotWorse", "OneRebuildPerMergeableRun",
             "OptSameData", "TwoPassSameData"} :
        CASE c = "OptAccepted" -> ~OptAccepted
          [] c = "OptSameSig" -> ~OptSameSig
          [] c = "OptLeavesDefsIntact" -> ~OptLeavesDefsIntact
          [] c = "TwoPassAccepted" -> ~TwoPassAccepted
          [] c = "TwoPassSameSig" -> ~TwoPassSameSig
          [] c = "RebuildsNotWorse" -> ~RebuildsNotWorse
          [] c = "OptSameData" -> ~OptSameData
          [] c = "TwoPassSameData" -> ~TwoPassSameData
          [] OTHER -> ~OneRebuildPerMergeableRun }

(* cause attribution for violations of OptAccepted / OptSameSig *)
Cause == IF ~One.ok /\ StgRun.ok /\ SigEq(StgRun.sig, cur) THEN "regroup"
         ELSE IF ~One.ok THEN "passes"
         ELSE IF ~SigEq(One.sig, cur) /\ StgRun.ok /\ SigEq(StgRun.sig, cur) THEN "regroup"
         ELSE IF ~SigEq(One.sig, cur) THEN "passes"
         ELSE "none"

Emit == EmitRecords =>
          PrintT(<<"REC", ToJson([seq      |-> seq,
                                   start    |-> StartId,
                                   optlist  |-> ListMuts(One.objs, One.list),
                                   objsAfter |-> One.objs,
                                   optOk    |-> One.ok,
                                   twoOk    |-> Two.ok,
                                   sigEq    |-> IF One.ok THEN SigEq(One.sig, cur) ELSE FALSE,
                                   twoEq    |-> IF Two.ok THEN SigEq(Two.sig, cur) ELSE FALSE,
                                   final    |-> cur,
                                   rbOpt    |-> RbOpt,
                                   rbInd    |-> RbInd,
                                   cause    |-> Cause,
                                   hazards  |-> Hazards,
                                   viol     |-> Violations])>>)

Constraint == Emit
=============================================================================
