------------------------------ MODULE EvoGraph ------------------------------
(***************************************************************************)
(* Part 2 of the dependency-ordering specification (property C09):         *)
(* how EvolveAppTask builds the evolution graph of a project, turns it      *)
(* into batches and executes them.  Transcribes                             *)
(*   utils/graph.py : EvolutionGraph.add_evolutions, mark_evolutions_applied*)
(*                    (incl. "no nodes for this app -> also drop the        *)
(*                    anchors' dependencies"), iter_batches                 *)
(*   evolve/evolve_app_task.py : _build_evolutions_graph, _build_batches    *)
(*                    (adjacent create-model / evolution batches merge),    *)
(*                    execute_tasks (all new models of a batch first, then  *)
(*                    each task's evolutions)                               *)
(* on top of the ordering core DependencyGraph.get_ordered (same algorithm  *)
(* as Graph.tla, here in functional form).                                  *)
(*                                                                          *)
(* A project is chosen nondeterministically in Init:                        *)
(*   per app: applied evolutions, pending evolutions, new models or not;    *)
(*   app-level AFTER_EVOLUTIONS / BEFORE_EVOLUTIONS on other apps (bare app *)
(*   label = that app's __last__ / __first__ anchor);                       *)
(*   for the first pending evolution of an app: AFTER_EVOLUTIONS on a       *)
(*   specific evolution (app, index) of another app.                        *)
(* Reference semantics: the requirements in force among PENDING units; the  *)
(* executed order must respect all of them, list every pending unit once,   *)
(* and an unsatisfiable set must be reported.                               *)
(***************************************************************************)
EXTENDS Naturals, Sequences, FiniteSets, TLC, Json, IOUtils

CONSTANTS NApps,        \* number of apps (INSTALLED_APPS order = 1..NApps)
          MaxPending,   \* pending evolutions per app: 0..MaxPending
          FromFile,     \* TRUE: evaluate exactly the projects listed in IOEnv.CFG_FILE
          EmitRecords

VARIABLES applied,      \* applied[a] \in 0..1     evolutions already recorded
          pending,      \* pending[a] \in 0..MaxPending
          newm,         \* newm[a] \in BOOLEAN     the app has new models to create
          after,        \* after \subseteq Apps \X Apps : <<a, b>> a declares AFTER_EVOLUTIONS = [b]
          before,       \* before \subseteq Apps \X Apps : a declares BEFORE_EVOLUTIONS = [b]
          eafter,       \* set of <<a, <<b, i>>, k>>: the k-th pending evolution of a declares
                        \*   AFTER_EVOLUTIONS = [(b, i)]  (i = 0: the bare app label b); the exhaustive
                        \*   scope has k = 1 and i >= 1, sampled projects (FromFile) anything
          ord,          \* result of get_ordered() on the project's graph (computed once)
          exe           \* the executed order of pending units

vars == <<applied, pending, newm, after, before, eafter, ord, exe>>

Apps == 1..NApps
Pairs == { p \in Apps \X Apps : p[1] # p[2] }

(* an app that has neither applied nor pending evolutions is brand new: all its
   models are new *)
NewM(a) == newm[a] \/ (applied[a] = 0 /\ pending[a] = 0)
(* an app has a task whose work enters the graph iff it has pending evolutions
   or new models *)
InGraph(a) == pending[a] > 0 \/ NewM(a)

ProjInit == /\ applied \in [Apps -> 0..1]
        /\ pending \in [Apps -> 0..MaxPending]
        /\ newm \in [Apps -> BOOLEAN]
        /\ after \in SUBSET Pairs
        /\ before \in SUBSET Pairs
        /\ Cardinality(after) + Cardinality(before) <= 2
        \* one per-evolution declaration at most: the k-th pending evolution of a is AFTER evolution i of
        \* b (i = 0: the bare label of b).  b may be a ITSELF: a target earlier in the own SEQUENCE is
        \* redundant, a later one (or the bare own label) contradicts the SEQUENCE and must be reported.
        \* (An evolution naming itself is left out: the walk of get_ordered does not notice it.)
        /\ eafter \in SUBSET { <<a, <<b, i>>, k>> : a \in Apps, b \in Apps, i \in 0..(1 + MaxPending),
                                                   k \in 1..MaxPending }
        /\ Cardinality(eafter) <= 1
        /\ \A e \in eafter : /\ e[3] <= pending[e[1]]
                              /\ e[2][2] <= applied[e[2][1]] + pending[e[2][1]]
                              /\ ~(e[1] = e[2][1] /\ e[2][2] = applied[e[1]] + e[3])
        /\ \A a \in Apps : (applied[a] = 0 /\ pending[a] = 0) => newm[a]   \* canonical form

Next == UNCHANGED vars

---------------------------------------------------------------------------
(* Nodes.  Keys: <<"first", a>>, <<"model", a>>, <<"evo", a, i>>, <<"last", a>>.
   Insertion order = the order add_evolutions creates them, app by app. *)

RECURSIVE AppNodes(_, _)
RECURSIVE EvoNodesR(_, _, _)
EvoNodesR(a, i, n) == IF i > n THEN <<>> ELSE <<<<"evo", a, i>>>> \o EvoNodesR(a, i + 1, n)
NodesOf(a) == IF ~InGraph(a) THEN <<>>
              ELSE <<<<"first", a>>>>
                   \o (IF NewM(a) THEN <<<<"model", a>>>> ELSE <<>>)
                   \o EvoNodesR(a, applied[a] + 1, applied[a] + pending[a])
                   \o <<<<"last", a>>>>
AppNodes(a, acc) == IF a > NApps THEN acc ELSE AppNodes(a + 1, acc \o NodesOf(a))
AllNodes == AppNodes(1, <<>>)
NodeSet == { AllNodes[i] : i \in 1..Len(AllNodes) }
Index(n) == CHOOSE i \in 1..Len(AllNodes) : AllNodes[i] = n

(* pending dependencies <<node, dep>> as add_evolutions registers them *)
Chain(a) == LET ns == NodesOf(a)
            IN { <<ns[i + 1], ns[i]>> : i \in 1..(Len(ns) - 1) }
AppDeps(a) ==
    IF ~InGraph(a) THEN {}
    ELSE { <<<<"first", a>>, <<"last", p[2]>>>> : p \in { q \in after : q[1] = a } }
         \cup { <<<<"first", p[2]>>, <<"last", a>>>> : p \in { q \in before : q[1] = a } }
EvoDeps ==
    { <<<<"evo", e[1], applied[e[1]] + e[3]>>,
        IF e[2][2] = 0 THEN <<"last", e[2][1]>> ELSE <<"evo", e[2][1], e[2][2]>>>> : e \in eafter }
PendingDeps == UNION { Chain(a) \cup AppDeps(a) : a \in Apps } \cup EvoDeps

(* mark_evolutions_applied: for each task whose app has applied evolutions, drop
   every dependency that touches one of those evolutions; if the app registered
   no nodes at all, its anchors are dropped as well *)
AppliedKeys ==
    UNION { { <<"evo", a, i>> : i \in 1..applied[a] }
            \cup (IF ~InGraph(a) /\ applied[a] > 0
                  THEN { <<"first", a>>, <<"last", a>> } ELSE {}) : a \in Apps }
Deps == { d \in PendingDeps : d[1] \notin AppliedKeys /\ d[2] \notin AppliedKeys }

(* finalize(): every remaining dependency must name registered nodes *)
Dangling == { d \in Deps : d[1] \notin NodeSet \/ d[2] \notin NodeSet }

---------------------------------------------------------------------------
(* get_ordered in functional form (same algorithm as Graph.tla) *)

DepsOf(n)  == { d[2] : d \in { x \in Deps : x[1] = n } }
ReqBy(n)   == { d[1] : d \in { x \in Deps : x[2] = n } }
RECURSIVE SortByIndex(_, _)
SortByIndex(S, desc) ==
    IF S = {} THEN <<>>
    ELSE LET m == CHOOSE x \in S : \A y \in S :
                     IF desc THEN Index(x) >= Index(y) ELSE Index(x) <= Index(y)
         IN <<m>> \o SortByIndex(S \ {m}, desc)
Leaves == SortByIndex({ n \in NodeSet : ReqBy(n) = {} }, FALSE)

RECURSIVE Walk(_, _, _, _)
(* stack, visited, processed, result  ->  [ok, result] *)
Walk(stack, visited, processed, result) ==
    IF stack = <<>> THEN [ok |-> TRUE, result |-> result]
    ELSE LET node == stack[Len(stack)]
             rest == SubSeq(stack, 1, Len(stack) - 1)
         IN IF node \in visited THEN Walk(rest, visited, processed, result)
            ELSE IF node \in processed
                 THEN Walk(rest, visited \cup {node}, processed,
                           IF \E i \in 1..Len(result) : result[i] = node THEN result
                           ELSE Append(result, node))
                 ELSE IF DepsOf(node) \cap (processed \ visited) # {}
                      THEN [ok |-> FALSE, result |-> result]          \* cycle reported
                      ELSE Walk(rest \o <<node>> \o SortByIndex(DepsOf(node), TRUE),
                                visited, processed \cup {node}, result)
RECURSIVE OverLeaves(_, _)
OverLeaves(ls, result) ==
    IF ls = <<>> THEN [ok |-> Len(result) = Len(AllNodes), result |-> result]
    ELSE LET w == Walk(<<Head(ls)>>, {}, {}, result)
         IN IF w.ok THEN OverLeaves(Tail(ls), w.result) ELSE w
Ordered == IF Dangling # {} THEN [ok |-> FALSE, result |-> <<>>]
           ELSE OverLeaves(Leaves, <<>>)

---------------------------------------------------------------------------
(* iter_batches + _build_batches + execute_tasks: anchors skipped, consecutive
   nodes of a type form a batch, adjacent create-model/evolution batches are
   ONE EVOLUTIONS batch, which creates all its models first and then applies
   each task's evolutions (tasks in order of first appearance) *)

RECURSIVE TaskOrder(_, _)
TaskOrder(es, seen) == IF es = <<>> THEN <<>>
                       ELSE IF Head(es)[2] \in seen THEN TaskOrder(Tail(es), seen)
                            ELSE <<Head(es)[2]>> \o TaskOrder(Tail(es), seen \cup {Head(es)[2]})
RECURSIVE ByTask(_, _)
ByTask(tasks, es) == IF tasks = <<>> THEN <<>>
                     ELSE SelectSeq(es, LAMBDA n : n[2] = Head(tasks)) \o ByTask(Tail(tasks), es)
(* As repaired (f0a63a3 and its follow-up): when the order puts another task's evolution between two
   evolutions of one task, the batch is closed there - everything from the second one on goes into
   further batches - so that a batch, which executes one task at a time, never reorders them.
   As found there was one batch for the whole run (SplitInterleaved = FALSE). *)
SplitInterleaved == TRUE
(* batches of one EVOLUTIONS run: a model creation joins the batch being built; an evolution whose
   task is already in that batch, with another task's evolution in-between, starts the next batch *)
RECURSIVE Build(_, _, _)
Build(us, cur, acc) ==
    IF us = <<>> THEN Append(acc, cur)
    ELSE LET u == Head(us)
         IN IF u[1] = "model" THEN Build(Tail(us), [cur EXCEPT !.models = Append(@, u)], acc)
            ELSE LET prevT == IF cur.evos = <<>> THEN 0 ELSE cur.evos[Len(cur.evos)][2]
                     inCur == \E i \in 1..Len(cur.evos) : cur.evos[i][2] = u[2]
                 IN IF SplitInterleaved /\ u[2] # prevT /\ inCur
                    THEN Build(Tail(us), [models |-> <<>>, evos |-> <<u>>], Append(acc, cur))
                    ELSE Build(Tail(us), [cur EXCEPT !.evos = Append(@, u)], acc)
(* a batch creates all its models first and then applies its evolutions one task at a time *)
RECURSIVE RunBatches(_)
RunBatches(bs) == IF bs = <<>> THEN <<>>
                  ELSE Head(bs).models \o ByTask(TaskOrder(Head(bs).evos, {}), Head(bs).evos)
                       \o RunBatches(Tail(bs))
(* with evolutions only there is a single run of EVOLUTIONS batches *)
ExecOf(result) ==
    LET units == SelectSeq(result, LAMBDA n : n[1] \in {"model", "evo"})
    IN RunBatches(Build(units, [models |-> <<>>, evos |-> <<>>], <<>>))

(* C18 across evolutions and apps: one AppMutator run - hence one rebuild of a table for all its
   mergeable changes - per BATCH in which a task has evolutions *)
BatchesOf(result) ==
    LET units == SelectSeq(result, LAMBDA n : n[1] \in {"model", "evo"})
    IN Build(units, [models |-> <<>>, evos |-> <<>>], <<>>)
NBatches(bs, a) == Cardinality({ i \in 1..Len(bs) : \E j \in 1..Len(bs[i].evos) : bs[i].evos[j][2] = a })
(* the evolutions of task a are contiguous in the order, apart from model creations *)
Contiguous(result, a) ==
    LET es == SelectSeq(result, LAMBDA n : n[1] = "evo")
    IN \A i, j \in 1..Len(es) : (i < j /\ es[i][2] = a /\ es[j][2] = a) =>
          \A k \in i..j : es[k][2] = a

(* projects sampled by the harness beyond the exhaustive bound *)
FileCfgs == JsonDeserialize(IOEnv.CFG_FILE)
PairSet(s) == { <<s[i][1], s[i][2]>> : i \in 1..Len(s) }
FileInit == \E k \in 1..Len(FileCfgs) :
    LET c == FileCfgs[k] IN
    /\ applied = [a \in Apps |-> c.applied[a]]
    /\ pending = [a \in Apps |-> c.pending[a]]
    /\ newm = [a \in Apps |-> c.newm[a]]
    /\ after = PairSet(c.after)
    /\ before = PairSet(c.before)
    /\ eafter = { <<c.eafter[i][1], <<c.eafter[i][2][1], c.eafter[i][2][2]>>, c.eafter[i][3]>> : i \in 1..Len(c.eafter) }

Init == /\ (IF FromFile THEN FileInit ELSE ProjInit)
        /\ ord = Ordered
        /\ exe = IF ord.ok THEN ExecOf(ord.result) ELSE <<>>
Spec == Init /\ [][Next]_vars
Executed == exe

---------------------------------------------------------------------------
(* Reference semantics: the requirements in force among pending units *)

PendingUnits == { n \in NodeSet : n[1] \in {"model", "evo"} }
UnitsOfApp(a) == { n \in PendingUnits : n[2] = a }
SeqOrder(a) ==       \* sequence order within an app (new models, then evolutions in order)
    LET ns == SelectSeq(NodesOf(a), LAMBDA n : n[1] \in {"model", "evo"})
    IN { <<ns[j], ns[i]>> : i \in 1..Len(ns), j \in 1..Len(ns) } \cap
       { p \in PendingUnits \X PendingUnits :
           \E i, j \in 1..Len(ns) : i < j /\ ns[i] = p[2] /\ ns[j] = p[1] }
Requirements ==      \* <<x, y>> : x must be executed after y
    UNION { SeqOrder(a) : a \in Apps }
    \cup UNION { UnitsOfApp(p[1]) \X UnitsOfApp(p[2]) : p \in after }
    \cup UNION { UnitsOfApp(p[2]) \X UnitsOfApp(p[1]) : p \in before }
    \* the declaring evolution and every later one of its app, after the named evolution
    \* (or, for a bare app label, after everything of that app)
    \cup UNION { { n \in UnitsOfApp(e[1]) : n[1] = "evo" /\ n[3] >= applied[e[1]] + e[3] }
                 \X (IF e[2][2] = 0 THEN UnitsOfApp(e[2][1])
                     ELSE IF e[2][2] > applied[e[2][1]] THEN { <<"evo", e[2][1], e[2][2]>> } ELSE {})
                 : e \in eafter }

RECURSIVE Closure(_, _)
Closure(R, k) == IF k = 0 THEN R
                 ELSE Closure(R \cup UNION { { <<p[1], q[2]>> : q \in { r \in R : r[1] = p[2] } }
                                             : p \in R }, k - 1)
Unsatisfiable == \E n \in PendingUnits : <<n, n>> \in Closure(Requirements, Cardinality(PendingUnits))

Pos(n) == CHOOSE i \in 1..Len(Executed) : Executed[i] = n
Respected == \A r \in Requirements : Pos(r[1]) > Pos(r[2])
EveryUnitOnce == /\ Len(Executed) = Cardinality(PendingUnits)
                 /\ { Executed[i] : i \in 1..Len(Executed) } = PendingUnits

(* C09 on the transcription *)
InvRespected == (ord.ok /\ ~Unsatisfiable) => (EveryUnitOnce /\ Respected)
InvReported  == Unsatisfiable => ~ord.ok
InvNoFalseRejection == (~Unsatisfiable /\ Dangling = {}) => ord.ok

(* C18: a task whose evolutions are not interleaved with another task's gets ONE batch *)
InvOneBatchUnlessInterleaved ==
    ord.ok => \A a \in Apps : (pending[a] > 0 /\ Contiguous(ord.result, a)) => NBatches(BatchesOf(ord.result), a) = 1

Violations == { c \in {"InvRespected", "InvReported", "InvNoFalseRejection"} :
                  CASE c = "InvRespected" -> ~InvRespected
                    [] c = "InvReported" -> ~InvReported
                    [] OTHER -> ~InvNoFalseRejection }

Emit == (EmitRecords /\ TLCGet("level") = 1) =>
          PrintT(<<"REC", ToJson([napps |-> NApps, applied |-> applied, pending |-> pending,
                                   newm |-> newm, after |-> after, before |-> before,
                                   eafter |-> eafter,
                                   ok |-> ord.ok,
                                   executed |-> exe,
                                   nbatches |-> IF ord.ok THEN [a \in Apps |-> NBatches(BatchesOf(ord.result), a)]
                                                ELSE [a \in Apps |-> 0],
                                   unsat |-> Unsatisfiable,
                                   dangling |-> Dangling # {},
                                   viol |-> Violations])>>)
Constraint == Emit
=============================================================================
