------------------------------- MODULE Graph -------------------------------
(***************************************************************************)
(* Part 1 of the dependency-ordering specification (property C09).        *)
(*                                                                         *)
(* A line-by-line transcription of                                        *)
(*   django_evolution/utils/graph.py : DependencyGraph.get_leaf_nodes()   *)
(*                                     DependencyGraph.get_ordered()      *)
(* executed one `stack.pop()` per step, next to the three-line reference  *)
(* semantics "a topological order that lists every node once" / "a cycle  *)
(* is reported".  Init chooses ANY directed graph on Nodes, so TLC checks *)
(* the algorithm for every dependency configuration in scope.             *)
(*                                                                         *)
(* Node ids are insert_index + 1.  <<n, d>> \in g means "n depends on d"  *)
(* (d must be ordered before n).                                          *)
(***************************************************************************)
EXTENDS Naturals, Sequences, FiniteSets, TLC, Json

CONSTANTS N,             \* number of nodes
          DetectCycles,  \* TRUE: the algorithm as repaired (raises on a cycle);
                         \* FALSE: the algorithm as originally found
          EmitRecords    \* TRUE: print one prediction record per graph

VARIABLES g, leaves, li, stack, visited, processed, result, pc

vars == <<g, leaves, li, stack, visited, processed, result, pc>>

Nodes == 1..N
Edges == { e \in Nodes \X Nodes : e[1] # e[2] }

Deps(n)  == { e[2] : e \in { x \in g : x[1] = n } }
ReqBy(n) == { e[1] : e \in { x \in g : x[2] = n } }

(* sorted(S, key=insert_index) and its reverse, as sequences *)
RECURSIVE SortAsc(_)
SortAsc(S) == IF S = {} THEN <<>>
              ELSE LET m == CHOOSE x \in S : \A y \in S : x <= y
                   IN <<m>> \o SortAsc(S \ {m})
RECURSIVE SortDesc(_)
SortDesc(S) == IF S = {} THEN <<>>
               ELSE LET m == CHOOSE x \in S : \A y \in S : x >= y
                    IN <<m>> \o SortDesc(S \ {m})

InSeq(x, s) == \E i \in 1..Len(s) : s[i] = x
SeqSet(s)   == { s[i] : i \in 1..Len(s) }

---------------------------------------------------------------------------
(* Reference semantics *)

RECURSIVE Reach(_, _)
Reach(S, k) == IF k = 0 THEN S
               ELSE Reach(S \cup UNION { Deps(n) : n \in S }, k - 1)
Cyclic == \E n \in Nodes : n \in Reach(Deps(n), N)

IsPermutation(s) == Len(s) = N /\ SeqSet(s) = Nodes
IsTopological(s) == \A i, j \in 1..Len(s) :
                       (<<s[i], s[j]>> \in g) => j < i

---------------------------------------------------------------------------
(* The algorithm *)

Init == /\ g \in SUBSET Edges
        /\ leaves = SortAsc({ n \in Nodes : ReqBy(n) = {} })   \* get_leaf_nodes()
        /\ li = 1
        /\ stack = <<>>
        /\ visited = {}
        /\ processed = {}
        /\ result = <<>>
        /\ pc = "leaf"

(* for leaf_node in self.get_leaf_nodes(): stack=[leaf]; visited=set(); processed=set() *)
StartLeaf == /\ pc = "leaf" /\ li <= Len(leaves)
             /\ stack' = <<leaves[li]>>
             /\ visited' = {} /\ processed' = {}
             /\ pc' = "loop"
             /\ UNCHANGED <<g, leaves, li, result>>

(* one iteration of `while stack:` *)
Pop == /\ pc = "loop" /\ stack # <<>>
       /\ LET node == stack[Len(stack)]
              rest == SubSeq(stack, 1, Len(stack) - 1)
          IN IF node \in visited
             THEN /\ stack' = rest
                  /\ UNCHANGED <<visited, processed, result, pc>>
             ELSE IF node \in processed
                  THEN /\ visited' = visited \cup {node}
                       /\ stack' = rest
                       /\ result' = IF InSeq(node, result) THEN result
                                    ELSE Append(result, node)
                       /\ UNCHANGED <<processed, pc>>
                  ELSE IF DetectCycles /\ (Deps(node) \cap (processed \ visited)) # {}
                       THEN /\ pc' = "error"       \* raise: dependency on an ancestor
                            /\ UNCHANGED <<stack, visited, processed, result>>
                       ELSE /\ stack' = rest \o <<node>> \o SortDesc(Deps(node))
                            /\ processed' = processed \cup {node}
                            /\ UNCHANGED <<visited, result, pc>>
       /\ UNCHANGED <<g, leaves, li>>

(* `while stack:` falls through; next leaf *)
EndLeaf == /\ pc = "loop" /\ stack = <<>>
           /\ li' = li + 1 /\ pc' = "leaf"
           /\ UNCHANGED <<g, leaves, stack, visited, processed, result>>

(* the for loop is exhausted: return result (or, repaired, raise when nodes are missing) *)
Finish == /\ pc = "leaf" /\ li > Len(leaves)
          /\ pc' = IF DetectCycles /\ Len(result) # N THEN "error" ELSE "done"
          /\ UNCHANGED <<g, leaves, li, stack, visited, processed, result>>

Next == StartLeaf \/ Pop \/ EndLeaf \/ Finish

Spec == Init /\ [][Next]_vars

---------------------------------------------------------------------------
(* Properties *)

Terminal == pc \in {"done", "error"}

(* C09: the returned order respects every requirement and lists every unit once *)
InvAcyclicOK == (pc = "done" /\ ~Cyclic) => (IsTopological(result) /\ IsPermutation(result))
(* C09: requirements that cannot all be met are reported, never silently broken *)
InvCyclicReported == (pc = "done") => ~Cyclic
(* an error is only ever reported for a genuine cycle: no false rejection *)
InvErrorOnlyIfCyclic == (pc = "error") => Cyclic

(* loop invariants of the algorithm, useful when reading counterexamples *)
InvVisitedProcessed == visited \subseteq processed
InvResultNoDup == \A i, j \in 1..Len(result) : result[i] = result[j] => i = j
InvResultSoFarTopological == (~Cyclic) => IsTopological(result)

TypeOK == /\ g \subseteq Edges
          /\ li \in 1..(N + 1)
          /\ visited \subseteq Nodes /\ processed \subseteq Nodes
          /\ pc \in {"leaf", "loop", "done", "error"}

(* Termination within a bound (checked as an invariant on the level) *)
InvBoundedSteps == TLCGet("level") <= 4 * N * N + 4 * N + 4

---------------------------------------------------------------------------
(* Prediction records for the conformance replay: one per graph *)

RECURSIVE SetToSortedSeq(_)
SetToSortedSeq(S) ==
  IF S = {} THEN <<>>
  ELSE LET m == CHOOSE x \in S : \A y \in S :
                    (x[1] < y[1]) \/ (x[1] = y[1] /\ x[2] <= y[2])
       IN <<m>> \o SetToSortedSeq(S \ {m})

Emit == (Terminal /\ EmitRecords) =>
          PrintT(<<"REC", ToJson([n |-> N,
                                   g |-> SetToSortedSeq(g),
                                   outcome |-> pc,
                                   order |-> result,
                                   cyclic |-> Cyclic])>>)

Constraint == Emit
=============================================================================
