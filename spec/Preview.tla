------------------------------ MODULE Preview ------------------------------
(***************************************************************************)
(* The SQL preview and the determinism of the lowering (property C14).     *)
(*                                                                         *)
(* A pending upgrade is a sequence of lowering steps.  Each step either    *)
(* emits a fixed statement, or iterates over a SET of entries (the         *)
(* unique_together / index_together entries to drop or create, see          *)
(* db/common.py change_meta_unique_together / change_meta_index_together)   *)
(* and emits one statement per entry.  `evolve --sql` and `evolve           *)
(* --execute` run the lowering in two separate computations (prepare()      *)
(* versus batch building), possibly in separate processes with different    *)
(* hash seeds: every set iteration is an independent nondeterministic       *)
(* choice of order unless the code sorts.                                   *)
(*                                                                         *)
(* Parameters are substituted into the preview by utils/sql.py run_sql():   *)
(* statement % tuple(quote_sql_param(p)), where strings are wrapped in      *)
(* single quotes with ' escaped as \' and everything else is left as is.    *)
(***************************************************************************)
EXTENDS Naturals, Sequences, FiniteSets, TLC

CONSTANTS SortedIteration,    \* TRUE: set-valued steps are lowered in sorted order (as repaired)
          CloneIsolated,      \* TRUE: the preview works on a private copy of the tracked
                              \* database state; FALSE: what it records leaks into the state
                              \* the execution is generated from
          OrderedLookup,      \* TRUE: an index looked up by its column list is the FIRST one recorded
                              \* for the table, in the order the database reports its indexes (as
                              \* the code is); FALSE: the tracked state lists a table's indexes in
                              \* an order that depends on the process (a set)
          NormalizeWhenCapturing,   \* TRUE: parameters are converted to database-native values
                              \* (booleans to 1 / 0) when the statements are PREPARED, whatever the run does with
                              \* them (as the code is: SQLExecutor._prepare_sql); FALSE: only when they are executed,
                              \* so that a capture-only run substitutes the raw Python value
          PreviewPerBatch     \* TRUE: the preview is generated batch by batch, like the execution
                              \* (as repaired, bb71b75); FALSE: per task as a whole (as found)

VARIABLES steps,   \* the pending upgrade: sequence of [kind, entries]
          cut,     \* TRUE: a batch boundary (another app's evolution or a migration that has to run
                   \* in-between) separates the first step from the rest of the task
          preview, \* statements computed by the preview run
          exec     \* statements computed by the execution run

vars == <<steps, cut, preview, exec>>

Entries == {1, 2, 3}
(* "index": CREATE INDEX unless the tracked database state already has it; the step
   records the index in the state it was generated from *)
(* "merge": an operation that is merged with adjacent ones of the same generation unit into
   one table rebuild (one statement standing for the rebuild) *)
StepKinds == { [kind |-> "fixed", entries |-> {}], [kind |-> "index", entries |-> {}],
               [kind |-> "merge", entries |-> {}] }
             \cup { [kind |-> "set", entries |-> S] : S \in (SUBSET Entries) \ {{}} }
             \* "param": a statement with one parameter (the initial value of a column that is filled);
             \* entries = {class of the value}: 1 a string, 2 an integer, 3 a boolean.  What the statement
             \* shows / binds is the database-native value: a boolean becomes an integer
             \cup { [kind |-> "param", entries |-> {c}] : c \in Entries }
             \* "lookup": DROP INDEX of the index found by its column list, when `entries` are the
             \* indexes the table has over exactly those columns (db_index=True next to an
             \* index_together / Meta.indexes entry over the same single column): ONE statement,
             \* naming whichever candidate the lookup meets first
             \cup { [kind |-> "lookup", entries |-> S] : S \in { T \in SUBSET Entries : Cardinality(T) >= 2 } }

RECURSIVE Perms(_)
Perms(S) == IF S = {} THEN { <<>> }
            ELSE UNION { { <<x>> \o p : p \in Perms(S \ {x}) } : x \in S }
RECURSIVE Sorted(_)
Sorted(S) == IF S = {} THEN <<>>
             ELSE LET m == CHOOSE x \in S : \A y \in S : x <= y IN <<m>> \o Sorted(S \ {m})

(* all statement sequences one lowering of a step may produce; `tracked`: indexes the
   database state has at this point *)
Native(c) == IF c = 3 THEN 2 ELSE c
LowerStep(i, st, tracked, capturing) ==
    IF st.kind = "fixed" THEN { << <<i, 0>> >> }
    ELSE IF st.kind = "param"
         THEN LET c == CHOOSE x \in st.entries : TRUE
              IN { << <<i, IF capturing /\ ~NormalizeWhenCapturing THEN c ELSE Native(c)>> >> }
    ELSE IF st.kind = "index" THEN (IF i \in tracked THEN { <<>> } ELSE { << <<i, 0>> >> })
    ELSE IF st.kind = "lookup"
         THEN (IF OrderedLookup THEN { << <<i, Sorted(st.entries)[1]>> >> }
               ELSE { << <<i, c>> >> : c \in st.entries })
    ELSE IF SortedIteration THEN { [k \in 1..Cardinality(st.entries) |-> <<i, Sorted(st.entries)[k]>>] }
    ELSE { [k \in 1..Len(p) |-> <<i, p[k]>>] : p \in Perms(st.entries) }

RECURSIVE LowerAll(_, _, _, _)
LowerAll(i, ss, tracked, capturing) ==
    IF ss = <<>> THEN { <<>> }
    ELSE { a \o b : a \in LowerStep(i, Head(ss), tracked, capturing),
                    b \in LowerAll(i + 1, Tail(ss), tracked, capturing) }
(* indexes a lowering run records in the state it works on *)
Recorded(ss) == { i \in 1..Len(ss) : ss[i].kind = "index" }

(* generation in units: with a boundary after the first step the two parts are lowered
   separately (two adjacent merge steps then give two rebuilds instead of one) *)
MergePairs(ss) == Len(ss) = 2 /\ ss[1].kind = "merge" /\ ss[2].kind = "merge"
LowerUnits(ss, tracked, split, capturing) ==
    IF split /\ Len(ss) = 2
    THEN { a \o b : a \in LowerAll(1, <<ss[1]>>, tracked, capturing),
                    b \in LowerAll(2, <<ss[2]>>, tracked, capturing) }
    ELSE IF MergePairs(ss) THEN { << <<1, 2>> >> }        \* one rebuild for both
    ELSE LowerAll(1, ss, tracked, capturing)

Init == /\ steps \in { <<a>> : a \in StepKinds } \cup { <<a, b>> : a \in StepKinds, b \in StepKinds }
        /\ cut \in BOOLEAN
        \* prepare() generates the preview first, on a clone of the state; batch building then
        \* generates what is executed, on the evolver's own state
        /\ preview \in LowerUnits(steps, {}, cut /\ PreviewPerBatch, TRUE)
        /\ exec \in LowerUnits(steps, IF CloneIsolated THEN {} ELSE Recorded(steps), cut, FALSE)
Next == UNCHANGED vars
Spec == Init /\ [][Next]_vars

(* C14 *)
PreviewEqualsExecution == preview = exec
LoweringDeterministic == Cardinality(LowerUnits(steps, {}, cut, FALSE)) = 1
(* the hazard the replay looks for: a set-valued step with two or more entries *)
HasMultiEntrySet == \E i \in 1..Len(steps) : steps[i].kind # "param" /\ Cardinality(steps[i].entries) >= 2
(* the hazard of a capture-only run: a boolean parameter *)
HasBooleanParameter == \E i \in 1..Len(steps) : steps[i].kind = "param" /\ steps[i].entries = {3}
NondeterminismOnlyFromSets == (~LoweringDeterministic) => HasMultiEntrySet
=============================================================================
