---------------------------- MODULE MC_Evolver ----------------------------
EXTENDS Evolver
OneApp  == <<"a1">>
TwoApps == <<"a1", "a2">>
(* a1 gains a second model group at version 1; its evolution 2 targets that group *)
IntroA1 == [a \in {"a1", "a2"} |-> IF a = "a1" THEN 1 ELSE 0]
GrpA1   == [a \in {"a1", "a2"} |-> [i \in 1..MaxVer |-> IF a = "a1" /\ i = 2 THEN 2 ELSE 1]]
NoIntro == [a \in {"a1", "a2"} |-> 0]
AllG1   == [a \in {"a1", "a2"} |-> [i \in 1..MaxVer |-> 1]]
=============================================================================
