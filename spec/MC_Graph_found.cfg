\* The algorithm as originally found (no cycle detection): InvCyclicReported fails.
SPECIFICATION Spec
CONSTANTS
  N = 4
  DetectCycles = FALSE
  EmitRecords = FALSE
INVARIANT TypeOK
INVARIANT InvAcyclicOK
INVARIANT InvCyclicReported
INVARIANT InvVisitedProcessed
INVARIANT InvResultNoDup
