\* The code as found: named deviations enabled, faults at every statement. All properties hold.
SPECIFICATION Spec
CONSTANTS
  Apps <- TwoApps
  MaxVer = 2
  MaxRuns = 3
  NStmt = 2
  InjectFaults = TRUE
  AllowDeviations = TRUE
  Intro <- IntroA1
  Grp <- GrpA1
INVARIANT TypeOK
INVARIANT Converged
INVARIANT RerunIsNoop
INVARIANT FailedRunIsInvisible
INVARIANT RejectTouchesNothing
INVARIANT ExecuteOnlyIfSimulatesToTarget
INVARIANT ExecutedAtMostOnce
INVARIANT RecordedAtMostOnce
INVARIANT RecordedOnlyWithTables
INVARIANT RecordedWithinVersions
INVARIANT FreshRecordsWithoutExecuting
INVARIANT EvolvingAtMostOnce
INVARIANT EvolvingBeforeAnyChange
INVARIANT ExactlyOneTerminalSignal
INVARIANT EvolvedIffSaved
INVARIANT PairedUnlessFailed
INVARIANT EndSignalsTruthful
INVARIANT NoTerminalWithoutEvolving
INVARIANT NoPartialAtRest
