------------------------------ MODULE CrossApp ------------------------------
(***************************************************************************)
(* Relations between models of TWO apps at the level of the database       *)
(* (property C01, "optionally across two apps").                            *)
(*                                                                         *)
(* Two apps with three models, two of which carry the SAME name:            *)
(*     alpha.Tag, alpha.Item, beta.Tag                                      *)
(* An evolution adds / deletes relation fields (ForeignKey, OneToOneField,  *)
(* ManyToManyField) between any two of them, the model itself included.     *)
(*                                                                         *)
(* What a relation field is in the database (Django's own rules):           *)
(*   FK / O2O : a column <field>_id in the source table, referencing the    *)
(*              target table's id (O2O: unique)                             *)
(*   M2M      : a table <source table>_<field> with two columns.  They are  *)
(*              named after the two models' lower-cased CLASS names,        *)
(*              <source>_id and <target>_id - unless those names are equal  *)
(*              (a relation to itself, OR to a model of the same name in    *)
(*              another app), in which case they are from_<name>_id and     *)
(*              to_<name>_id.                                               *)
(* The design: applying the mutations one by one gives the schema a fresh   *)
(* creation of the final models gives (SchemaIsFresh).                      *)
(***************************************************************************)
EXTENDS Naturals, Sequences, FiniteSets, TLC, Json

CONSTANTS MaxLen, EmitRecords

VARIABLES rels,   \* relation fields: set of [src, name, kind, dst]
          db,     \* what the mutations applied so far made of the database
          seq

vars == <<rels, db, seq>>

Models == { <<"alpha", "Tag">>, <<"alpha", "Item">>, <<"beta", "Tag">> }
Kinds == {"FK", "O2O", "M2M"}
FieldNames == {"r1", "r2"}

Lower(n) == IF n = "Tag" THEN "tag" ELSE "item"
TableOf(m) == m[1] \o "_" \o Lower(m[2])

(* the database objects of one relation field *)
Objects(r) ==
    IF r.kind = "M2M"
    THEN LET t == TableOf(r.src) \o "_" \o r.name
             same == r.src[2] = r.dst[2]            \* same class name, whatever the app
             c1 == IF same THEN "from_" \o Lower(r.src[2]) \o "_id" ELSE Lower(r.src[2]) \o "_id"
             c2 == IF same THEN "to_" \o Lower(r.dst[2]) \o "_id" ELSE Lower(r.dst[2]) \o "_id"
         IN { [kind |-> "table", table |-> t],
              [kind |-> "fk", table |-> t, col |-> c1, to |-> TableOf(r.src)],
              [kind |-> "fk", table |-> t, col |-> c2, to |-> TableOf(r.dst)],
              [kind |-> "unique", table |-> t, cols |-> <<c1, c2>>] }
    ELSE { [kind |-> "fk", table |-> TableOf(r.src), col |-> r.name \o "_id", to |-> TableOf(r.dst)] }
         \cup (IF r.kind = "O2O"
               THEN { [kind |-> "unique", table |-> TableOf(r.src), cols |-> <<r.name \o "_id">>] }
               ELSE {})

Fresh(rs) == UNION { Objects(r) : r \in rs }

Init == rels = {} /\ db = {} /\ seq = <<>>

AddRel(src, name, kind, dst) ==
    /\ \A r \in rels : ~(r.src = src /\ r.name = name)
    /\ LET r == [src |-> src, name |-> name, kind |-> kind, dst |-> dst]
       IN /\ rels' = rels \cup {r}
          /\ db' = db \cup Objects(r)
          /\ seq' = Append(seq, [k |-> "add", src |-> src, name |-> name, kind |-> kind, dst |-> dst])

DelRel(r) ==
    /\ r \in rels
    /\ rels' = rels \ {r}
    /\ db' = db \ Objects(r)
    /\ seq' = Append(seq, [k |-> "del", src |-> r.src, name |-> r.name, kind |-> r.kind, dst |-> r.dst])

Next == /\ Len(seq) < MaxLen
        /\ \/ \E src \in Models, name \in FieldNames, kind \in Kinds, dst \in Models :
                 AddRel(src, name, kind, dst)
           \/ \E r \in rels : DelRel(r)

Spec == Init /\ [][Next]_vars

SchemaIsFresh == db = Fresh(rels)
(* two relation fields never claim the same table or column *)
NoClash == \A r1, r2 \in rels : r1 # r2 =>
              { o \in Objects(r1) : o.kind # "unique" } \cap { o \in Objects(r2) : o.kind # "unique" } = {}

RECURSIVE SetToSeq(_)
SetToSeq(S) == IF S = {} THEN <<>> ELSE LET x == CHOOSE y \in S : TRUE IN <<x>> \o SetToSeq(S \ {x})

Emit == (EmitRecords /\ seq # <<>>) =>
          PrintT(<<"REC", ToJson([seq |-> seq, rels |-> SetToSeq(rels), fresh |-> SetToSeq(Fresh(rels))])>>)
Constraint == Emit
=============================================================================
