------------------------------- MODULE Route -------------------------------
(***************************************************************************)
(* Several databases and a router (property C16).                          *)
(*                                                                         *)
(* One app with models A, B, C; a router allows every model on one of two   *)
(* databases or on BOTH (allow_migrate true on both; writes go to `default`) *)
(* (Init: every assignment).  The app gains one evolution  *)
(* (any sequence of <= MaxLen mutations over the models), then each         *)
(* database is evolved in turn (Init: either order).                        *)
(*                                                                         *)
(* Evolving database d must apply exactly the mutations of models routed to *)
(* d, skip the others without failing, record the evolution on d, and leave *)
(* the other database alone.                                                *)
(***************************************************************************)
EXTENDS Naturals, Sequences, FiniteSets, TLC, Json

CONSTANTS MaxLen, EmitRecords

VARIABLES route,     \* model name -> "default" | "other" | "both"
          catchAll,  \* TRUE: db_for_read / db_for_write answer "default" for every model the router has
                     \* no rule for, Django Evolution's own Version / Evolution models included (the
                     \* primary/replica pattern of Django's documentation); FALSE: they answer None.
                     \* What is recorded about evolving database d is written on d either way.
          evo,       \* the evolution: sequence of mutations
          target,    \* the models after the evolution (what models.py says)
          order,     \* databases in the order they are evolved
          oneProc,   \* TRUE: both databases are evolved by ONE process, one Evolver after the other (the
                     \* evolution modules, and the mutation objects in them, are shared); FALSE: a process
                     \* each.  What happens to either database is the same.
          db,        \* database -> model name -> [fields, maxlen]  (tables)
          sig,       \* database -> set of model names in the stored signature
          recorded,  \* database -> has the evolution been recorded as applied
          phase, done

vars == <<route, catchAll, evo, target, order, oneProc, db, sig, recorded, phase, done>>

Models == {"A", "B", "C"}
DBs == {"default", "other"}
NewName(m) == m \o "2"
Fresh == [fields |-> {"id", "name"}, maxlen |-> 20]

Mutations == { [k |-> "add", m |-> m] : m \in Models }        \* AddField(m, 'x', null=True)
             \cup { [k |-> "chg", m |-> m] : m \in Models }    \* ChangeField(m, 'name', max_length=30)
             \cup { [k |-> "ren", m |-> m] : m \in Models }    \* RenameModel(m, m2, db_table=...)
             \cup { [k |-> "del", m |-> m] : m \in Models }    \* DeleteModel(m)
             \cup { [k |-> "delapp", m |-> "*"] }                 \* DeleteApplication(): on each database, the
                                                                 \* models of the app that live there
             \cup { [k |-> "add", m |-> NewName(m)] : m \in Models }
             \cup { [k |-> "chg", m |-> NewName(m)] : m \in Models }

(* a renamed model stays on the database of the model it was *)
Base(m) == IF m \in Models THEN m ELSE SubSeq(m, 1, 1)
RouteOf(r, m) == r[Base(m)]

Apply(ms, mu) ==
    CASE mu.k = "add" -> [ms EXCEPT ![mu.m].fields = @ \cup {"x"}]
      [] mu.k = "chg" -> [ms EXCEPT ![mu.m].maxlen = 30]
      [] mu.k = "ren" -> [n \in ((DOMAIN ms) \ {mu.m}) \cup {NewName(mu.m)} |->
                            IF n = NewName(mu.m) THEN ms[mu.m] ELSE ms[n]]
      [] mu.k = "delapp" -> [n \in {} |-> Fresh]
      [] OTHER -> [n \in (DOMAIN ms) \ {mu.m} |-> ms[n]]
Valid(ms, mu) ==
    /\ (mu.k = "delapp" => DOMAIN ms # {})
    /\ (mu.k # "delapp" => mu.m \in DOMAIN ms)
    /\ (mu.k = "add" => "x" \notin ms[mu.m].fields)
    /\ (mu.k = "chg" => ms[mu.m].maxlen = 20)
    /\ (mu.k = "ren" => mu.m \in Models)

RECURSIVE ApplyAll(_, _)
ApplyAll(ms, seq) == IF seq = <<>> THEN ms ELSE ApplyAll(Apply(ms, Head(seq)), Tail(seq))

Only(ms, r, d) == [n \in { x \in DOMAIN ms : RouteOf(r, x) \in {d, "both"} } |-> ms[n]]
All0 == [m \in Models |-> Fresh]

Routes == DBs \cup {"both"}
On(r, m, d) == RouteOf(r, m) = d \/ RouteOf(r, m) = "both"      \* schema of m is allowed on d

Init == /\ route \in [Models -> Routes]
        /\ catchAll \in BOOLEAN
        /\ oneProc \in BOOLEAN
        /\ order \in { <<"default", "other">>, <<"other", "default">> }
        /\ evo = <<>> /\ target = All0
        /\ db = [d \in DBs |-> Only(All0, route, d)]
        /\ sig = [d \in DBs |-> { m \in Models : route[m] \in {d, "both"} }]
        /\ recorded = [d \in DBs |-> FALSE]
        /\ phase = "build" /\ done = <<>>

Extend(mu) == /\ phase = "build" /\ Len(evo) < MaxLen /\ Valid(target, mu)
              /\ evo' = Append(evo, mu) /\ target' = Apply(target, mu)
              /\ UNCHANGED <<route, catchAll, order, oneProc, db, sig, recorded, phase, done>>
Deploy == /\ phase = "build" /\ evo # <<>> /\ phase' = "evolve"
          /\ UNCHANGED <<route, catchAll, evo, target, order, oneProc, db, sig, recorded, done>>

(* the mutations that concern database d, in order *)
RECURSIVE Mine(_, _, _)
Mine(seq, r, d) == IF seq = <<>> THEN <<>>
                   ELSE (IF Head(seq).k = "delapp" \/ RouteOf(r, Head(seq).m) \in {d, "both"}
                         THEN <<Head(seq)>> ELSE <<>>)
                        \o Mine(Tail(seq), r, d)

Evolve(d) == /\ phase = "evolve" /\ Len(done) < Len(order) /\ order[Len(done) + 1] = d
             /\ db' = [db EXCEPT ![d] = ApplyAll(@, Mine(evo, route, d))]
             /\ sig' = [sig EXCEPT ![d] = DOMAIN db'[d]]
             /\ recorded' = [recorded EXCEPT ![d] = TRUE]
             /\ done' = Append(done, d)
             /\ UNCHANGED <<route, catchAll, evo, target, order, oneProc, phase>>

Next == (\E mu \in Mutations : Extend(mu)) \/ Deploy \/ (\E d \in DBs : Evolve(d))
Spec == Init /\ [][Next]_vars

---------------------------------------------------------------------------
(* C16 *)
OnlyRoutedModels == \A d \in DBs : /\ \A n \in DOMAIN db[d] : RouteOf(route, n) \in {d, "both"}
                                   /\ \A n \in sig[d] : RouteOf(route, n) \in {d, "both"}
OtherDatabaseUntouched ==
    [][ \A d \in DBs : Evolve(d) => \A o \in DBs \ {d} : db'[o] = db[o] /\ sig'[o] = sig[o]
                                                         /\ recorded'[o] = recorded[o] ]_vars
(* once both databases were evolved, together they hold exactly the target models *)
Converged == (Len(done) = 2) =>
                \A d \in DBs : db[d] = Only(target, route, d) /\ sig[d] = DOMAIN db[d]

Emit == (EmitRecords /\ phase = "evolve" /\ Len(done) = 2) =>
          PrintT(<<"REC", ToJson([route |-> route, catchAll |-> catchAll, oneProc |-> oneProc, evo |-> evo, order |-> order,
                                   expected |-> [d \in DBs |-> [n \in DOMAIN db[d] |->
                                        [fields |-> db[d][n].fields, maxlen |-> db[d][n].maxlen]]]])>>)
Constraint == Emit
=============================================================================
