#!/usr/bin/env python3
"""Validate MANIFEST.json and evidence/*.json against the task schemas (uses the tooling venv)."""
import glob, json, sys
import jsonschema
ok = True
m = json.load(open('MANIFEST.json'))
jsonschema.validate(m, json.load(open('/root/.vp/MANIFEST.schema.json')))
es = json.load(open('/root/.vp/EVIDENCE.schema.json'))
for f in sorted(glob.glob('evidence/*.json')):
    try:
        jsonschema.validate(json.load(open(f)), es)
    except jsonschema.ValidationError as e:
        ok = False
        print('INVALID', f, e.message[:200])
print('manifest ok; evidence', 'ok' if ok else 'INVALID')
sys.exit(0 if ok else 1)
