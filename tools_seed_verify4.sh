#!/bin/sh
# Verify a second-round seeded change: usage tools_seed_verify2.sh <id> <worktree>  (stored as seeded/<id>b)
id=$1; wt=$2
cd $wt || exit 2
mkdir -p /verif/seeded/${id}d
cp SEEDED/patch.diff SEEDED/demo.py SEEDED/meta.json /verif/seeded/${id}d/ 2>/dev/null
echo "== ${id}d: tests with change"
/venv/bin/python -m pytest -q -p no:cacheprovider --timeout=900 2>&1 | tail -1
echo "== ${id}d: demo with change"; /venv/bin/python SEEDED/demo.py > /dev/shm/seed_${id}d_with.txt 2>&1; echo "exit=$?"
git apply -R SEEDED/patch.diff && { echo "== ${id}d: demo without change"; /venv/bin/python SEEDED/demo.py > /dev/shm/seed_${id}d_without.txt 2>&1; echo "exit=$?"; git apply SEEDED/patch.diff; }
