#!/bin/sh
# Apply a seeded change to /repo, run the given checks, undo it.  usage: tools_seed_run.sh <seed id> <tier> <check ids...>
seed=$1; tier=$2; shift 2
cd /repo || exit 2
git apply /verif/seeded/$seed/patch.diff || { echo "patch does not apply"; exit 2; }
cd /verif
for c in "$@"; do
  ./check $c --tier $tier > /dev/shm/seedrun_${seed}_$c.txt 2>&1
  echo "seed=$seed check=$c tier=$tier exit=$? $(grep -c '^VIOLATION' /dev/shm/seedrun_${seed}_$c.txt) violation lines"
  grep "unlisted failing" /dev/shm/seedrun_${seed}_$c.txt | head -5
done
git -C /repo checkout -- . ; git -C /repo status --short | head -3
