#!/bin/sh
# Run checks against a seeded change in a scratch worktree of /repo's HEAD (does not touch /repo).
# usage: tools_seed_wt.sh <seed id> <tier> <check ids...>
seed=$1; tier=$2; shift 2
wt=/tmp/sw_$seed
git -C /repo worktree remove --force $wt >/dev/null 2>&1
git -C /repo worktree add --detach $wt HEAD >/dev/null 2>&1 || exit 2
(cd $wt && git apply /verif/seeded/$seed/patch.diff) || { echo "seed=$seed patch does not apply"; git -C /repo worktree remove --force $wt; exit 2; }
cd /verif
for c in "$@"; do
  VERIF_REPO=$wt VERIF_EVIDENCE_DIR=/dev/shm/seed_evidence_$seed VERIF_REPLAY_DIR=/dev/shm/seed_replay_$seed ./check $c --tier $tier > /dev/shm/seedrun_${seed}_$c.txt 2>&1
  echo "seed=$seed check=$c tier=$tier exit=$? $(grep -c '^VIOLATION' /dev/shm/seedrun_${seed}_$c.txt) violation lines"
  grep "unlisted failing" /dev/shm/seedrun_${seed}_$c.txt | head -5
done
git -C /repo worktree remove --force $wt
rm -rf /dev/shm/seed_evidence_$seed /dev/shm/seed_replay_$seed
