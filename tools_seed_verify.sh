#!/bin/sh
# Verify a seeded change in its scratch worktree: suite passes with it, demo fails with it and passes without it.
# usage: tools_seed_verify.sh <id> <worktree>
id=$1; wt=$2
cd $wt || exit 2
mkdir -p /verif/seeded/$id
cp SEEDED/patch.diff SEEDED/demo.py SEEDED/meta.json /verif/seeded/$id/ 2>/dev/null
echo "== $id: tests with change"
/venv/bin/python -m pytest -q -p no:cacheprovider --timeout=900 2>&1 | tail -1
echo "== $id: demo with change"; /venv/bin/python SEEDED/demo.py > /dev/shm/seed_${id}_with.txt 2>&1; echo "exit=$?"
git apply -R SEEDED/patch.diff && { echo "== $id: demo without change"; /venv/bin/python SEEDED/demo.py > /dev/shm/seed_${id}_without.txt 2>&1; echo "exit=$?"; git apply SEEDED/patch.diff; }
