#!/bin/sh
# Verify a second-round seeded change: usage tools_seed_verify2.sh <id> <worktree>  (stored as seeded/<id>b)
id=$1; wt=$2
cd $wt || exit 2
mkdir -p /verif/seeded/${id}f
cp SEEDED/patch.diff SEEDED/demo.py SEEDED/meta.json /verif/seeded/${id}f/ 2>/dev/null
echo "== ${id}f: tests with change"
/venv/bin/python -m pytest -q -p no:cacheprovider --timeout=900 2>&1 | tail -1
echo "== ${id}f: demo with change"; /venv/bin/python SEEDED/demo.py > /dev/shm/seed_${id}f_with.txt 2>&1; echo "exit=$?"
git apply -R SEEDED/patch.diff && { echo "== ${id}f: demo without change"; /venv/bin/python SEEDED/demo.py > /dev/shm/seed_${id}f_without.txt 2>&1; echo "exit=$?"; git apply SEEDED/patch.diff; }
