"""Generated app histories (versions of models + the evolutions between them).

chain family: evolution e_i adds field f_i and changes an attribute of the
field its predecessor added, so it is simulation-valid on version i-1 of the
model and on no other -- the abstraction "group version = number of the
group's evolutions reflected in its tables" used by Evolver.tla is exact.
"""

from __future__ import annotations

import copy
import json

from .absmodel import NONE, Names, as_dict, norm_sig

BLANK = {'k': '', 'm': NONE, 'f': NONE, 'of': NONE, 'nf': NONE, 'om': NONE,
         'nm': NONE, 'ftype': NONE, 'attrs': {}, 'init': NONE, 'prop': NONE,
         'val': [], 'ival': [], 'dbcol': NONE, 'dbtable': NONE}


def mu(**kw):
    out = copy.deepcopy(BLANK)
    out.update(kw)
    return out


def id_field():
    return {'ftype': 'Auto', 'attrs': {'primary_key': True}, 'rel': NONE}


def fld(ftype, rel=NONE, **attrs):
    return {'ftype': ftype, 'attrs': attrs, 'rel': rel}


def apply_abstract(sig, m):
    """Abstract effect of a mutation on an abstract signature (mirror of
    Sig!Sim for the generator's own bookkeeping)."""
    sig = copy.deepcopy(sig)
    k = m['k']
    if k == 'Add':
        attrs = dict(as_dict(m['attrs']))
        rel = attrs.pop('related_model', NONE)
        sig[m['m']]['fields'][m['f']] = {'ftype': m['ftype'], 'attrs': attrs,
                                         'rel': rel}
    elif k == 'Chg':
        f = sig[m['m']]['fields'][m['f']]
        if m['ftype'] != NONE and m['ftype'] != f['ftype']:
            f['ftype'] = m['ftype']
            f['attrs'] = dict(as_dict(m['attrs']))
        else:
            f['attrs'].update(as_dict(m['attrs']))
    elif k == 'Del':
        del sig[m['m']]['fields'][m['f']]
        ut = []
        for t in sig[m['m']]['ut']:
            t2 = [x for x in t if x != m['f']]
            if t2:
                ut.append(t2)
        sig[m['m']]['ut'] = ut
    elif k == 'RenF':
        sig[m['m']]['fields'][m['nf']] = sig[m['m']]['fields'].pop(m['of'])
        sig[m['m']]['ut'] = [[m['nf'] if x == m['of'] else x for x in t]
                             for t in sig[m['m']]['ut']]
    elif k == 'Meta':
        if m['prop'] == 'unique_together':
            sig[m['m']]['ut'] = [list(t) for t in m['val']]
        elif m['prop'] == 'constraints':
            sig[m['m']]['cons'] = [dict(c) for c in m['ival']]
        elif m['prop'] == 'indexes':
            sig[m['m']]['idx'] = [dict(c) for c in m['ival']]
        elif m['prop'] == 'index_together':
            sig[m['m']]['it'] = [list(t) for t in m['val']]
    elif k == 'RenM':
        sig[m['nm']] = sig.pop(m['om'])
        sig[m['nm']]['table'] = m['dbtable']
        for ms in sig.values():
            for f in ms['fields'].values():
                if f['rel'] == m['om']:
                    f['rel'] = m['nm']
    elif k == 'DelM':
        del sig[m['m']]
    return sig


def model(name, fields, ut=None):
    f = {'id': id_field()}
    f.update(fields)
    return {'table': 't_' + name, 'fields': f, 'ut': ut or [], 'uta': True,
            'idx': []}


class AppHistory(object):
    """versions[v] = abstract signature at version v; evolutions[i] (i>=1) =
    dict(label, mutations) leading from v=i-1 to v=i."""

    def __init__(self, app, names, base, evolutions, intro=None):
        self.app = app
        self.names = names
        self.versions = [norm_sig(base)]
        self.evolutions = [None]
        self.intro = intro or {}        # version -> {model name: model rec} introduced as new models
        for i, evo in enumerate(evolutions, 1):
            sig = self.versions[-1]
            for m in evo['mutations']:
                sig = apply_abstract(sig, m)
            if i in self.intro:
                sig = copy.deepcopy(sig)
                sig.update(norm_sig(self.intro[i]))
            self.versions.append(sig)
            self.evolutions.append(evo)

    @property
    def n(self):
        return len(self.versions) - 1

    def labels(self, v):
        return [self.evolutions[i]['label'] for i in range(1, v + 1)]

    def deploy(self, project, v, palette=None, extra=None):
        from .djproj import render_models, render_mutation
        evos = []
        for i in range(1, v + 1):
            e = self.evolutions[i]
            evos.append({'label': e['label'],
                         'mutations_src': [render_mutation(m, self.names, palette)
                                           for m in e['mutations']],
                         'deps': e.get('deps')})
        project.deploy(self.app, render_models(self.versions[v], self.names, self.app),
                       evos, **(extra or {}))


def chain_history(app, n, names=None, variant=0, intro_at=None, g2_evolutions=()):
    """Item model (group G1); e_i: AddField(f_i) + ChangeField(f_{i-1}) within the
    group the evolution targets.  At version `intro_at` the model Tag (group G2)
    appears as a NEW model without an evolution; the evolutions listed in
    `g2_evolutions` target Tag only."""
    names = names or Names(models={'A': 'Item', 'B': 'Tag', 'C': 'Zed', 'D': 'Zref'},
                           fields={'id': 'id', 'f': 'name', 'g': 'g', 'h': 'h',
                                   'k': 'k', 'f1': 'f1', 'f2': 'f2', 'f3': 'f3',
                                   'f4': 'f4', 'f5': 'f5', 't': 'title'},
                           app=app)
    base = {'A': model('A', {'f': fld('Char', max_length=20)},
                       ut=[['f']] if variant == 2 else None)}
    if variant == 3:
        # a model of the app refers to the model that evolution 2 renames (to a new table): the
        # referrer's foreign key follows the table, as it does in a fresh install
        base['D'] = model('D', {'k': fld('FK', rel='A')})
    evolutions = []
    intro = {}
    last = {'A': None, 'B': None, 'C': None}    # (field, is_char) last added per group model
    g1 = 'A'
    for i in range(1, n + 1):
        pre = []
        if variant == 3 and i == 2:
            # the G1 model is renamed, to a new table, before this evolution's changes
            pre = [mu(k='RenM', m='A', om='A', nm='C', dbtable='t_C')]
            last['C'] = last.pop('A')
            g1 = 'C'
        m = 'B' if i in g2_evolutions else g1
        is_char = bool((i + variant) % 2)
        muts = pre + [mu(k='Add', m=m, f='f%d' % i,
                   ftype='Char' if is_char else 'Int',
                   attrs={'max_length': 10 + i} if is_char else {'null': True},
                   init='i' if is_char else NONE)]
        if last[m] is not None:
            prev, prev_char = last[m]
            if prev_char:
                muts.append(mu(k='Chg', m=m, f=prev, attrs={'max_length': 40 + i}))
            else:
                muts.append(mu(k='Chg', m=m, f=prev, attrs={'db_index': True}))
        if variant == 4 and m == g1:
            # the column `name` is deleted by evolution 1 and comes back, with the very same
            # definition, in evolution 2: applied together or one after the other, it starts over
            if i == 1:
                muts.append(mu(k='Del', m=m, f='f'))
            elif i == 2:
                muts.append(mu(k='Add', m=m, f='f', ftype='Char', attrs={'max_length': 20}, init='i'))
        last[m] = ('f%d' % i, is_char)
        evolutions.append({'label': 'e%d' % i, 'mutations': muts})
        if intro_at == i:
            # the new model carries a Meta.db_table_comment (ignored by SQLite, kept by signatures)
            intro[i] = {'B': dict(model('B', {'t': fld('Char', max_length=15)}), comment='tags of items')}
    return AppHistory(app, names, base, evolutions, intro=intro)
