"""The Python mirror of the TLA+ data shapes (Sig.tla / Optimizer.tla / Schema.tla).

concretise:  abstract signature -> Django model classes; abstract mutation ->
             real mutation object.
project:     real ProjectSignature / mutation object -> abstract JSON shape.

One module, so the projection used for replay and for trace validation is the
same function.
"""

from __future__ import annotations

import copy

NONE = 'None'


def norm(x):
    """TLC's ToJson prints the empty function as [] -- normalise dict slots."""
    return x


def as_dict(x):
    if x == [] or x is None:
        return {}
    return x


class Names(object):
    """A renaming of the abstract names.  Model order must be preserved by
    Python's string sort (the optimiser sorts by model name)."""

    def __init__(self, models=None, fields=None, app='vapp'):
        self.app = app
        self.models = models or {'A': 'Ab', 'B': 'Abc', 'C': 'Zed'}
        self.fields = fields or {'id': 'id', 'f': 'alpha', 'g': 'beta',
                                 'h': 'gamma', 'k': 'kappa'}
        self.rmodels = {v: k for k, v in self.models.items()}
        self.rfields = {v: k for k, v in self.fields.items()}
        assert sorted(self.models, key=lambda a: self.models[a]) == \
            sorted(self.models), 'renaming must preserve model order'

    def model(self, a):
        return self.models[a]

    def field(self, a):
        return self.fields[a]

    def table(self, t):
        # "t_A" -> "vapp_ab"
        assert t.startswith('t_'), t
        return '%s_%s' % (self.app, self.models[t[2:]].lower())

    def rtable(self, t):
        prefix = self.app + '_'
        if t.startswith(prefix):
            low = t[len(prefix):]
            for a, c in self.models.items():
                if c.lower() == low:
                    return 't_' + a
        return t

    def rel(self, a):
        return '%s.%s' % (self.app, self.models[a])

    def rrel(self, r):
        if r is None:
            return NONE
        app, name = r.split('.', 1)
        if app == self.app and name in self.rmodels:
            return self.rmodels[name]
        return r


DEFAULT_NAMES = Names()
ALT_NAMES = [
    Names(),
    Names(models={'A': 'Item', 'B': 'Items', 'C': 'Order'},
          fields={'id': 'id', 'f': 'name', 'g': 'order', 'h': 'select',
                  'k': 'key'}),
    Names(models={'A': 'M', 'B': 'Mm', 'C': 'Mmm'},
          fields={'id': 'id', 'f': 'a', 'g': 'ab', 'h': 'abc', 'k': 'abcd'}),
]


def field_class(ftype):
    from django.db import models
    return {
        'Auto': models.AutoField,
        'Int': models.IntegerField,
        'BigInt': models.BigIntegerField,
        'PosInt': models.PositiveIntegerField,
        'Char': models.CharField,
        'Text': models.TextField,
        'Bool': models.BooleanField,
        'Decimal': models.DecimalField,
        'DateTime': models.DateTimeField,
        'FK': models.ForeignKey,
        'O2O': models.OneToOneField,
        'M2M': models.ManyToManyField,
    }[ftype]


def ftype_of(cls):
    from django.db import models
    for name in ('Auto', 'BigInt', 'PosInt', 'Int', 'Char', 'Text', 'Bool',
                 'Decimal', 'DateTime', 'O2O', 'FK', 'M2M'):
        if cls is field_class(name):
            return name
    return cls.__name__


def initial_for(ftype, token, palette=None):
    """Concrete initial value for an abstract initial token."""
    if token in (NONE, None):
        return None
    palette = palette or {}
    # the same token means the same value whatever the column type is at that moment
    # ('7' and 7 are equal modulo column affinity), so that a sequence that re-types a
    # column between two fills is judged on the token, like the specification does
    if token == 'p' and ftype in ('Char', 'Text'):
        return '5% o\'k "q"'            # percent sign, single and double quotes
    if token == 'p' and ftype in ('Int', 'BigInt', 'PosInt', 'FK', 'O2O', 'Decimal'):
        return 9                         # a third value, so that the token survives a round trip
    if token == 'p' and ftype == 'DateTime':
        return '2021-03-04 05:06:07'
    if token == 'z':                     # a value Python regards as false: 0, False, the empty string
        if ftype in ('Char', 'Text'):
            return ''
        if ftype == 'Bool':
            return False
        if ftype == 'DateTime':
            return '2020-01-02 03:04:05'
        return 0
    if token == 'j':                     # a second, different initial value
        if ftype in ('Char', 'Text'):
            return '8'
        if ftype in ('Int', 'BigInt', 'PosInt', 'FK', 'O2O', 'Decimal'):
            return 8
    if ftype in ('Char', 'Text'):
        return palette.get('str', '7')
    if ftype in ('Int', 'BigInt', 'PosInt', 'FK', 'O2O'):
        return palette.get('int', 7)
    if ftype == 'Bool':
        return True
    if ftype == 'Decimal':
        return palette.get('int', 7)
    if ftype == 'DateTime':
        return '2020-01-02 03:04:05'
    return 7


def resolve_col(v, names):
    """An abstract db_column value: "@f" stands for "the column field f has by default" (a rename that
    keeps its column), anything else is the literal column name."""
    if isinstance(v, str) and v.startswith('@'):
        return names.field(v[1:])
    return v


def abstract_col(v, names):
    """Inverse of resolve_col for values read from real signatures / mutations."""
    if isinstance(v, str) and v in names.rfields and names.rfields[v] != v:
        return '@' + names.rfields[v]
    return v


def concrete_attrs(attrs, names):
    out = {}
    for k, v in as_dict(attrs).items():
        if k == 'related_model':
            out[k] = names.rel(v)
        elif k == 'db_column':
            out[k] = resolve_col(v, names)
        elif k in ('db_table',):
            out[k] = v
        else:
            out[k] = v
    return out


def make_mutation(mu, names, cur_sig=None, palette=None):
    """Abstract mutation record -> real mutation object.

    cur_sig is the abstract signature at the point the mutation applies; it is
    only used to choose an initial value of the right Python type.
    """
    from django_evolution.mutations import (AddField, ChangeField, ChangeMeta,
                                            DeleteField, DeleteModel,
                                            RenameField, RenameModel,
                                            SQLMutation)
    k = mu['k']
    if k == 'Add':
        attrs = concrete_attrs(mu['attrs'], names)
        init = initial_for(mu['ftype'], mu['init'], palette)
        kwargs = dict(attrs)
        if init is not None:
            kwargs['initial'] = init
        return AddField(names.model(mu['m']), names.field(mu['f']),
                        field_class(mu['ftype']), **kwargs)
    if k == 'Chg':
        attrs = concrete_attrs(mu['attrs'], names)
        ftype = mu['ftype']
        cur_type = None
        if cur_sig is not None:
            try:
                cur_type = cur_sig[mu['m']]['fields'][mu['f']]['ftype']
            except (KeyError, TypeError):
                cur_type = None
        init = initial_for(ftype if ftype != NONE else (cur_type or 'Int'),
                           mu['init'], palette)
        kwargs = dict(attrs)
        if ftype != NONE:
            kwargs['field_type'] = field_class(ftype)
        if init is not None:
            kwargs['initial'] = init
        return ChangeField(names.model(mu['m']), names.field(mu['f']), **kwargs)
    if k == 'Del':
        return DeleteField(names.model(mu['m']), names.field(mu['f']))
    if k == 'RenF':
        kwargs = {}
        if mu.get('dbcol', NONE) != NONE:
            kwargs['db_column'] = resolve_col(mu['dbcol'], names)
        if mu.get('dbtable', NONE) != NONE:
            kwargs['db_table'] = mu['dbtable']
        return RenameField(names.model(mu['m']), names.field(mu['of']),
                           names.field(mu['nf']), **kwargs)
    if k == 'RenM':
        return RenameModel(names.model(mu['om']), names.model(mu['nm']),
                           db_table=names.table(mu['dbtable']))
    if k == 'DelM':
        return DeleteModel(names.model(mu['m']))
    if k == 'Meta':
        if mu['prop'] in ('unique_together', 'index_together'):
            val = [tuple(names.field(x) for x in t) for t in mu['val']]
        elif mu['prop'] == 'indexes':
            val = [concrete_index(ix, names) for ix in mu['ival']]
        elif mu['prop'] == 'constraints':
            val = [concrete_constraint(c, names) for c in mu['ival']]
        else:
            val = mu['val']
        return ChangeMeta(names.model(mu['m']), mu['prop'], val)
    if k == 'SQL':
        return SQLMutation('barrier', ['SELECT 1;'],
                           update_func=_noop_update)
    raise ValueError('unknown mutation kind %r' % k)


def _noop_update(simulation):
    return None


def concrete_index(ix, names):
    if ix.get('expr', NONE) not in (NONE, None):
        # an expression-only index: no field list at all
        from django.db.models import F
        out = {'expressions': [F(names.field(ix['expr']))]}
    else:
        out = {'fields': [names.field(x) for x in ix['fields']]}
    if ix.get('name', NONE) != NONE:
        out['name'] = ix['name']
    if ix.get('cond', NONE) not in (NONE, None):
        from django.db.models import Q
        out['condition'] = Q(**{'%s__gt' % names.field(ix['cond']): 0})
    return out


CHECK_MIN = -9999999999      # every value of the row palette satisfies the check


def concrete_constraint(c, names, as_dict_form=True):
    """Abstract constraint record -> ChangeMeta entry (dict) or Django constraint object."""
    from django.db import models
    cond = c.get('cond', NONE)
    if c['kind'] == 'check':
        kw = {'check': models.Q(**{'%s__gte' % names.field(cond): CHECK_MIN})}
        typ = models.CheckConstraint
    else:
        kw = {'fields': [names.field(x) for x in c['fields']]}
        if cond not in (NONE, None):
            kw['condition'] = models.Q(**{'%s__gt' % names.field(cond): 0})
        typ = models.UniqueConstraint
    if as_dict_form:
        return dict(kw, type=typ, name=c['name'])
    return typ(name=c['name'], **kw)


def abstract_constraint(cs, names):
    """Real ConstraintSignature -> abstract record (see concrete_constraint)."""
    from django.db import models
    attrs = cs.attrs or {}
    if issubclass(cs.type, models.CheckConstraint):
        return {'kind': 'check', 'fields': [], 'name': cs.name,
                'cond': index_cond({'condition': attrs.get('check')}, names)}
    return {'kind': 'unique', 'fields': [names.rfields.get(x, x) for x in (attrs.get('fields') or [])],
            'name': cs.name, 'cond': index_cond(attrs, names)}


def _abstract_constraint_dict(c, names):
    """ChangeMeta('constraints') entry (dict with type/name/attrs) -> abstract record."""
    from django.db import models
    attrs = {k: v for k, v in c.items() if k not in ('type', 'name')}
    if issubclass(c['type'], models.CheckConstraint):
        return {'kind': 'check', 'fields': [], 'name': c['name'],
                'cond': index_cond({'condition': attrs.get('check')}, names)}
    return {'kind': 'unique', 'fields': [names.rfields.get(x, x) for x in (attrs.get('fields') or [])],
            'name': c['name'], 'cond': index_cond(attrs, names)}


def index_cond(attrs, names):
    """Abstract `cond` of a real index signature's attrs (see concrete_index)."""
    q = (attrs or {}).get('condition')
    if q is None:
        return NONE
    try:
        lookup = q.children[0][0]
        return names.rfields.get(lookup.split('__')[0], lookup.split('__')[0])
    except Exception:
        return '?'


# ---------------------------------------------------------------------------
# projection: real -> abstract

def _expr_field(expressions, names):
    """Abstract name of the field an expression-only index is over (F(field)), or NONE."""
    if not expressions:
        return NONE
    e = expressions[0]
    name = getattr(e, 'name', None)
    return names.rfields.get(name, name) if name else 'expr'


def _init_token(initial):
    if initial is None:
        return NONE
    if (isinstance(initial, str) and '%' in initial) or (initial in (9, '9', '2021-03-04 05:06:07') and initial is not True):
        return 'p'
    if initial in (0, '', False) and initial is not None:
        return 'z'
    return 'j' if initial in (8, '8') and initial is not True else 'i'


def project_mutation(m, names):
    """Real mutation object -> abstract record (same keys as Optimizer!Blank)."""
    from django_evolution.mutations import (AddField, ChangeField, ChangeMeta,
                                            DeleteField, DeleteModel,
                                            RenameField, RenameModel,
                                            SQLMutation)
    rec = {'k': '', 'm': NONE, 'f': NONE, 'of': NONE, 'nf': NONE, 'om': NONE,
           'nm': NONE, 'ftype': NONE, 'attrs': {}, 'init': NONE, 'prop': NONE,
           'val': [], 'ival': [], 'dbcol': NONE, 'dbtable': NONE}

    def rm(x):
        return names.rmodels.get(x, x)

    def rf(x):
        return names.rfields.get(x, x)

    def rattrs(attrs):
        out = {}
        for key, v in attrs.items():
            if key == 'related_model':
                out[key] = names.rrel(v)
            else:
                out[key] = v
        return out

    if isinstance(m, AddField):
        rec.update(k='Add', m=rm(m.model_name), f=rf(m.field_name),
                   ftype=ftype_of(m.field_type), attrs=rattrs(m.field_attrs),
                   init=_init_token(m.initial))
    elif isinstance(m, ChangeField):
        rec.update(k='Chg', m=rm(m.model_name), f=rf(m.field_name),
                   ftype=NONE if m.field_type is None else ftype_of(m.field_type),
                   attrs=rattrs(m.field_attrs),
                   init=_init_token(m.initial))
    elif isinstance(m, DeleteField):
        rec.update(k='Del', m=rm(m.model_name), f=rf(m.field_name))
    elif isinstance(m, RenameField):
        rec.update(k='RenF', m=rm(m.model_name), f=rf(m.field_name),
                   of=rf(m.old_field_name), nf=rf(m.new_field_name),
                   dbcol=abstract_col(m.db_column, names) if m.db_column else NONE, dbtable=m.db_table or NONE)
    elif isinstance(m, RenameModel):
        rec.update(k='RenM', m=rm(m.model_name), om=rm(m.old_model_name),
                   nm=rm(m.new_model_name),
                   dbtable=names.rtable(m.db_table) if m.db_table else NONE)
    elif isinstance(m, DeleteModel):
        rec.update(k='DelM', m=rm(m.model_name))
    elif isinstance(m, ChangeMeta):
        rec.update(k='Meta', m=rm(m.model_name), prop=m.prop_name)
        if m.prop_name in ('unique_together', 'index_together'):
            rec['val'] = [[rf(x) for x in t] for t in m.new_value]
        elif m.prop_name == 'constraints':
            rec['ival'] = [_abstract_constraint_dict(c, names) for c in (m.new_value or [])]
        elif m.prop_name == 'indexes':
            rec['ival'] = [{'fields': [rf(x) for x in (ix.get('fields') or [])],
                            'name': ix.get('name', NONE),
                            'expr': _expr_field(ix.get('expressions'), names),
                            'cond': index_cond(ix, names)}
                           for ix in m.new_value]
    elif isinstance(m, SQLMutation):
        rec.update(k='SQL')
    else:
        rec.update(k=type(m).__name__)
    return rec


def norm_mutation(rec):
    """Normalise an abstract record coming from TLC for comparison."""
    out = dict(rec)
    out['attrs'] = as_dict(rec.get('attrs'))
    out['val'] = [list(t) for t in (rec.get('val') or [])]
    # index / constraint entries: an absent condition / expression and an explicit "none" are the same
    out['ival'] = [dict((k_, v_) for k_, v_ in as_dict(x).items()
                        if not (k_ in ('cond', 'expr') and v_ in (NONE, None)))
                   if isinstance(x, (dict, list)) else x
                   for x in (rec.get('ival') or [])]
    return out


def project_sig(project_sig, names):
    """Real ProjectSignature -> abstract signature of the harness app."""
    app_sig = project_sig.get_app_sig(names.app)
    out = {}
    if app_sig is None:
        return out
    for ms in app_sig.model_sigs:
        fields = {}
        for fs in ms.field_sigs:
            attrs = {}
            for key, v in fs.field_attrs.items():
                if key == 'related_model':
                    attrs[key] = names.rrel(v)
                elif key == 'db_column':
                    attrs[key] = abstract_col(v, names)
                else:
                    attrs[key] = v
            fields[names.rfields.get(fs.field_name, fs.field_name)] = {
                'ftype': ftype_of(fs.field_type),
                'attrs': attrs,
                'rel': names.rrel(fs.related_model),
            }
        out[names.rmodels.get(ms.model_name, ms.model_name)] = {
            'table': names.rtable(ms.table_name),
            'fields': fields,
            'ut': [[names.rfields.get(x, x) for x in t]
                   for t in ms.unique_together],
            'uta': bool(ms._unique_together_applied),
            'idx': [dict({'fields': [names.rfields.get(x, x) for x in (ix.fields or [])],
                          'name': ix.name or NONE,
                          'cond': index_cond(ix.attrs, names)},
                         **({'expr': _expr_field(ix.expressions, names)} if ix.expressions else {}))
                    for ix in ms.index_sigs],
            'cons': [abstract_constraint(cs, names) for cs in ms.constraint_sigs],
        }
        if getattr(ms, 'db_table_comment', None):
            out[names.rmodels.get(ms.model_name, ms.model_name)]['comment'] = ms.db_table_comment
        if ms.index_together:
            out[names.rmodels.get(ms.model_name, ms.model_name)]['it'] = [
                [names.rfields.get(x, x) for x in t] for t in ms.index_together]
    return out


def norm_sig(sig):
    out = {}
    for mn, ms in as_dict(sig).items():
        fields = {}
        for fn, fs in as_dict(ms['fields']).items():
            fields[fn] = {'ftype': fs['ftype'], 'attrs': as_dict(fs['attrs']),
                          'rel': fs['rel']}
        out[mn] = {'table': ms['table'], 'fields': fields,
                   'ut': [list(t) for t in (ms.get('ut') or [])],
                   'uta': ms.get('uta', True),
                   'idx': [dict(ix, cond=ix.get('cond', NONE) or NONE)
                           for ix in (ms.get('idx') or [])]}
        out[mn]['cons'] = [dict(c, fields=list(c.get('fields') or []), cond=c.get('cond', NONE) or NONE)
                           for c in (ms.get('cons') or [])]
        if ms.get('it'):
            out[mn]['it'] = [list(t) for t in ms['it']]
        if ms.get('comment') not in (None, NONE):
            out[mn]['comment'] = ms['comment']
    return out


def sig_equal_abstract(a, b):
    """ModelSignature.__eq__ semantics on abstract signatures (Sig!SigEq)."""
    a, b = norm_sig(a), norm_sig(b)
    if set(a) != set(b):
        return False
    for mn in a:
        x, y = a[mn], b[mn]
        if x['table'] != y['table'] or x['fields'] != y['fields']:
            return False
        if x['ut'] != y['ut']:
            return False
        if (x['ut'] or y['ut']) and x['uta'] != y['uta']:
            return False
        if sorted(map(repr, x['idx'])) != sorted(map(repr, y['idx'])):
            return False
        if sorted(repr(sorted(c.items())) for c in x['cons']) != \
                sorted(repr(sorted(c.items())) for c in y['cons']):
            return False
        if x.get('comment') != y.get('comment'):
            return False
        if sorted(map(tuple, x.get('it') or [])) != sorted(map(tuple, y.get('it') or [])):
            return False
    return True


def short(mu):
    k = mu['k']
    if k in ('Add', 'Chg'):
        attrs = as_dict(mu['attrs'])
        return '%s(%s.%s %s %s init=%s)' % (k, mu['m'], mu['f'], mu['ftype'],
                                            dict(sorted(attrs.items())), mu['init'])
    if k == 'Del':
        return 'Del(%s.%s)' % (mu['m'], mu['f'])
    if k == 'RenF':
        return 'RenF(%s.%s->%s%s)' % (mu['m'], mu['of'], mu['nf'],
                                      (' col=' + str(mu['dbcol'])) if mu.get('dbcol', NONE) not in (NONE, None) else '')
    if k == 'RenM':
        return 'RenM(%s->%s)' % (mu['om'], mu['nm'])
    if k == 'DelM':
        return 'DelM(%s)' % mu['m']
    if k == 'Meta':
        # an absent condition and an explicit "no condition" are the same entry
        ival = [sorted((k_, v_) for k_, v_ in as_dict(x).items()
                       if not (k_ in ('cond', 'expr') and v_ in (NONE, None)))
                for x in (mu['ival'] or [])]
        return 'Meta(%s %s %s%s)' % (mu['m'], mu['prop'], mu['val'], ival or '')
    return k
