"""Run TLC and read back statistics, prediction records and verdicts."""

from __future__ import annotations

import json
import os
import re
import shutil
import subprocess
import time

from .common import VERIF, scratch_dir, machinery_failure

SPEC_DIR = os.path.join(VERIF, 'spec')
JAR = '/opt/veriftools/tla/tla2tools.jar'
COMMUNITY = '/opt/veriftools/tla/CommunityModules-deps.jar'

_REC = re.compile(r'<<"REC", "((?:[^"\\]|\\.)*)">>')
_STATS = re.compile(r'(\d+) states generated, (\d+) distinct states found, '
                    r'(\d+) states left on queue')
_DEPTH = re.compile(r'The depth of the complete state graph search is (\d+)')


def _classpath():
    cp = [JAR]
    for cand in (COMMUNITY, '/opt/veriftools/tla/CommunityModules.jar'):
        if os.path.exists(cand):
            cp.append(cand)
    return ':'.join(cp)


def tlc_cmd():
    """The `tlc` wrapper on PATH already has CommunityModules on its classpath."""
    return shutil.which('tlc') or 'tlc'


class TLCResult(object):
    def __init__(self):
        self.returncode = None
        self.generated = 0
        self.distinct = 0
        self.queue = 0
        self.depth = 0
        self.records = []
        self.wall = 0.0
        self.output = ''
        self.invariant_violated = None
        self.error = None
        self.coverage = {}

    def stats(self):
        return {'generated': self.generated, 'distinct': self.distinct,
                'left_on_queue': self.queue, 'depth': self.depth,
                'wall_s': round(self.wall, 2), 'records': len(self.records),
                'complete': self.queue == 0 and self.error is None}


def run_tlc(module, cfg, workers=8, timeout=1800, extra_args=(), env=None,
            simulate=None, depth=None, seed=None, coverage=False,
            allow_violation=False, keep_output=False, deadlock=False,
            java_opts=None):
    """Run TLC on spec/<module>.tla with spec/<cfg>.

    Records printed by the spec with PrintT(<<"REC", ToJson(x)>>) are parsed
    into result.records.
    """
    meta = os.path.join(scratch_dir(), 'tlc-%s-%d' % (module, time.time_ns()))
    os.makedirs(meta, exist_ok=True)
    cmd = [tlc_cmd(), '-workers', str(workers), '-metadir', meta,
           '-noGenerateSpecTE', '-config', cfg]
    if not deadlock:
        cmd += ['-deadlock']
    if simulate is not None:
        cmd += ['-simulate', 'num=%d' % simulate]
        if depth:
            cmd += ['-depth', str(depth)]
    if seed is not None:
        cmd += ['-seed', str(seed)]
    if coverage:
        cmd += ['-coverage', '1']
    cmd += list(extra_args)
    cmd += [module]
    full_env = dict(os.environ)
    if env:
        full_env.update(env)
    if java_opts:
        full_env['JAVA_TOOL_OPTIONS'] = java_opts
    t0 = time.time()
    out_path = os.path.join(meta, 'out.txt')
    res = TLCResult()
    with open(out_path, 'w') as out:
        try:
            proc = subprocess.run(cmd, cwd=SPEC_DIR, stdout=out,
                                  stderr=subprocess.STDOUT, env=full_env,
                                  timeout=timeout)
            res.returncode = proc.returncode
        except subprocess.TimeoutExpired:
            res.returncode = -9
            res.error = 'timeout after %ds' % timeout
            subprocess.run(['pkill', '-f', meta], check=False)
    res.wall = time.time() - t0
    with open(out_path, errors='replace') as fp:
        text = fp.read()
    # TLC's workers print the records in an order that differs from run to run: sort them, so that
    # every seeded sample drawn from them is the same sample every time
    raw = sorted(m.group(1) for m in _REC.finditer(text))
    for r in raw:
        try:
            res.records.append(json.loads(json.loads('"%s"' % r)))
        except ValueError:
            res.error = res.error or 'unparsable record'
    # statistics: last occurrence wins
    for m in _STATS.finditer(text):
        res.generated, res.distinct, res.queue = (int(m.group(1)),
                                                  int(m.group(2)),
                                                  int(m.group(3)))
    m = _DEPTH.search(text)
    if m:
        res.depth = int(m.group(1))
    m = re.search(r'Invariant (\S+) is violated', text)
    if m:
        res.invariant_violated = m.group(1)
    m = re.search(r'Action property (\S+) is violated', text)
    if m:
        res.invariant_violated = m.group(1)
    if 'Temporal properties were violated' in text:
        res.invariant_violated = res.invariant_violated or 'temporal'
    if coverage:
        for m in re.finditer(r'<(\w+) line \d+, col \d+ to line \d+, col \d+ '
                             r'of module (\w+)>: (\d+):(\d+)', text):
            res.coverage[m.group(1)] = (int(m.group(3)), int(m.group(4)))
    # strip record lines from the retained output (they can be 100s of MB)
    kept = [l for l in text.split('\n') if not l.startswith('<<"REC"')]
    res.output = '\n'.join(kept[-200:] if not keep_output else kept)
    ok_codes = (0,)
    if allow_violation:
        ok_codes = (0, 12, 13)
    if res.returncode not in ok_codes and res.error is None:
        if res.invariant_violated and allow_violation:
            pass
        else:
            res.error = 'tlc exit %s' % res.returncode
    shutil.rmtree(meta, ignore_errors=True)
    return res


def require_ok(res, what):
    if res.error:
        machinery_failure('%s: %s\n%s' % (what, res.error, res.output[-4000:]))
    return res


def write_cfg(name, text):
    """Write a generated .cfg next to the specs inside the scratch dir and
    return its absolute path (TLC accepts absolute -config paths)."""
    path = os.path.join(scratch_dir(), name)
    with open(path, 'w') as fp:
        fp.write(text)
    return path
