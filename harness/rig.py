"""In-process rig: start databases, the three real execution pipelines and the
observers (statement recorder, signals) used by the mutation-sequence engines.
"""

from __future__ import annotations

import os
import shutil
import sys
import time
import traceback
import warnings
from contextlib import contextmanager

from .absmodel import NONE, as_dict, norm_sig
from .common import scratch_dir
from . import modelgen
from .dbproj import project_db, schema_of

_counter = [0]


def _newpath(tag):
    _counter[0] += 1
    return os.path.join(scratch_dir(), 'db-%s-%d-%d.sqlite3' % (tag, os.getpid(), _counter[0]))


def use_db(path, alias='default'):
    from django.db import connections
    conn = connections[alias]
    conn.close()
    conn.settings_dict['NAME'] = path
    # forget per-connection caches tied to the old file
    conn.__dict__.pop('introspection_cache', None)


def close_db(alias='default'):
    from django.db import connections
    connections[alias].close()


class StatementLog(object):
    """connection.execute_wrapper recorder, optionally raising at the k-th
    statement that satisfies `match`."""

    def __init__(self, fail_at=None, match=None):
        self.statements = []
        self.fail_at = fail_at
        self.match = match or (lambda sql: True)
        self.matched = 0

    def __call__(self, execute, sql, params, many, context):
        self.statements.append((sql, params))
        if self.match(sql):
            self.matched += 1
            if self.fail_at is not None and self.matched == self.fail_at:
                from django.db.utils import OperationalError
                raise OperationalError('injected fault at statement %d'
                                       % self.matched)
        return execute(sql, params, many, context)


@contextmanager
def record_statements(alias='default', **kwargs):
    from django.db import connections
    log = StatementLog(**kwargs)
    with connections[alias].execute_wrapper(log):
        yield log


def is_write(sql):
    s = sql.lstrip().upper()
    return not (s.startswith('SELECT') or s.startswith('PRAGMA')
                or s.startswith('SAVEPOINT') or s.startswith('RELEASE')
                or s.startswith('ROLLBACK') or s.startswith('BEGIN')
                or s.startswith('EXPLAIN'))


def rebuilds_per_table(statements):
    """Count table rebuilds: each CREATE TABLE "TEMP_TABLE" is attributed to
    the table of the following INSERT INTO "TEMP_TABLE" ... FROM "<table>"."""
    import re
    counts = {}
    pending = 0
    for sql, _params in statements:
        if re.match(r'\s*CREATE TABLE "?TEMP_TABLE"?', sql):
            pending += 1
        else:
            m = re.match(r'\s*INSERT INTO "?TEMP_TABLE"? .* FROM "?([^";\s]+)"?\s*;?\s*$',
                         sql, re.S)
            if m and pending:
                counts[m.group(1)] = counts.get(m.group(1), 0) + pending
                pending = 0
    if pending:
        counts['?'] = counts.get('?', 0) + pending
    return counts


ROW_VALUES = {
    'Char': ['v1', "it's", ''],
    'Text': ['t1', 'per%cent %s', 'back\\slash'],
    'Int': [1, -1, 0],
    'BigInt': [2 ** 40, -1, 0],
    'PosInt': [1, 2 ** 31 - 1, 0],
    'Bool': [True, False, True],
    'Decimal': ['1.50', '-2.25', '0.00'],
    'DateTime': ['2020-01-02 03:04:05', '1999-12-31 23:59:59',
                 '2038-01-19 03:14:08'],
}


def insert_rows(models_by_name, sig, names, nrows=3):
    """Deterministic rows: ids 1..nrows everywhere, so relations resolve."""
    from django.db import connection
    sig = norm_sig(sig)
    with connection.constraint_checks_disabled():
        for mn in sorted(sig):
            model = models_by_name[mn]
            table = model._meta.db_table
            for r in range(nrows):
                cols, vals = [], []
                for fn, fs in sorted(sig[mn]['fields'].items()):
                    ftype = fs['ftype']
                    if ftype == 'M2M':
                        continue
                    field = model._meta.get_field(names.field(fn))
                    if ftype == 'Auto':
                        v = r + 1
                    elif ftype in ('FK', 'O2O'):
                        v = (r % nrows) + 1 if ftype == 'O2O' else ((r + 1) % nrows) + 1
                    else:
                        v = ROW_VALUES[ftype][r % 3]
                        if as_dict(fs['attrs']).get('unique') and ftype in ('Char', 'Text'):
                            v = '%s#%d' % (v, r)
                        if as_dict(fs['attrs']).get('unique') and ftype in ('Int', 'BigInt', 'PosInt'):
                            v = r + 10
                    if as_dict(fs['attrs']).get('null') and r == 1 and ftype not in ('Auto',):
                        v = None
                    cols.append(field.column)
                    vals.append(v)
                with connection.cursor() as cur:
                    cur.execute('INSERT INTO "%s" (%s) VALUES (%s)'
                                % (table, ', '.join('"%s"' % c for c in cols),
                                   ', '.join(['%s'] * len(vals))), vals)
            for fn, fs in sorted(sig[mn]['fields'].items()):
                if fs['ftype'] != 'M2M':
                    continue
                field = model._meta.get_field(names.field(fn))
                through = field.remote_field.through
                t = through._meta.db_table
                c1 = field.m2m_column_name()
                c2 = field.m2m_reverse_name()
                with connection.cursor() as cur:
                    for r in range(nrows):
                        cur.execute('INSERT INTO "%s" ("%s", "%s") VALUES (%%s, %%s)'
                                    % (t, c1, c2), [r + 1, ((r + 1) % nrows) + 1])


class Rig(object):
    """One start signature -> a template database created by a real fresh
    install (Evolver.queue_evolve_all_apps + evolve), then copied per run."""

    def __init__(self, names):
        self.names = names
        self.template = None
        self.models = None
        self.start_sig = None

    def app_module(self):
        from django.apps import apps
        return apps.get_app_config(self.names.app).models_module

    def prepare(self, start_sig, nrows=3):
        from django_evolution.evolve import Evolver
        self.start_sig = norm_sig(start_sig)
        self.models = modelgen.build_models(self.start_sig, self.names)
        path = _newpath('tmpl')
        use_db(path)
        reset_globals()
        with warnings.catch_warnings():
            warnings.simplefilter('ignore')
            evolver = Evolver()
            evolver.queue_evolve_all_apps()
            evolver.evolve()
        if nrows:
            insert_rows(self.models, self.start_sig, self.names, nrows)
        close_db()
        self.template = path
        return path

    def fresh_copy(self, tag='run'):
        path = _newpath(tag)
        shutil.copyfile(self.template, path)
        use_db(path)
        return path

    def restore_models(self):
        """Re-register the start models (pipelines that consult the app
        registry -- the Evolver -- must see the start models)."""
        self.models = modelgen.build_models(self.start_sig, self.names)

    def stored_signature(self):
        from django_evolution.models import Version
        return Version.objects.current_version().signature

    def app_tables(self, name):
        return name.startswith(self.names.app + '_')

    def snapshot(self, path):
        close_db()
        return project_db(path, include=self.app_tables)


def _stage_of(e):
    """A SimulationFailure is the code REJECTING the evolution; any other
    exception while simulating / queueing / lowering means an accepted
    evolution for which no SQL could be generated."""
    from django_evolution.errors import SimulationFailure
    return 'simulate' if isinstance(e, SimulationFailure) else 'generate'


def run_individually(rig, muts, statements=None):
    """Reference pipeline: one AppMutator per mutation, executed in order.
    Returns dict(ok, step, error, sig)."""
    from django_evolution.db.state import DatabaseState
    from django_evolution.mutators import AppMutator
    from django_evolution.utils.sql import SQLExecutor
    sig = rig.stored_signature()
    for i, m in enumerate(muts):
        try:
            state = DatabaseState('default')
            am = AppMutator(app_label=rig.names.app, project_sig=sig,
                            database_state=state, database='default')
            am.run_mutations([m])
            sql = am.to_sql()
        except Exception as e:
            return {'ok': False, 'stage': _stage_of(e), 'step': i,
                    'error': '%s: %s' % (type(e).__name__, e), 'sig': sig}
        try:
            with record_statements() as log:
                with SQLExecutor(database='default',
                                 check_constraints=False) as ex:
                    ex.run_sql(sql, execute=True)
            if statements is not None:
                statements.extend(log.statements)
        except Exception as e:
            return {'ok': False, 'stage': 'execute', 'step': i,
                    'error': '%s: %s' % (type(e).__name__, e), 'sig': sig}
    return {'ok': True, 'sig': sig}


def run_batched(rig, muts, statements=None, capture_opt=None):
    """One AppMutator for the whole sequence (the optimised run)."""
    from django_evolution.db.state import DatabaseState
    from django_evolution.mutators import AppMutator
    from django_evolution.utils.sql import SQLExecutor
    sig = rig.stored_signature()
    try:
        state = DatabaseState('default')
        am = AppMutator(app_label=rig.names.app, project_sig=sig,
                        database_state=state, database='default')
        if capture_opt is not None:
            orig = am._preprocess_mutations

            def wrapper(mutations, orig=orig):
                result = orig(mutations)
                capture_opt.append(list(result))
                return result
            am._preprocess_mutations = wrapper
        am.run_mutations(list(muts))
        sql = am.to_sql()
    except Exception as e:
        return {'ok': False, 'stage': _stage_of(e),
                'error': '%s: %s' % (type(e).__name__, e), 'sig': sig,
                'tb': traceback.format_exc(limit=6)}
    try:
        with record_statements() as log:
            with SQLExecutor(database='default', check_constraints=False) as ex:
                ex.run_sql(sql, execute=True)
        if statements is not None:
            statements.extend(log.statements)
    except Exception as e:
        return {'ok': False, 'stage': 'execute',
                'error': '%s: %s' % (type(e).__name__, e), 'sig': sig}
    return {'ok': True, 'sig': sig, 'can_simulate': am.can_simulate}


def reset_globals():
    """In-process isolation: state a failed run leaves behind in module globals
    (a fresh process per run never sees it)."""
    try:
        from django_evolution.utils.migrations import \
            clear_global_custom_migrations
        clear_global_custom_migrations()
    except Exception:
        pass


def run_evolver(rig, evolutions, statements=None):
    """The real task pipeline: Evolver + EvolveAppTask(evolutions=[...]);
    prepare() and _build_batches() both process the same objects."""
    from django_evolution.evolve import Evolver, EvolveAppTask
    reset_globals()
    try:
        with warnings.catch_warnings():
            warnings.simplefilter('ignore')
            evolver = Evolver()
            evolver.queue_task(EvolveAppTask(evolver, app=rig.app_module(),
                                             evolutions=evolutions))
            with record_statements() as log:
                evolver.evolve()
            if statements is not None:
                statements.extend(log.statements)
    except Exception as e:
        return {'ok': False, 'stage': 'evolve',
                'error': '%s: %s' % (type(e).__name__, e),
                'tb': traceback.format_exc(limit=8)}
    return {'ok': True, 'sig': rig.stored_signature()}
