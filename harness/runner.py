"""One upgrade run in a fresh interpreter inside a synthetic project.

Reads a JSON request on stdin, performs the action under the recorders and
prints '@@RESULT@@' + JSON.  Every linearisation point of a run is observed
from public extension points: the nine signals, connection.execute_wrapper,
and wrapped commit/rollback of the connection.
"""

from __future__ import annotations

import io
import json
import os
import re
import sqlite3
import sys
import traceback

BOOKKEEPING_TABLES = ('django_project_version', 'django_evolution',
                      'django_migrations', 'django_content_type')


def classify(sql):
    s = sql.lstrip()
    up = s.upper()
    if up.startswith('SELECT') or up.startswith('EXPLAIN'):
        return 'select'
    if up.startswith('PRAGMA'):
        return 'pragma'
    if up.startswith(('SAVEPOINT', 'RELEASE', 'ROLLBACK', 'BEGIN', 'COMMIT')):
        return 'txctl'
    for t in BOOKKEEPING_TABLES:
        if re.search(r'["\s]%s["\s(]' % t, s):
            return 'bookkeeping'
    if up.startswith(('CREATE', 'ALTER', 'DROP')):
        return 'ddl'
    if up.startswith(('INSERT', 'UPDATE', 'DELETE')):
        return 'dml'
    if up.startswith('VACUUM'):
        return 'vacuum'
    return 'other'


class Recorder(object):
    def __init__(self, fault=None, sql_limit=300):
        self.sql_limit = sql_limit
        self.events = []
        self.seq = 0
        self.fault = fault or {}
        self.batch_stmts = 0      # schema/data statements seen so far
        self.all_stmts = 0        # statements of any kind seen inside evolve()
        self.in_evolve = False
        self.fired = None

    def emit(self, ev, **kw):
        self.seq += 1
        rec = {'seq': self.seq, 'ev': ev}
        rec.update(kw)
        self.events.append(rec)

    # -- statements ---------------------------------------------------------
    def wrapper(self, alias):
        def execute_wrapper(execute, sql, params, many, context):
            kind = classify(sql)
            if self.in_evolve:
                self.all_stmts += 1
                if (self.fault.get('scope') == 'all' and self.fired is None and
                        self.fault.get('at') == self.all_stmts):
                    self.fired = {'index': self.all_stmts, 'sql': sql,
                                  'params': _plain(params), 'kind': kind}
                    self.emit('stmt_fail', db=alias, kind=kind,
                              index=self.all_stmts, sql=sql[:300])
                    from django.db.utils import OperationalError
                    raise OperationalError('injected fault at statement %d (any kind)'
                                           % self.all_stmts)
            if kind in ('ddl', 'dml', 'vacuum', 'other'):
                self.batch_stmts += 1
                idx = self.batch_stmts
                if (self.fault.get('at') == idx and self.in_evolve and
                        self.fault.get('scope', 'batch') == 'batch' and
                        self.fired is None):
                    self.fired = {'index': idx, 'sql': sql,
                                  'params': _plain(params)}
                    self.emit('stmt_fail', db=alias, kind=kind, index=idx,
                              sql=sql[:300])
                    from django.db.utils import OperationalError
                    raise OperationalError('injected fault at statement %d'
                                           % idx)
                self.emit('stmt', db=alias, kind=kind, index=idx,
                          sql=sql[:self.sql_limit], params=_plain(params))
            elif kind == 'bookkeeping':
                self.emit('book', db=alias, sql=sql[:200])
            return execute(sql, params, many, context)
        return execute_wrapper


def _plain(params):
    if params is None:
        return None
    out = []
    for p in params:
        if isinstance(p, (int, float, str, bool)) or p is None:
            out.append(p)
        else:
            out.append(str(p))
    return out


def install_signal_receivers(rec):
    from django_evolution import signals

    def mk(name):
        def receiver(sender=None, **kw):
            data = {}
            if 'evolutions' in kw:
                data['app'] = kw['task'].app_label
                data['labels'] = [e.label for e in kw['evolutions']]
                # the Evolution objects themselves: whose are they?
                data['evo_apps'] = [getattr(e, 'app_label', None) for e in kw['evolutions']]
            if 'migration' in kw:
                data['app'] = kw['migration'].app_label
                data['name'] = kw['migration'].name
            if 'model_names' in kw:
                data['app'] = kw['app_label']
                data['models'] = list(kw['model_names'])
            if 'exception' in kw:
                data['error'] = '%s: %s' % (type(kw['exception']).__name__,
                                            kw['exception'])
            if name == 'evolving':
                rec.in_evolve = True
            if name in ('evolved', 'evolving_failed'):
                rec.in_evolve = False
            rec.emit(name, **data)
        return receiver
    keep = []
    for name in ('evolving', 'evolved', 'evolving_failed', 'applying_evolution',
                 'applied_evolution', 'applying_migration', 'applied_migration',
                 'creating_models', 'created_models'):
        r = mk(name)
        getattr(signals, name).connect(r, weak=False)
        keep.append(r)
    return keep


def wrap_evolver(rec):
    """Observe construction and task preparation of every Evolver (also the one
    the management commands create internally).  Runtime wrappers in the
    harness process; nothing in the repository is changed."""
    from django_evolution.evolve import Evolver
    orig_init = Evolver.__init__

    def init(self, *args, **kwargs):
        orig_init(self, *args, **kwargs)
        rec.emit('constructed', new_db=bool(self.installed_new_database),
                 database=self.database_name)
    Evolver.__init__ = init
    orig_prepare = getattr(Evolver, '_prepare_tasks', None)
    if orig_prepare is None:
        return

    def prepare(self):
        already = self._tasks_prepared
        try:
            result = orig_prepare(self)
        except BaseException as e:
            if not already:
                rec.emit('prepare_failed', error='%s: %s' % (type(e).__name__, e))
            raise
        if not already:
            create, todo, recd, purge = [], {}, {}, []
            required = False
            for task in self._tasks_by_id.values():
                required = required or bool(task.evolution_required)
                label = getattr(task, 'app_label', None)
                if type(task).__name__ == 'PurgeAppTask':
                    if task.evolution_required:
                        purge.append(label)
                    continue
                if getattr(task, '_new_models_sql', None) and task.new_models:
                    create.append(label)
                if task.sql:
                    todo[label] = [e.label for e in task.new_evolutions]
                recd[label] = [e.label for e in task.new_evolutions]
            rec.emit('prepared', create=create, todo=todo, rec=recd,
                     purge=purge, required=required)
        return result
    Evolver._prepare_tasks = prepare


def wrap_transactions(rec, aliases):
    from django.db import connections
    for alias in aliases:
        conn = connections[alias]
        for meth in ('commit', 'rollback'):
            orig = getattr(conn, meth)

            def wrapped(orig=orig, meth=meth, alias=alias):
                result = orig()
                rec.emit(meth, db=alias)
                return result
            setattr(conn, meth, wrapped)
        orig_sr = conn.savepoint_rollback

        def sp_rollback(sid, orig_sr=orig_sr, alias=alias):
            result = orig_sr(sid)
            rec.emit('savepoint_rollback', db=alias)
            return result
        conn.savepoint_rollback = sp_rollback


def book_state(alias):
    """Bookkeeping rows of one database, read through a private connection."""
    from django.conf import settings
    path = settings.DATABASES[alias]['NAME']
    out = {'versions': [], 'evolutions': [], 'migrations': [], 'exists': False}
    if not os.path.exists(path):
        return out
    conn = sqlite3.connect(path)
    cur = conn.cursor()
    try:
        cur.execute("SELECT name FROM sqlite_master WHERE type='table'")
        tables = set(r[0] for r in cur.fetchall())
        out['exists'] = True
        out['tables'] = sorted(tables)
        if 'django_project_version' in tables:
            cur.execute('SELECT id, signature FROM django_project_version ORDER BY id')
            out['versions'] = [[r[0], r[1]] for r in cur.fetchall()]
        if 'django_evolution' in tables:
            cur.execute('SELECT app_label, label, version_id FROM django_evolution ORDER BY id')
            out['evolutions'] = [list(r) for r in cur.fetchall()]
        if 'django_migrations' in tables:
            cur.execute('SELECT app, name FROM django_migrations ORDER BY id')
            out['migrations'] = [list(r) for r in cur.fetchall()]
        if 'django_content_type' in tables:
            # what post_migrate listeners (contenttypes) write about the project's models
            cur.execute('SELECT app_label, model FROM django_content_type ORDER BY app_label, model')
            out['contenttypes'] = [list(r) for r in cur.fetchall()]
    finally:
        conn.close()
    return out


def db_projection(alias, app_prefixes):
    from django.conf import settings
    from harness.dbproj import project_db
    path = settings.DATABASES[alias]['NAME']
    if not os.path.exists(path):
        return None

    def include(name):
        return any(name.startswith(p + '_') for p in app_prefixes)
    return project_db(path, include=include)


def stored_signature(alias):
    """The latest stored signature, serialised (v2 dict), or None."""
    try:
        from django_evolution.models import Version
        v = Version.objects.using(alias).order_by('-when', '-id').first()
        if v is None:
            return None
        return json.loads(json.dumps(v.signature.serialize(), default=str))
    except Exception as e:
        return {'error': '%s: %s' % (type(e).__name__, e)}


def _insert_rows(nrows, m2m=False):
    """Insert nrows rows into every table of the generated apps (ids 1..n),
    values chosen by column type; nullable columns get NULL in row 2."""
    from django.apps import apps
    from django.conf import settings
    from django.db import connection, models
    labels = [a for a in settings.INSTALLED_APPS
              if a not in ('django.contrib.contenttypes', 'django_evolution')]
    with connection.constraint_checks_disabled():
        for label in labels:
            for model in apps.get_app_config(label).get_models(include_auto_created=m2m):
                with connection.cursor() as cur:
                    try:
                        cur.execute('SELECT COUNT(*) FROM "%s"' % model._meta.db_table)
                        if cur.fetchone()[0]:
                            continue        # already has rows
                    except Exception:
                        continue            # no such table (yet)
                for r in range(nrows):
                    cols, vals = [], []
                    for f in model._meta.local_fields:
                        if isinstance(f, models.AutoField):
                            v = r + 1
                        elif f.remote_field is not None:
                            v = (r % nrows) + 1
                        elif isinstance(f, (models.CharField, models.TextField)):
                            v = ['v1', "it's %s"][r % 2]
                            if f.unique:
                                v = '%s#%d' % (v, r)
                        elif isinstance(f, models.BooleanField):
                            v = bool(r % 2)
                        elif isinstance(f, models.IntegerField):
                            v = [7, -1][r % 2] if not f.unique else r + 10
                        else:
                            v = 1
                        if f.null and r == 1 and not f.primary_key:
                            v = None
                        cols.append(f.column)
                        vals.append(v)
                    with connection.cursor() as cur:
                        cur.execute('INSERT INTO "%s" (%s) VALUES (%s)' % (
                            model._meta.db_table,
                            ', '.join('"%s"' % c for c in cols),
                            ', '.join(['%s'] * len(vals))), vals)


def main():
    req = json.loads(sys.stdin.read())
    import django
    django.setup()
    from django.conf import settings
    from django.db import connections
    aliases = list(settings.DATABASES)
    app_prefixes = req.get('app_prefixes') or [
        a for a in settings.INSTALLED_APPS
        if a not in ('django.contrib.contenttypes', 'django_evolution')]
    result = {'outcome': 'ok', 'action': req.get('action')}
    rec = Recorder(fault=req.get('fault'), sql_limit=req.get('sql_limit', 300))
    keep = install_signal_receivers(rec)
    wrap_transactions(rec, aliases)
    wrap_evolver(rec)
    from contextlib import ExitStack
    stdout = io.StringIO()
    stderr = io.StringIO()
    try:
        import django_evolution.management as mgmt
        lock_before = mgmt._evolve_lock
    except Exception:
        mgmt = None
        lock_before = None
    action = req.get('action')
    try:
        with ExitStack() as stack:
            for alias in aliases:
                stack.enter_context(
                    connections[alias].execute_wrapper(rec.wrapper(alias)))
            if action == 'evolve_api':
                from django_evolution.compat.apps import get_app
                from django_evolution.evolve import Evolver
                evolver = Evolver(database_name=req.get('database', 'default'),
                                  hinted=bool(req.get('hinted')))
                if req.get('apps') is None:
                    evolver.queue_evolve_all_apps()
                else:
                    for label in req['apps']:
                        evolver.queue_evolve_app(get_app(label))
                if req.get('purge'):
                    evolver.queue_purge_old_apps()
                result['required'] = bool(evolver.get_evolution_required())
                result['can_simulate'] = bool(evolver.can_simulate())
                result['diff_empty'] = bool(
                    evolver.diff_evolutions().is_empty(
                        ignore_apps=not req.get('purge')))
                try:
                    st = getattr(evolver, '_evolve_app_task_state', None)
                    if st:
                        result['batches'] = [
                            {'type': b['type'],
                             'evolutions': {t.app_label: info.get('evolutions')
                                            for t, info in
                                            b.get('task_evolutions', {}).items()},
                             'new_models': [t.app_label for t in
                                            b.get('new_models_tasks', [])],
                             'migrations': [list(x) for x in
                                            b.get('migration_targets', [])]}
                            for b in st['batches']]
                except Exception:
                    pass
                if req.get('only_if_resolved') and result['required'] and \
                        result['can_simulate'] and not result['diff_empty']:
                    # what the evolve command does before executing anything
                    from django_evolution.errors import EvolutionException
                    raise EvolutionException(
                        'The stored evolutions do not completely resolve all model changes.')
                if req.get('execute', True) and (result['required'] or
                                                 not req.get('only_if_required')):
                    rec.emit('evolve_call')
                    evolver.evolve()
                    rec.emit('evolve_return')
            elif action == 'evolve_api_seq':
                # several databases evolved by THIS process, one Evolver after the other (the
                # evolution modules and the mutation objects in them are shared between them)
                from django_evolution.evolve import Evolver
                result['seq'] = []
                for dbname in req['databases']:
                    entry = {'db': dbname}
                    try:
                        evolver = Evolver(database_name=dbname)
                        evolver.queue_evolve_all_apps()
                        entry['required'] = bool(evolver.get_evolution_required())
                        if entry['required']:
                            evolver.evolve()
                        entry['outcome'] = 'ok'
                    except Exception as e_:
                        entry['outcome'] = 'error'
                        entry['error'] = '%s: %s' % (type(e_).__name__, str(e_)[:300])
                    result['seq'].append(entry)
            elif action == 'command':
                from django.core.management import call_command
                rec.in_evolve = req.get('fault_anywhere', True)
                call_command(req['name'], *req.get('args', []),
                             stdout=stdout, stderr=stderr,
                             **req.get('options', {}))
            elif action == 'snapshot':
                pass
            elif action == 'exec_sql':
                from django.db import connection as _conn
                with _conn.cursor() as _cur:
                    for _sql, _params in req.get('statements', []):
                        _cur.execute(_sql, _params)
            elif action == 'insert_rows':
                _insert_rows(req.get('nrows', 2), m2m=bool(req.get('m2m_rows')))
            else:
                raise ValueError('unknown action %r' % action)
    except BaseException as e:
        result['outcome'] = 'error'
        last = getattr(e, 'last_sql_statement', None)
        result['error'] = {
            'type': type(e).__name__,
            'msg': str(e)[:2000],
            'last_sql_statement': [last[0], _plain(last[1])] if last else None,
            'tb': traceback.format_exc(limit=12)[-3000:],
        }
    for alias in aliases:
        try:
            connections[alias].close()
        except Exception:
            pass
    result['events'] = rec.events
    result['fault_fired'] = rec.fired
    result['batch_statements'] = rec.batch_stmts
    result['all_statements'] = rec.all_stmts
    result['cmd_stdout'] = stdout.getvalue()
    result['cmd_stderr'] = stderr.getvalue()
    if mgmt is not None:
        result['lock'] = [lock_before, mgmt._evolve_lock]
    result['post'] = {}
    for alias in aliases:
        result['post'][alias] = {
            'book': book_state(alias),
            'db': db_projection(alias, app_prefixes) if req.get('project', True) else None,
        }
    if req.get('want_signature', True):
        result['signature'] = {alias: stored_signature(alias) for alias in aliases}
    sys.stdout.write('\n@@RESULT@@' + json.dumps(result, default=str))
    sys.stdout.flush()


if __name__ == '__main__':
    main()
