"""In-process Django bootstrap for the signature/mutator-level engines.

Creates two empty scratch app packages (``vapp`` and ``vapp2``) on disk,
configures Django with SQLite file databases inside the scratch directory and
puts /repo first on sys.path so that the *working tree* of django-evolution
is what gets imported.
"""

from __future__ import annotations

import os
import sys

from .common import REPO, scratch_dir

_done = False
APPS = ('vapp', 'vapp2')


def setup(extra_dbs=('other',), extra_apps=()):
    global _done
    if _done:
        return
    _done = True
    root = scratch_dir()
    pkgroot = os.path.join(root, 'pkgs')
    os.makedirs(pkgroot, exist_ok=True)
    for app in APPS + tuple(extra_apps):
        d = os.path.join(pkgroot, app)
        os.makedirs(d, exist_ok=True)
        for name in ('__init__.py', 'models.py'):
            with open(os.path.join(d, name), 'w') as fp:
                fp.write('')
    sys.path.insert(0, pkgroot)
    if REPO in sys.path:
        sys.path.remove(REPO)
    sys.path.insert(0, REPO)

    from django.conf import settings
    dbs = {
        'default': {
            'ENGINE': 'django.db.backends.sqlite3',
            'NAME': os.path.join(root, 'default.sqlite3'),
        },
    }
    for name in extra_dbs:
        dbs[name] = {
            'ENGINE': 'django.db.backends.sqlite3',
            'NAME': os.path.join(root, '%s.sqlite3' % name),
        }
    settings.configure(
        DEBUG=False,
        DATABASES=dbs,
        INSTALLED_APPS=['django.contrib.contenttypes', 'django_evolution']
        + list(APPS) + list(extra_apps),
        DEFAULT_AUTO_FIELD='django.db.models.AutoField',
        USE_TZ=True,
        SECRET_KEY='verif',
        DATABASE_ROUTERS=[],
    )
    import django
    django.setup()
    import django_evolution
    got = os.path.realpath(os.path.dirname(django_evolution.__file__))
    want = os.path.realpath(os.path.join(REPO, 'django_evolution'))
    if got != want:
        from .common import machinery_failure
        machinery_failure('django_evolution imported from %s, not %s' % (got, want))
