"""Projection of a SQLite database to the shape C01/C02 talk about.

Compared: tables; columns by name, declared type, nullability, primary key;
indexes by (column tuple, uniqueness, predicate); unique and check
constraints; foreign-key targets; rows.
Ignored: column order, index names, AUTOINCREMENT, quoting style.
"""

from __future__ import annotations

import re
import sqlite3

BOOKKEEPING = ('django_project_version', 'django_evolution',
               'django_migrations', 'django_content_type', 'sqlite_sequence')


def _norm_sql(s):
    s = re.sub(r'\s+', ' ', s or '').strip()
    return s.replace('`', '"')


def _checks(create_sql):
    """Extract CHECK (...) clauses from a CREATE TABLE statement."""
    out = []
    s = create_sql or ''
    i = 0
    up = s.upper()
    while True:
        j = up.find('CHECK', i)
        if j < 0:
            break
        k = s.find('(', j)
        if k < 0:
            break
        depth = 0
        end = k
        for end in range(k, len(s)):
            if s[end] == '(':
                depth += 1
            elif s[end] == ')':
                depth -= 1
                if depth == 0:
                    break
        clause = _norm_sql(s[k:end + 1]).replace('"', '').replace("'", '')
        clause = clause.replace(' ', '').lower()
        out.append(clause)
        i = end + 1
    return sorted(out)


def project_db(path_or_conn, include=None, exclude_prefixes=('sqlite_',),
               skip=BOOKKEEPING, with_rows=True):
    own = False
    if isinstance(path_or_conn, str):
        conn = sqlite3.connect(path_or_conn)
        own = True
    else:
        conn = path_or_conn
    cur = conn.cursor()
    tables = {}
    cur.execute("SELECT name, sql FROM sqlite_master WHERE type='table'")
    for name, sql in cur.fetchall():
        if name.startswith(exclude_prefixes) or name in skip:
            continue
        if include is not None and not include(name):
            continue
        cols = {}
        cur.execute('PRAGMA table_info("%s")' % name)
        pkcols = []
        for cid, cname, ctype, notnull, dflt, pk in cur.fetchall():
            cols[cname] = {'type': (ctype or '').lower().strip(),
                           'notnull': bool(notnull) or bool(pk),
                           'pk': bool(pk),
                           'default': dflt}
            if pk:
                pkcols.append(cname)
        idx = []
        cur.execute('PRAGMA index_list("%s")' % name)
        for row in cur.fetchall():
            iname, unique, origin, partial = row[1], row[2], row[3], row[4]
            if origin == 'pk':
                continue
            cur2 = conn.cursor()
            cur2.execute('PRAGMA index_xinfo("%s")' % iname)
            icols = []
            for r in cur2.fetchall():
                # seqno, cid, name, desc, coll, key
                if r[5]:
                    icols.append((r[2] if r[2] is not None else '<expr>')
                                 + (' DESC' if r[3] else ''))
            pred = ''
            if partial:
                cur2.execute("SELECT sql FROM sqlite_master WHERE name=?",
                             (iname,))
                isql = (cur2.fetchone() or [''])[0] or ''
                m = re.search(r'\bWHERE\b(.*)$', isql, re.I | re.S)
                if m:
                    pred = _norm_sql(m.group(1)).replace('"', '').lower()
            idx.append([icols, bool(unique), pred])
        fks = {}
        cur.execute('PRAGMA foreign_key_list("%s")' % name)
        for row in cur.fetchall():
            fks[row[3]] = [row[2], row[4]]
        rows = None
        if with_rows:
            order = ', '.join('"%s"' % c for c in pkcols) or 'rowid'
            cur.execute('SELECT * FROM "%s" ORDER BY %s' % (name, order))
            names = [d[0] for d in cur.description]
            rows = [dict(zip(names, r)) for r in cur.fetchall()]
        tables[name] = {
            'columns': cols,
            'indexes': sorted(idx, key=repr),
            'checks': _checks(sql),
            'fks': fks,
            'rows': rows,
            'sql': _norm_sql(sql),
        }
    fkcheck = []
    try:
        cur.execute('PRAGMA foreign_key_check')
        fkcheck = [list(r) for r in cur.fetchall()]
    except sqlite3.Error as e:
        # a dangling parent table makes the pragma itself fail
        fkcheck = [['error', str(e)]]
    integrity = []
    try:
        cur.execute('PRAGMA integrity_check')
        integrity = [r[0] for r in cur.fetchall()]
    except sqlite3.Error as e:
        integrity = ['error: %s' % e]
    if own:
        conn.close()
    return {'tables': tables, 'fk_check': fkcheck, 'integrity': integrity}


def schema_of(proj, drop_default=True):
    """Schema part only (no rows, no raw sql)."""
    out = {}
    for t, info in proj['tables'].items():
        cols = {}
        for c, ci in info['columns'].items():
            ci = dict(ci)
            if drop_default:
                ci.pop('default', None)
            cols[c] = ci
        out[t] = {'columns': cols, 'indexes': info['indexes'],
                  'checks': info['checks'], 'fks': info['fks']}
    return out


def diff_schema(a, b, what=('columns', 'indexes', 'checks', 'fks')):
    """Human-readable differences between two schema_of() results."""
    out = []
    for t in sorted(set(a) | set(b)):
        if t not in a:
            out.append({'table': t, 'kind': 'table-extra-in-second'})
            continue
        if t not in b:
            out.append({'table': t, 'kind': 'table-missing-in-second'})
            continue
        for key in what:
            if a[t][key] != b[t][key]:
                detail = {'table': t, 'kind': key, 'first': a[t][key],
                          'second': b[t][key]}
                if key == 'columns':
                    ca, cb = a[t][key], b[t][key]
                    detail = {'table': t, 'kind': 'columns',
                              'only_first': sorted(set(ca) - set(cb)),
                              'only_second': sorted(set(cb) - set(ca)),
                              'changed': {c: [ca[c], cb[c]] for c in ca
                                          if c in cb and ca[c] != cb[c]}}
                elif key == 'indexes':
                    ia = [repr(x) for x in a[t][key]]
                    ib = [repr(x) for x in b[t][key]]
                    detail = {'table': t, 'kind': 'indexes',
                              'only_first': sorted(set(ia) - set(ib)),
                              'only_second': sorted(set(ib) - set(ia))}
                out.append(detail)
    return out
