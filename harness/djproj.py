"""Synthetic Django project on disk: settings, app packages with models.py,
evolutions/ (SEQUENCE + one module per evolution) and optional migrations/.

A *history* of an app is a list of versions; version v consists of an abstract
signature (the models) and the evolutions e1..ev.  deploy(app, v) rewrites the
files, so that the next run sees the app "the normal way".
"""

from __future__ import annotations

import json
import os
import shutil
import subprocess
import sys
import tempfile

from .absmodel import CHECK_MIN, NONE, as_dict, norm_sig
from .common import REPO, VERIF, scratch_dir

PY = '/venv/bin/python'

FIELD_SRC = {
    'Auto': 'models.AutoField', 'Int': 'models.IntegerField',
    'BigInt': 'models.BigIntegerField', 'PosInt': 'models.PositiveIntegerField',
    'Char': 'models.CharField', 'Text': 'models.TextField',
    'Bool': 'models.BooleanField', 'Decimal': 'models.DecimalField',
    'DateTime': 'models.DateTimeField', 'FK': 'models.ForeignKey',
    'O2O': 'models.OneToOneField', 'M2M': 'models.ManyToManyField',
}


def render_models(sig, names, app):
    """models.py source for an abstract signature (model names are concrete
    through `names`; field/related names likewise)."""
    sig = norm_sig(sig)
    lines = ['from django.db import models', '', '']
    for mn in sorted(sig):
        ms = sig[mn]
        lines.append('class %s(models.Model):' % names.model(mn))
        body = []
        for fn, fs in ms['fields'].items():
            if fs['ftype'] == 'Auto' and fn == 'id':
                continue
            attrs = dict(as_dict(fs['attrs']))
            attrs.pop('related_model', None)
            args = []
            if fs['ftype'] in ('FK', 'O2O'):
                args.append(repr(str(names.rel(fs['rel'])) if '.' not in fs['rel']
                                 else fs['rel']))
                attrs['on_delete'] = '@models.CASCADE'
            elif fs['ftype'] == 'M2M':
                args.append(repr(str(names.rel(fs['rel'])) if '.' not in fs['rel']
                                 else fs['rel']))
                attrs.pop('null', None)
            if 'db_column' in attrs:
                from .absmodel import resolve_col
                attrs['db_column'] = resolve_col(attrs['db_column'], names)
            for k in sorted(attrs):
                v = attrs[k]
                if isinstance(v, str) and v.startswith('@'):
                    args.append('%s=%s' % (k, v[1:]))
                else:
                    args.append('%s=%r' % (k, v))
            body.append('    %s = %s(%s)' % (names.field(fn), FIELD_SRC[fs['ftype']],
                                             ', '.join(args)))
        meta = []
        if ms['table'] != 't_' + mn:
            meta.append('        db_table = %r' % (
                names.table(ms['table']) if ms['table'].startswith('t_')
                else ms['table']))
        if ms.get('comment'):
            meta.append('        db_table_comment = %r' % ms['comment'])
        if ms['ut']:
            meta.append('        unique_together = %r' % (
                [tuple(names.field(x) for x in t) for t in ms['ut']],))
        if ms.get('it'):
            meta.append('        index_together = %r' % (
                [tuple(names.field(x) for x in t) for t in ms['it']],))
        if ms.get('idx'):
            parts = []
            for ix in ms['idx']:
                if ix.get('expr', NONE) not in (NONE, None):
                    parts.append('models.Index(models.F(%r), name=%r)' % (names.field(ix['expr']), ix['name']))
                    continue
                kw = 'fields=%r' % [names.field(x) for x in ix['fields']]
                if ix.get('name', NONE) != NONE:
                    kw += ', name=%r' % ix['name']
                if ix.get('cond', NONE) not in (NONE, None):
                    kw += ', condition=models.Q(%s__gt=0)' % names.field(ix['cond'])
                parts.append('models.Index(%s)' % kw)
            meta.append('        indexes = [%s]' % ', '.join(parts))
        if ms.get('cons'):
            parts = []
            for c in ms['cons']:
                cond = c.get('cond', NONE)
                if c['kind'] == 'check':
                    parts.append('models.CheckConstraint(check=models.Q(%s__gte=%d), name=%r)'
                                 % (names.field(cond), CHECK_MIN, c['name']))
                else:
                    kw = 'fields=%r, name=%r' % ([names.field(x) for x in c['fields']], c['name'])
                    if cond not in (NONE, None):
                        kw += ', condition=models.Q(%s__gt=0)' % names.field(cond)
                    parts.append('models.UniqueConstraint(%s)' % kw)
            meta.append('        constraints = [%s]' % ', '.join(parts))
        if not body:
            body.append('    pass')
        lines += body
        if meta:
            lines.append('')
            lines.append('    class Meta:')
            lines += meta
        lines += ['', '']
    return '\n'.join(lines)


def render_mutation(mu, names, palette=None):
    """Python source of one abstract mutation (independent of generate_hint)."""
    from .absmodel import initial_for
    k = mu['k']

    def attrs_src(attrs, ftype):
        parts = []
        for key in sorted(as_dict(attrs)):
            v = as_dict(attrs)[key]
            if key == 'related_model':
                v = names.rel(v) if '.' not in v else v
            if key == 'db_column':
                from .absmodel import resolve_col
                v = resolve_col(v, names)
            parts.append('%s=%r' % (key, v))
        return parts
    if k == 'Add':
        parts = [repr(names.model(mu['m'])), repr(names.field(mu['f'])),
                 FIELD_SRC[mu['ftype']]] + attrs_src(mu['attrs'], mu['ftype'])
        init = initial_for(mu['ftype'], mu['init'], palette)
        if init is not None:
            parts.append('initial=%r' % (init,))
        return 'AddField(%s)' % ', '.join(parts)
    if k == 'Chg':
        parts = [repr(names.model(mu['m'])), repr(names.field(mu['f']))]
        if mu['ftype'] != NONE:
            parts.append('field_type=%s' % FIELD_SRC[mu['ftype']])
        parts += attrs_src(mu['attrs'], mu['ftype'])
        init = initial_for(mu.get('init_type') or (mu['ftype'] if mu['ftype'] != NONE else 'Int'),
                           mu['init'], palette)
        if init is not None:
            parts.append('initial=%r' % (init,))
        return 'ChangeField(%s)' % ', '.join(parts)
    if k == 'Del':
        return 'DeleteField(%r, %r)' % (names.model(mu['m']), names.field(mu['f']))
    if k == 'RenF':
        extra = ''
        if mu.get('dbcol', NONE) not in (NONE, None):
            from .absmodel import resolve_col
            extra = ', db_column=%r' % resolve_col(mu['dbcol'], names)
        return 'RenameField(%r, %r, %r%s)' % (names.model(mu['m']),
                                              names.field(mu['of']),
                                              names.field(mu['nf']), extra)
    if k == 'RenM':
        return 'RenameModel(%r, %r, db_table=%r)' % (
            names.model(mu['om']), names.model(mu['nm']),
            names.table(mu['dbtable']))
    if k == 'DelM':
        return 'DeleteModel(%r)' % names.model(mu['m'])
    if k == 'Meta':
        if mu['prop'] == 'constraints':
            parts = []
            for c in mu['ival']:
                cond = c.get('cond', NONE)
                if c['kind'] == 'check':
                    parts.append("{'type': models.CheckConstraint, 'name': %r, 'check': models.Q(%s__gte=%d)}"
                                 % (c['name'], names.field(cond), CHECK_MIN))
                else:
                    d = "{'type': models.UniqueConstraint, 'name': %r, 'fields': %r" % (
                        c['name'], [names.field(x) for x in c['fields']])
                    if cond not in (NONE, None):
                        d += ", 'condition': models.Q(%s__gt=0)" % names.field(cond)
                    parts.append(d + '}')
            return 'ChangeMeta(%r, %r, [%s])' % (names.model(mu['m']), 'constraints', ', '.join(parts))
        if mu['prop'] == 'indexes':
            parts = []
            for ix in mu['ival']:
                if ix.get('expr', NONE) not in (NONE, None):
                    parts.append("{'expressions': [models.F(%r)], 'name': %r}" % (names.field(ix['expr']), ix['name']))
                    continue
                d = "{'fields': %r" % [names.field(x) for x in ix['fields']]
                if ix.get('name', NONE) != NONE:
                    d += ", 'name': %r" % ix['name']
                if ix.get('cond', NONE) not in (NONE, None):
                    d += ", 'condition': models.Q(%s__gt=0)" % names.field(ix['cond'])
                parts.append(d + '}')
            return 'ChangeMeta(%r, %r, [%s])' % (names.model(mu['m']), 'indexes', ', '.join(parts))
        if mu['prop'] in ('unique_together', 'index_together'):
            val = [tuple(names.field(x) for x in t) for t in mu['val']]
        else:
            val = mu['val']
        return 'ChangeMeta(%r, %r, %r)' % (names.model(mu['m']), mu['prop'], val)
    if k == 'SQL':
        return "SQLMutation('barrier', ['SELECT 1;'], update_func=lambda simulation: None)"
    if k == 'Move':
        return 'MoveToDjangoMigrations(mark_applied=%r)' % (list(mu['mark_applied']),)
    if k == 'Raw':
        return mu['src']
    raise ValueError(k)


EVOLUTION_HEADER = '''from django.db import models
from django_evolution.mutations import (AddField, ChangeField, ChangeMeta,
                                        DeleteApplication, DeleteField,
                                        DeleteModel, MoveToDjangoMigrations,
                                        RenameAppLabel, RenameField,
                                        RenameModel, SQLMutation)

'''


class Project(object):
    """A project directory with any number of generated apps."""

    def __init__(self, apps, dbs=('default',), router=None, tag='proj'):
        self.root = tempfile.mkdtemp(prefix='%s-' % tag, dir=scratch_dir())
        self.apps = list(apps)
        self.dbs = list(dbs)
        self.router = router
        self.installed = list(apps)
        os.makedirs(os.path.join(self.root, 'db'), exist_ok=True)
        self.db_paths = {name: os.path.join(self.root, 'db', '%s.sqlite3' % name)
                         for name in self.dbs}
        for app in self.apps:
            d = os.path.join(self.root, app)
            os.makedirs(d, exist_ok=True)
            open(os.path.join(d, '__init__.py'), 'w').close()
            with open(os.path.join(d, 'models.py'), 'w') as fp:
                fp.write('from django.db import models\n')
        self.write_settings()

    def write_settings(self):
        dbs = {name: {'ENGINE': 'django.db.backends.sqlite3',
                      'NAME': self.db_paths[name]} for name in self.dbs}
        lines = [
            'SECRET_KEY = "verif"',
            'DEBUG = False',
            'USE_TZ = True',
            'DEFAULT_AUTO_FIELD = "django.db.models.AutoField"',
            'DATABASES = %r' % dbs,
            'INSTALLED_APPS = %r' % (['django.contrib.contenttypes',
                                      'django_evolution'] + self.installed),
        ]
        if self.router:
            with open(os.path.join(self.root, 'verif_router.py'), 'w') as fp:
                fp.write(self.router)
            lines.append('DATABASE_ROUTERS = ["verif_router.Router"]')
        with open(os.path.join(self.root, 'settings.py'), 'w') as fp:
            fp.write('\n'.join(lines) + '\n')

    def set_installed(self, apps):
        self.installed = list(apps)
        self.write_settings()

    def _clear_pyc(self, d):
        for dirpath, dirnames, filenames in os.walk(d):
            if os.path.basename(dirpath) == '__pycache__':
                shutil.rmtree(dirpath, ignore_errors=True)

    def deploy(self, app, models_src, evolutions, app_deps=None,
               migrations=None):
        """evolutions: list of dict(label, mutations_src=[...], deps={...})."""
        d = os.path.join(self.root, app)
        self._clear_pyc(d)
        with open(os.path.join(d, 'models.py'), 'w') as fp:
            fp.write(models_src)
        edir = os.path.join(d, 'evolutions')
        shutil.rmtree(edir, ignore_errors=True)
        if evolutions is not None:
            os.makedirs(edir)
            with open(os.path.join(edir, '__init__.py'), 'w') as fp:
                fp.write('SEQUENCE = %r\n' % [e['label'] for e in evolutions])
                for key, val in (app_deps or {}).items():
                    fp.write('%s = %r\n' % (key, val))
            for e in evolutions:
                with open(os.path.join(edir, '%s.py' % e['label']), 'w') as fp:
                    fp.write(EVOLUTION_HEADER)
                    for key, val in (e.get('deps') or {}).items():
                        fp.write('%s = %r\n' % (key, val))
                    fp.write('MUTATIONS = [\n')
                    for src in e['mutations_src']:
                        fp.write('    %s,\n' % src)
                    fp.write(']\n')
        mdir = os.path.join(d, 'migrations')
        shutil.rmtree(mdir, ignore_errors=True)
        if migrations is not None:
            os.makedirs(mdir)
            open(os.path.join(mdir, '__init__.py'), 'w').close()
            for name, src in migrations:
                with open(os.path.join(mdir, '%s.py' % name), 'w') as fp:
                    fp.write(src)

    def copy_dbs(self, tag):
        """Snapshot the database files; returns a token for restore_dbs."""
        d = os.path.join(self.root, 'dbsnap-%s' % tag)
        shutil.rmtree(d, ignore_errors=True)
        os.makedirs(d)
        for name, path in self.db_paths.items():
            if os.path.exists(path):
                shutil.copyfile(path, os.path.join(d, os.path.basename(path)))
        return d

    def restore_dbs(self, token):
        for name, path in self.db_paths.items():
            src = os.path.join(token, os.path.basename(path))
            if os.path.exists(src):
                shutil.copyfile(src, path)
            elif os.path.exists(path):
                os.remove(path)

    def reset_dbs(self):
        for path in self.db_paths.values():
            if os.path.exists(path):
                os.remove(path)

    def run(self, request, hashseed='0', timeout=120):
        """Execute one run in a fresh interpreter; returns the result dict."""
        env = dict(os.environ)
        env['PYTHONPATH'] = '%s:%s:%s' % (self.root, REPO, VERIF)
        env['DJANGO_SETTINGS_MODULE'] = 'settings'
        env['PYTHONHASHSEED'] = str(hashseed)
        env['PYTHONDONTWRITEBYTECODE'] = '1'
        proc = subprocess.run([PY, '-m', 'harness.runner'],
                              input=json.dumps(request), capture_output=True,
                              text=True, env=env, cwd=self.root, timeout=timeout)
        out = proc.stdout
        marker = '\n@@RESULT@@'
        if marker not in '\n' + out:
            return {'outcome': 'runner-crash', 'stdout': out[-2000:],
                    'stderr': proc.stderr[-4000:], 'returncode': proc.returncode}
        body = ('\n' + out).rsplit(marker, 1)[1]
        res = json.loads(body)
        res['stdout'] = ('\n' + out).rsplit(marker, 1)[0][-20000:]
        res['stderr'] = proc.stderr[-4000:]
        return res

    def destroy(self):
        shutil.rmtree(self.root, ignore_errors=True)
