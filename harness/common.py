"""Shared plumbing for every check: scratch space, evidence, findings, verdicts.

Verdict rules (DESIGN.md section 5):

* exit 0  - property held on everything explored, or every failing case
            matches an "open" entry of known_findings.json (KNOWN-FINDING line).
* exit 1  - at least one failing case no entry matches: VIOLATION line.
* exit 2  - the machinery itself failed.
"""

from __future__ import annotations

import atexit
import json
import os
import shutil
import sys
import tempfile
import time

VERIF = os.path.dirname(os.path.dirname(os.path.abspath(__file__)))
REPO = os.environ.get('VERIF_REPO', '/repo')
EVIDENCE_DIR = os.environ.get('VERIF_EVIDENCE_DIR') or os.path.join(VERIF, 'evidence')
REPLAY_DIR = os.environ.get('VERIF_REPLAY_DIR') or os.path.join(VERIF, 'replay')
FINDINGS_FILE = os.path.join(VERIF, 'known_findings.json')

_scratch = None


def scratch_dir():
    """Private scratch directory (tmpfs when available), removed on exit."""
    global _scratch
    if _scratch is None:
        base = '/dev/shm' if os.path.isdir('/dev/shm') and \
            os.access('/dev/shm', os.W_OK) else tempfile.gettempdir()
        _scratch = tempfile.mkdtemp(prefix='verif-%d-' % os.getpid(), dir=base)
        pid = os.getpid()

        def _cleanup(path=_scratch, pid=pid):
            # forked children must not remove the parent's scratch space
            if os.getpid() == pid:
                shutil.rmtree(path, ignore_errors=True)
        atexit.register(_cleanup)
    return _scratch


def seed():
    try:
        return int(os.environ.get('VERIF_SEED', '0'))
    except ValueError:
        return 0


class Findings(object):
    """known_findings.json: defects identified by fingerprint, never by id alone.

    An entry is {"property": "C01", "status": "open"|"fixed", "fingerprint":
    {...}, "what": "..."}; a failing case matches an entry when every key of
    the entry's fingerprint equals the case's fingerprint value (a list in the
    entry means "one of").  "fixed" entries suppress nothing.
    """

    def __init__(self, path=FINDINGS_FILE):
        self.entries = []
        if os.path.exists(path):
            with open(path) as fp:
                data = json.load(fp)
            self.entries = data.get('findings', [])

    def match(self, prop, fingerprint):
        for entry in self.entries:
            if entry.get('status') != 'open':
                continue
            if prop not in entry.get('properties', [entry.get('property')]):
                continue
            ok = True
            for key, want in entry.get('fingerprint', {}).items():
                if key.endswith('__any'):
                    # the case's list-valued field must intersect `want`
                    have = fingerprint.get(key[:-5]) or []
                    if not (set(have) & set(want)):
                        ok = False
                        break
                    continue
                if key.endswith('__subset'):
                    # the case's list-valued field must be non-empty and within `want`
                    have = fingerprint.get(key[:-8]) or []
                    if not have or not (set(have) <= set(want)):
                        ok = False
                        break
                    continue
                have = fingerprint.get(key)
                if isinstance(want, list):
                    if have not in want:
                        ok = False
                        break
                elif have != want:
                    ok = False
                    break
            if ok:
                return entry
        return None


class Report(object):
    """Collects the outcome of one check run and turns it into the verdict."""

    def __init__(self, prop, tier, level='model_checking'):
        self.prop = prop
        self.tier = tier
        self.level = level
        self.t0 = time.time()
        self.findings = Findings()
        self.coverage = {
            'states': 0,
            'transitions': 0,
            'traces_validated_against_impl': 0,
            'evaluations': 0,
            'distinct_nontrivial': 0,
            'rule': '',
            'samples': [],
            'exhaustive': False,
        }
        self.assumptions = []
        self.violations = []      # (fingerprint, detail)
        self.known = {}           # entry id -> (entry, count, first detail)
        self.drift = []           # spec/code disagreements that do not break the property
        self.notes = []
        self.tlc_runs = []

    # -- recording ---------------------------------------------------------
    def add_tlc(self, name, stats):
        self.tlc_runs.append(dict(stats, name=name))
        self.coverage['states'] += int(stats.get('distinct', 0))
        self.coverage['transitions'] += int(stats.get('generated', 0))

    def sample(self, obj, limit=6):
        if len(self.coverage['samples']) < limit:
            self.coverage['samples'].append(obj)

    def fail(self, fingerprint, detail):
        """A case where the real code disagrees with the property's own oracle."""
        entry = self.findings.match(self.prop, fingerprint)
        if entry is not None:
            key = entry.get('id') or json.dumps(entry.get('fingerprint'),
                                                 sort_keys=True)
            if key not in self.known:
                self.known[key] = [entry, 0, detail]
            self.known[key][1] += 1
        else:
            self.violations.append((fingerprint, detail))

    def spec_drift(self, what, detail=None):
        if len(self.drift) < 50:
            self.drift.append({'what': what, 'detail': detail})
        else:
            self.drift[-1] = {'what': 'more drift records elided'}

    # -- finishing ---------------------------------------------------------
    def finish(self):
        os.makedirs(EVIDENCE_DIR, exist_ok=True)
        wall = time.time() - self.t0
        replay_paths = []
        if self.violations:
            os.makedirs(os.path.join(REPLAY_DIR, self.prop), exist_ok=True)
            seen = set()
            for i, (fp, detail) in enumerate(self.violations):
                key = json.dumps(fp, sort_keys=True, default=str)
                if key in seen and len(seen) >= 1 and i > 20:
                    continue
                seen.add(key)
                if len(replay_paths) >= 10:
                    break
                path = os.path.join(REPLAY_DIR, self.prop,
                                    '%s-%s-%d.json' % (self.prop, self.tier, i))
                with open(path, 'w') as fp_:
                    json.dump({'property': self.prop, 'fingerprint': fp,
                               'detail': detail, 'tier': self.tier,
                               'seed': seed()}, fp_, indent=1, default=str)
                replay_paths.append(path)
        summary = {}
        for fp, _detail in self.violations:
            key = json.dumps(fp, sort_keys=True, default=str)
            summary[key] = summary.get(key, 0) + 1
        for key, n in sorted(summary.items(), key=lambda kv: -kv[1]):
            print('  unlisted failing cases: %6d  %s' % (n, key))
        if self.violations and os.environ.get('VERIF_DUMP'):
            with open(os.environ['VERIF_DUMP'], 'w') as fp_:
                for fp, detail in self.violations:
                    fp_.write(json.dumps({'fingerprint': fp, 'detail': detail},
                                         default=str) + '\n')
        cov = dict(self.coverage)
        cov['violation_classes'] = summary
        cov['spec_drift'] = self.drift
        cov['known_findings'] = [
            {'id': k, 'count': v[1], 'what': v[0].get('what')}
            for k, v in self.known.items()
        ]
        cov['tlc_runs'] = self.tlc_runs
        cov['notes'] = self.notes
        if not cov['samples']:
            cov['samples'] = ['(no case explored)']
        evidence = {
            'property_id': self.prop,
            'tier': self.tier,
            'seed': seed(),
            'level': self.level,
            'coverage': cov,
            'assumptions': self.assumptions,
            'wall_s': round(wall, 2),
            'violations': len(self.violations),
        }
        with open(os.path.join(EVIDENCE_DIR, '%s.json' % self.prop), 'w') as fp_:
            json.dump(evidence, fp_, indent=1, default=str)
        for key, (entry, count, detail) in self.known.items():
            print('KNOWN-FINDING: property=%s %s (%d cases; id=%s)'
                  % (self.prop, entry.get('what'), count, key))
        for d in self.drift[:10]:
            print('SPEC-DRIFT: property=%s %s' % (self.prop, d['what']))
        print('%s %s: states=%d evaluations=%d replayed=%d violations=%d '
              'known=%d drift=%d wall=%.1fs'
              % (self.prop, self.tier, cov['states'], cov['evaluations'],
                 cov['traces_validated_against_impl'], len(self.violations),
                 sum(v[1] for v in self.known.values()), len(self.drift), wall))
        if self.violations:
            for path in replay_paths:
                print('VIOLATION property=%s replay=%s' % (self.prop, path))
            return 1
        return 0


def machinery_failure(msg):
    sys.stderr.write('MACHINERY-FAILURE: %s\n' % msg)
    sys.stderr.flush()
    sys.exit(2)
