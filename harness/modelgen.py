"""Render an abstract signature as real Django model classes (in-process)."""

from __future__ import annotations

import warnings

from .absmodel import NONE, as_dict, field_class, norm_sig


def clear_app_models(app_label):
    from django.apps import apps
    apps.all_models[app_label].clear()
    try:
        cfg = apps.get_app_config(app_label)
        cfg.models = apps.all_models[app_label]
    except LookupError:
        pass
    # forget pending lazy relations that point into the cleared app
    for key in list(apps._pending_operations):
        if key[0] == app_label:
            del apps._pending_operations[key]
    apps.clear_cache()


def build_field(fs, names):
    from django.db import models
    ftype = fs['ftype']
    cls = field_class(ftype)
    attrs = dict(as_dict(fs['attrs']))
    attrs.pop('related_model', None)
    if 'db_column' in attrs:
        from .absmodel import resolve_col
        attrs['db_column'] = resolve_col(attrs['db_column'], names)
    if ftype in ('FK', 'O2O'):
        return cls(names.rel(fs['rel']), on_delete=models.CASCADE, **attrs)
    if ftype == 'M2M':
        attrs.pop('null', None)
        return cls(names.rel(fs['rel']), **attrs)
    return cls(**attrs)


def build_models(sig, names, extra_meta=None):
    """Create and register Django models for an abstract signature.

    Returns {abstract model name: model class}.  The app's previous models
    are unregistered first.
    """
    from django.apps import apps
    from django.db import models
    sig = norm_sig(sig)
    app = names.app
    clear_app_models(app)
    out = {}
    with warnings.catch_warnings():
        warnings.simplefilter('ignore')
        for mn in sorted(sig):
            ms = sig[mn]
            meta = {'app_label': app}
            default_table = 't_' + mn
            if ms['table'] != default_table:
                meta['db_table'] = names.table(ms['table']) \
                    if ms['table'].startswith('t_') else ms['table']
            if ms['ut']:
                meta['unique_together'] = [tuple(names.field(x) for x in t)
                                           for t in ms['ut']]
            if ms.get('idx'):
                idxs = []
                for ix in ms['idx']:
                    if ix.get('expr', NONE) not in (NONE, None):
                        idxs.append(models.Index(models.F(names.field(ix['expr'])), name=ix['name']))
                        continue
                    kw = {'fields': [names.field(x) for x in ix['fields']]}
                    if ix.get('name', NONE) != NONE:
                        kw['name'] = ix['name']
                    if ix.get('cond', NONE) not in (NONE, None):
                        kw['condition'] = models.Q(**{'%s__gt' % names.field(ix['cond']): 0})
                    idxs.append(models.Index(**kw))
                meta['indexes'] = idxs
            if ms.get('cons'):
                from .absmodel import concrete_constraint
                meta['constraints'] = [concrete_constraint(c, names, as_dict_form=False)
                                       for c in ms['cons']]
            if ms.get('comment'):
                meta['db_table_comment'] = ms['comment']
            if ms.get('it'):
                meta['index_together'] = [tuple(names.field(x) for x in t) for t in ms['it']]
            if extra_meta and mn in extra_meta:
                meta.update(extra_meta[mn])
            attrs = {'__module__': app + '.models',
                     'Meta': type('Meta', (), meta)}
            for fn, fs in ms['fields'].items():
                if fs['ftype'] == 'Auto' and fn == 'id':
                    continue        # Django adds the same AutoField itself
                attrs[names.field(fn)] = build_field(fs, names)
            out[mn] = type(str(names.model(mn)), (models.Model,), attrs)
    apps.clear_cache()
    return out
