"""One function per property: runs TLC, the conformance engine, writes evidence."""

from __future__ import annotations

from .common import Report


def c09(tier, replay=None):
    from . import djsetup
    djsetup.setup()
    from .engines import graph
    report = Report('C09', tier)
    report.coverage['rule'] = (
        'TLC enumerates every labelled digraph on N nodes (Graph.tla Init) and '
        'executes the transcribed get_ordered() step by step; every terminal '
        'state is replayed into the real DependencyGraph and judged by the '
        'topological-order / cycle oracle. Non-trivial = at least two edges; '
        'distinct = distinct (n, edge set).')
    report.assumptions += [
        'node identity = insertion index; keys are opaque strings',
        'any exception raised by get_ordered() counts as "reported as an error"',
    ]
    graph.run_core(report, tier)
    n_cfg, n_replayed = _c09_projects(report, tier)
    report.coverage['rule'] += (
        ' Part 2: EvoGraph.tla transcribes the construction of the evolution graph, batching and '
        'execution order for projects with applied/pending evolutions, new models and AFTER_/BEFORE_'
        'EVOLUTIONS declarations (all projects with 2 apps exhaustively, 3-4 apps sampled and '
        'evaluated by TLC): %d projects, %d replayed as real projects and judged on the order of '
        'creating_models / applying_evolution signals.' % (n_cfg, n_replayed))
    nt = set()
    n3, n3all = _c09_migrations(report, tier, nt)
    report.coverage['distinct_nontrivial'] += len(nt)
    report.coverage['rule'] += (
        ' Part 3: MigGraph.tla is the reference for evolutions next to Django migrations: two evolution apps and two '
        'migration apps with partly applied chains and up to two declarations (AFTER_/BEFORE_MIGRATIONS per evolution '
        'and per app, migration dependencies); TLC computes for each of %d configurations the requirements in force '
        'among pending units and whether they can be met; %d were built as real projects and the order of '
        'applying_evolution / applying_migration signals judged against them.' % (n3all, n3))
    n4 = _c09_handover_declared(report, tier, nt)
    report.coverage['distinct_nontrivial'] += 0
    report.coverage['rule'] += (
        ' Part 4: Handover.tla with `declares`: the evolution carrying MoveToDjangoMigrations (which generates '
        'dependencies itself) also declares AFTER_MIGRATIONS on another app\'s pending migration; %d handovers '
        'replayed, the migration\'s statement has to precede the evolution\'s.' % n4)
    report.coverage['exhaustive'] = False
    return report.finish()


REGISTRY = {
    'C09': c09,
}


# ---------------------------------------------------------------------------
# C03 / C18: the optimiser and the rebuild plan (Optimizer.tla + mutseq engine)

MERGEABLE_DOC = '{"add_column", "change_column", "change_meta", "delete_column"}'


def _code_mergeable():
    """The tuple the code really uses, rendered as a TLA+ set (binding)."""
    from django_evolution.db.sqlite3 import EvolutionOperations
    return '{%s}' % ', '.join('"%s"' % t for t in EvolutionOperations.mergeable_ops)


def _optimizer_cfg(maxlen, start, alpha, mergeable, emit=True):
    from .tlc import write_cfg
    return write_cfg('MC_Optimizer_%d_%d_%d.cfg' % (maxlen, start, alpha), '''
SPECIFICATION Spec
CONSTANTS
  MaxLen = %d
  StartId = %d
  AlphaId = %d
  Mergeable = %s
  EmitRecords = %s
CONSTRAINT Constraint
''' % (maxlen, start, alpha, mergeable, 'TRUE' if emit else 'FALSE'))


def _optimizer_space(tier):
    """(maxlen, start, alpha) triples explored exhaustively by TLC."""
    import os
    if os.environ.get('VERIF_OPT_SPACE'):        # debugging aid: "len,start,alpha;..."
        return [tuple(int(x) for x in part.split(',')) for part in os.environ['VERIF_OPT_SPACE'].split(';')]
    if tier == 'quick':
        return [(2, 1, 1), (3, 3, 2), (2, 2, 3), (2, 4, 4), (4, 3, 5), (2, 12, 13), (4, 1, 14), (3, 1, 15)]
    return [(3, 1, 1), (4, 3, 2), (3, 2, 3), (3, 2, 1), (3, 4, 4), (5, 3, 5),
            (3, 6, 1), (3, 7, 7), (3, 8, 8), (3, 9, 10), (3, 1, 9), (3, 12, 13), (3, 11, 12), (3, 5, 11), (5, 1, 14)]


def _start_sig(start_id):
    """Start signature as TLC prints it (one tiny TLC evaluation, cached)."""
    from .tlc import run_tlc, require_ok, write_cfg
    global _START_CACHE
    try:
        return _START_CACHE[start_id]
    except (NameError, KeyError):
        pass
    cfg = write_cfg('MC_Optimizer_start_%d.cfg' % start_id, '''
SPECIFICATION Spec
CONSTANTS
  MaxLen = 0
  StartId = %d
  AlphaId = 9
  Mergeable = {}
  EmitRecords = TRUE
CONSTRAINT Constraint
''' % start_id)
    res = require_ok(run_tlc('Optimizer', cfg, workers=1), 'start signature')
    sig = res.records[0]['final']
    try:
        _START_CACHE[start_id] = sig
    except NameError:
        _START_CACHE = {start_id: sig}
    return sig


_START_CACHE = {}


def _explore_optimizer(report, tier, mergeable):
    from .tlc import run_tlc, require_ok
    out = []
    for maxlen, start, alpha in _optimizer_space(tier):
        cfg = _optimizer_cfg(maxlen, start, alpha, mergeable)
        res = require_ok(run_tlc('Optimizer', cfg, workers=16, timeout=5400),
                         'Optimizer.tla len<=%d start=%d alpha=%d' % (maxlen, start, alpha))
        report.add_tlc('Optimizer len<=%d start=%d alpha=%d' % (maxlen, start, alpha),
                       res.stats())
        if res.invariant_violated:
            report.notes.append('TLC: invariant %s violated in Optimizer.tla (start=%d alpha=%d)'
                                % (res.invariant_violated, start, alpha))
        start_sig = _start_sig(start)
        for rec in res.records:
            rec['_space'] = (maxlen, start, alpha)
            out.append((rec, start_sig))
    return out


def _seq_shape(seq):
    """What kind of sequence this is, names abstracted away: per mutation its kind, the attributes
    it sets (with values), whether it carries an initial value / a type, and which EARLIER mutation of
    the sequence touched the same model / field (so that `add x, barrier, change x` is one shape
    whatever x is)."""
    out = []
    seen_f, seen_m = {}, {}
    for i, mu in enumerate(seq):
        attrs = mu.get('attrs') or {}
        if not isinstance(attrs, dict):
            attrs = dict(attrs) if attrs else {}
        fkey = (mu.get('m'), mu.get('f') if mu.get('f') not in (None, 'None') else mu.get('of'))
        mkey = mu.get('m') if mu.get('m') not in (None, 'None') else mu.get('om')
        out.append((mu.get('k'), tuple(sorted((k_, repr(v_)) for k_, v_ in attrs.items() if k_ != 'related_model')),
                    mu.get('init') not in (None, 'None'), mu.get('ftype') not in (None, 'None') and mu.get('k') == 'Chg',
                    mu.get('prop'), seen_f.get(fkey, -1) if fkey[1] not in (None, 'None') else -1,
                    seen_m.get(mkey, -1)))
        if fkey[1] not in (None, 'None'):
            seen_f.setdefault(fkey, i)
            if mu.get('k') == 'RenF':
                seen_f.setdefault((mu.get('m'), mu.get('nf')), i)
        seen_m.setdefault(mkey, i)
    return tuple(out)


def _pick(records, limit, rng):
    """All records when they fit, else half the budget for records with a predicted violation and
    half for the others, each drawn round-robin over the SHAPES of the sequences (_seq_shape) so that
    rare shapes are executed as surely as common ones."""
    if len(records) <= limit:
        return list(records)

    def spread(pool, n):
        strata = {}
        for r in pool:
            strata.setdefault(_seq_shape(r[0]['seq']), []).append(r)
        keys = sorted(strata, key=repr)
        rng.shuffle(keys)
        for k in keys:
            rng.shuffle(strata[k])
        out = []
        while len(out) < n and any(strata[k] for k in keys):
            for k in keys:
                if strata[k] and len(out) < n:
                    out.append(strata[k].pop())
        return out
    hot = spread([r for r in records if r[0]['viol']], limit // 2)
    cold = spread([r for r in records if not r[0]['viol']], max(0, limit - len(hot)))
    return hot + cold


def _mutseq_check(prop, tier, judge_name):
    import random
    from . import djsetup
    djsetup.setup()
    from .absmodel import ALT_NAMES, norm_mutation, short
    from .common import seed
    from .engines import mutseq
    report = Report(prop, tier)
    mergeable = _code_mergeable()
    report.notes.append('Mergeable bound to the code: %s' % mergeable)
    recs = _explore_optimizer(report, tier, mergeable)
    rng = random.Random(seed() * 1000003 + 11)
    limit = 2400 if tier == 'quick' else 50000
    # a space small enough is replayed in full; the budget is spread over the others
    per_space = {}
    for item in recs:
        per_space.setdefault(item[0].get('_space'), []).append(item)
    small = [it for sp, items in sorted(per_space.items(), key=repr) if len(items) <= 700 for it in items]
    large = [it for sp, items in sorted(per_space.items(), key=repr) if len(items) > 700 for it in items]
    chosen = small + _pick(large, max(0, limit - len(small)), rng)
    jobs = []
    for i, (rec, start_sig) in enumerate(chosen):
        names_idx = i % len(ALT_NAMES) if tier == 'thorough' else (i % 2)
        split = 'single' if i % 3 else 'each'
        jobs.append((rec, start_sig, names_idx, split, prop == 'C03'))
    observations = mutseq.observe_many(jobs)
    nontrivial = set()
    harness_errors = 0
    ref_failed = 0
    for (rec, start_sig, names_idx, split, _w), obs in zip(jobs, observations):
        report.coverage['evaluations'] += 1
        seq = [norm_mutation(m) for m in rec['seq']]
        key = json_key(seq, rec['start'])
        if len(seq) >= 2:
            nontrivial.add(key)
        if obs is None or obs.get('harness_error'):
            harness_errors += 1
            if harness_errors <= 3:
                report.notes.append('harness error: %s' % (obs or {}).get('harness_error'))
            continue
        report.coverage['traces_validated_against_impl'] += 1
        if not obs.get('ref', {}).get('ok'):
            ref_failed += 1
        label = [short(m) for m in seq]
        if prop == 'C03':
            fails = mutseq.c03_failures(rec, obs)
            for cls, detail in fails:
                clause = mutseq.C03_CLAUSE[cls]
                predicted = clause in rec['viol']
                if cls in mutseq.DB_LEVEL and not predicted:
                    # a predicted signature difference explains a schema difference
                    predicted = (('OptSameSig' if cls.startswith('opt-') else 'TwoPassSameSig')
                                 in rec['viol'])
                    if not predicted and cls in ('opt-exec-failed', 'pipeline-exec-failed'):
                        # ... and a predicted difference in what the rows hold explains an execution
                        # that fails on the rows (a merged AddField inherits a ChangeField's initial
                        # value: every row gets it, and a unique column cannot take it)
                        predicted = (('OptSameData' if cls.startswith('opt-') else 'TwoPassSameData')
                                     in rec['viol'])
                fp = {'class': cls, 'predicted_by_spec': predicted,
                      'level': 'db' if cls in mutseq.DB_LEVEL else 'sig',
                      'hazards': sorted(rec.get('hazards') or [])}
                if cls.startswith('opt-') and predicted and cls not in mutseq.DB_LEVEL:
                    fp['cause'] = rec.get('cause')
                report.fail(fp, {'sequence': label, 'start': rec['start'],
                                 'names': names_idx, 'split': split,
                                 'observed': detail, 'spec_viol': rec['viol'],
                                 'abstract_seq': seq})
            # binding: surviving list vs the transcription's prediction
            if obs.get('opt_list') is not None:
                want = [norm_mutation(m) for m in rec['optlist']]
                have = [norm_mutation(m) for m in obs['opt_list']]
                # a boolean column has two values: the tokens i and p are the same value there
                boolf = set((m['m'], m['f']) for m in seq if m['k'] in ('Add', 'Chg') and m.get('ftype') == 'Bool')
                if boolf:
                    for lst in (want, have):
                        for m in lst:
                            if m.get('init') == 'p' and m['k'] in ('Add', 'Chg'):
                                m['init'] = 'i'
                if want != have and rec['optOk']:
                    report.spec_drift('optimised list differs from Optimizer.tla for %s' % label,
                                      {'spec': [short(m) for m in want],
                                       'code': [short(m) for m in have]})
            # spec predicted a violation the code does not show -> drift, not alarm
            seen = set(mutseq.C03_CLAUSE[c] for c, _ in fails)
            for clause in rec['viol']:
                if clause in ('RebuildsNotWorse', 'OneRebuildPerMergeableRun'):
                    continue
                if clause in ('OptSameData', 'TwoPassSameData') and any(
                        c in ('opt-exec-failed', 'pipeline-exec-failed', 'opt-schema-differs',
                              'pipeline-schema-differs', 'opt-sig-differs', 'pipeline-sig-differs',
                              'opt-rejected', 'pipeline-rejected') for c, _ in fails):
                    continue        # rows are only compared when the schemas agree
                if clause in ('OptSameSig', 'TwoPassSameSig') and any(
                        c in ('opt-rejected', 'pipeline-rejected') for c, _ in fails):
                    continue        # no signature to compare: the run was refused (a violation already)
                if clause in ('OptSameData', 'TwoPassSameData') and any(
                        m['k'] in ('Add', 'Chg') and m.get('ftype') == 'Bool' for m in seq) and \
                        set(m.get('init') for m in seq) >= {'i', 'p'}:
                    continue        # two tokens, one value: a boolean column has no third value
                if clause not in seen and obs.get('ref', {}).get('ok'):
                    report.spec_drift('Optimizer.tla predicts %s for %s but the code satisfies it'
                                      % (clause, label))
        else:
            names = ALT_NAMES[names_idx]
            fails = mutseq.c18_failures(rec, obs, names, start_sig)
            for cls, detail in fails:
                clause = ('RebuildsNotWorse' if cls == 'more-rebuilds-than-unbatched'
                          else 'OneRebuildPerMergeableRun')
                fp18 = {'class': cls, 'predicted_by_spec': clause in rec['viol']}
                if cls == 'mergeable-run-rebuilt-twice':
                    # a many-to-many field added / deleted inside the run: its own table is
                    # created / dropped by a plain statement between the two halves of the run
                    start_fields = (start_sig.get(seq[0]['m']) or {}).get('fields', {}) if seq else {}
                    fp18['m2m_change_in_run'] = any(
                        (mu_['k'] == 'Add' and mu_['ftype'] == 'M2M') or
                        (mu_['k'] == 'Del' and any((ms_.get('fields') or {}).get(mu_['f'], {}).get('ftype') == 'M2M'
                                                   for ms_ in start_sig.values()))
                        for mu_ in seq)
                if cls == 'mergeable-run-rebuilt-twice':
                    # a ChangeField of the run is followed, later in the sequence, by a type change of
                    # the same field: the optimiser folds the two, which moves the (unmergeable) type
                    # change into the middle of the run
                    fp18['type_change_folded_into_run'] = any(
                        a_['k'] == 'Chg' and any(
                            b_['k'] == 'Chg' and b_['ftype'] != 'None' and b_['m'] == a_['m'] and b_['f'] == a_['f']
                            for b_ in seq[i_ + 1:])
                        for i_, a_ in enumerate(seq))
                report.fail(fp18,
                            {'sequence': label, 'start': rec['start'],
                             'observed': detail, 'abstract_seq': seq})
            # binding of the rebuild plan
            if obs.get('rebuilds_bat') is not None and rec['optOk']:
                want = {names.table(t): n for t, n in dict_or_empty(rec['rbOpt']).items()}
                if want != obs['rebuilds_bat']:
                    report.spec_drift('rebuild plan differs for %s' % label,
                                      {'spec': want, 'code': obs['rebuilds_bat']})
        report.sample({'sequence': label, 'start': rec['start'],
                       'spec_viol': rec['viol'],
                       'real': {k: obs.get(k) for k in ('ref', 'bat', 'evo',
                                                        'rebuilds_ref', 'rebuilds_bat')}})
    nspread = 0
    if judge_name == 'c18':
        nspread = _c18_spread_over_apps(report, tier, nontrivial)
    report.coverage['distinct_nontrivial'] = len(nontrivial)
    report.coverage['exhaustive'] = len(chosen) == len(recs) and harness_errors == 0
    report.coverage['rule'] = (
        ('Part 2: %d projects of the EvoGraph family (several apps, dependencies, new models; every evolution '
         'adds one column, so all of an app\'s pending evolutions are mergeable): the app\'s table is rebuilt once '
         'unless another app\'s evolution has to run in-between, never more often than it has evolutions; '
         'EvoGraph.tla predicts the number of batches.  Part 1: ' % nspread if nspread else '') +
        'TLC enumerates every simulation-valid mutation sequence up to the length bound over '
        'the alphabets of Optimizer.tla (Extend enabled iff Sig!Sim accepts) and evaluates the '
        'transcribed optimiser on each; %d of %d sequences were replayed into the real code '
        'through three pipelines on identical databases. Non-trivial = length >= 2; distinct = '
        'distinct (start signature, sequence).' % (len(chosen), len(recs)))
    report.notes.append('reference (one-at-a-time) run failed on the real code for %d sequences '
                        '(outside this property; see C01)' % ref_failed)
    if harness_errors:
        report.notes.append('%d harness errors' % harness_errors)
        if harness_errors > len(jobs) // 10:
            from .common import machinery_failure
            machinery_failure('too many harness errors (%d of %d)' % (harness_errors, len(jobs)))
    report.assumptions += [
        'abstract names are concretised through order-preserving renamings',
        'SQLite 3.26+ (native RENAME COLUMN)',
        'a sequence is in scope only if the real one-at-a-time run accepts and executes it',
    ]
    return report.finish()


def dict_or_empty(x):
    return {} if x == [] or x is None else x


def json_key(seq, start):
    import json
    return json.dumps([start, seq], sort_keys=True)


def c03(tier, replay=None):
    return _mutseq_check('C03', tier, 'c03')


def c18(tier, replay=None):
    return _mutseq_check('C18', tier, 'c18')


def _c18_spread_over_apps(report, tier, nontrivial):
    """C18, "however many evolutions they are spread over": projects of the EvoGraph family (every
    evolution adds one nullable column to its app's table, so all of an app's pending evolutions are
    mergeable) with dependencies between apps and new models; EvoGraph.tla says in how many batches -
    AppMutator runs, hence rebuilds - each app's evolutions end up (InvOneBatchUnlessInterleaved)."""
    import json as _json
    import os
    import random
    from concurrent.futures import ThreadPoolExecutor
    from .common import scratch_dir, seed
    from .engines import evograph as G
    from .tlc import run_tlc, require_ok, write_cfg
    rng = random.Random(seed() * 9973 + 18)
    count = 30 if tier == 'quick' else 300
    cfgs = G.interleave_configs() + [
        # app1: e1, e2 (after the brand-new app2): the order is e1, create app2's model, e2
        {'napps': 2, 'applied': [0, 0], 'pending': [2, 0], 'newm': [False, True],
         'after': [], 'before': [], 'eafter': [[1, [2, 0], 2]]},
        {'napps': 3, 'applied': [1, 0, 0], 'pending': [3, 0, 1], 'newm': [False, True, False],
         'after': [], 'before': [], 'eafter': [[1, [2, 0], 2]]},
        {'napps': 3, 'applied': [0, 1, 0], 'pending': [2, 2, 0], 'newm': [True, False, True],
         'after': [], 'before': [], 'eafter': [[2, [3, 0], 2]]},
    ]
    for c in G.sample_configs(rng, 3, count * 3):
        # keep the ones where some app has two or more pending evolutions
        if max(c['pending']) >= 2 and len(cfgs) < count:
            cfgs.append(c)
    by_napps = {}
    for c in cfgs:
        by_napps.setdefault(c['napps'], []).append(c)
    records = []
    for napps, cs in sorted(by_napps.items()):
        path = os.path.join(scratch_dir(), 'evograph-c18-%d.json' % napps)
        with open(path, 'w') as fp:
            _json.dump(cs, fp)
        cfg = write_cfg('MC_EvoGraph_c18_%d.cfg' % napps, '''
SPECIFICATION Spec
CONSTANTS
  NApps = %d
  MaxPending = 3
  FromFile = TRUE
  EmitRecords = TRUE
CONSTRAINT Constraint
INVARIANT InvOneBatchUnlessInterleaved
''' % napps)
        res = require_ok(run_tlc('EvoGraph', cfg, workers=8, timeout=3000, env={'CFG_FILE': path}),
                         'EvoGraph.tla (C18 family) NApps=%d' % napps)
        report.add_tlc('EvoGraph NApps=%d (%d projects, C18 family)' % (napps, len(cs)), res.stats())
        seen = set()
        for r in res.records:
            key = _json.dumps({k: r[k] for k in ('applied', 'pending', 'newm', 'after', 'before', 'eafter')},
                              sort_keys=True)
            if key not in seen:
                seen.add(key)
                records.append(r)

    def norm(r):
        return {'napps': r['napps'], 'applied': list(r['applied']), 'pending': list(r['pending']),
                'newm': list(r['newm']), 'after': [list(x) for x in r['after']],
                'before': [list(x) for x in r['before']],
                'eafter': [[x[0], list(x[1]), x[2] if len(x) > 2 else 1] for x in r['eafter']]}

    def one(r):
        try:
            return G.run_config(norm(r))
        except Exception:
            import traceback
            return {'harness_error': traceback.format_exc(limit=5)}
    with ThreadPoolExecutor(12) as ex:
        observations = list(ex.map(one, records))
    for r, obs in zip(records, observations):
        cfgd = norm(r)
        report.coverage['evaluations'] += 1
        if obs.get('harness_error') or obs.get('setup_error'):
            report.notes.append('C18 family project problem: %s' % (obs.get('harness_error') or obs.get('setup_error')))
            continue
        report.coverage['traces_validated_against_impl'] += 1
        if obs['outcome'] != 'ok':
            continue
        nontrivial.add('spread:' + _json.dumps(cfgd, sort_keys=True))
        for cls, detail in G.spread_failures(cfgd, obs):
            report.fail({'class': cls, 'part': 'spread-over-apps'},
                        {'project': cfgd, 'real_order': obs['order'], 'rebuilds': obs['rebuilds'],
                         'observed': detail})
        if r['ok']:
            want = {a: n for a, n in enumerate(r['nbatches'], 1) if n} if isinstance(r['nbatches'], list) \
                else {int(a): n for a, n in r['nbatches'].items() if n}
            have = {a: n for a, n in obs['rebuilds'].items() if n}
            if want != have:
                report.spec_drift('EvoGraph.tla puts the apps\' evolutions into %s batches, the tables were rebuilt %s times'
                                  % (want, have), cfgd)
    return len(records)


REGISTRY.update({'C03': c03, 'C18': c18})


# ---------------------------------------------------------------------------
# Run histories: Evolver.tla / EvolverGen.tla / EvolverTrace.tla + runs engine

def _select_histories(recs, limit, rng, want_fault=None, min_runs=1, focus_app=None):
    pool = []
    for r in recs:
        hist = r['hist']
        nruns = sum(1 for op in hist if op['op'] == 'run')
        has_fault = any(op['op'] == 'fault' for op in hist)
        if nruns < min_runs:
            continue
        if want_fault is True and not has_fault:
            continue
        if want_fault is False and has_fault:
            continue
        pool.append(r)
    rng.shuffle(pool)
    # prefer longer histories: they contain the shorter ones as prefixes
    pool.sort(key=lambda r: -len(r['hist']))
    if len(pool) <= limit:
        return pool

    # ... but spread the sample over the SHAPES of the upgrade paths: per app the jumps its runs make
    # (fresh install at v: -1>v, direct upgrade 0>2, stepwise 0>1 1>2, ...), the drivers and the fault
    # points, so that every kind of path the property quantifies over is replayed
    def shape(r):
        code, at, jumps = {}, {}, {}
        ops = r['hist']
        out = []
        for i, op in enumerate(ops):
            if op['op'] == 'deploy':
                code[op['app']] = op['ver']
            elif op['op'] == 'run':
                failing = i + 1 < len(ops) and ops[i + 1]['op'] == 'fault'
                if all(code[a] == at.get(a, -1) for a in code):
                    # a run with nothing to do, by driver (the API runs evolve() all the same)
                    out.append(('idle', op.get('drv'), None))
                for a in sorted(code):
                    if code[a] != at.get(a, -1):
                        jumps.setdefault(a, []).append((at.get(a, -1), code[a], failing))
                        if not failing:
                            at[a] = code[a]
            elif op['op'] == 'fault':
                out.append((op.get('app'), op.get('phase'), op.get('stmt')))
        return (tuple((a, tuple(j)) for a, j in sorted(jumps.items())), tuple(out))
    strata = {}
    for r in pool:
        strata.setdefault(shape(r), []).append(r)
    keys = sorted(strata, key=repr)
    rng.shuffle(keys)
    if focus_app:
        # the family under test differs in ONE app: go round its path shapes first
        def focus(k):
            return repr([j for a, j in k[0] if a == focus_app])
        groups = {}
        for k in keys:
            groups.setdefault(focus(k), []).append(k)
        order = []
        gkeys = sorted(groups)
        while any(groups[g] for g in gkeys):
            for g in gkeys:
                if groups[g]:
                    order.append(groups[g].pop(0))
        keys = order
    chosen = []
    while len(chosen) < limit and any(strata[k] for k in keys):
        for k in keys:
            if strata[k] and len(chosen) < limit:
                chosen.append(strata[k].pop(0))
    return chosen


def _run_histories(report, tier, maxver, maxruns, limit, faults, want_fault=None,
                   variant=0, extend=None, a2_variant=None, with_rows=False):
    """Generate histories with TLC, replay them, validate all traces.
    Returns list of (history record, [run records], [trace verdicts])."""
    import random
    from concurrent.futures import ThreadPoolExecutor
    from .common import seed
    from .engines import runs
    rng = random.Random(seed() * 7907 + maxver * 31 + maxruns)
    gen = runs.generate_histories(report, maxver, maxruns, faults=faults)
    chosen = _select_histories(gen, limit, rng, want_fault=want_fault,
                               focus_app='a2' if a2_variant is not None else None)
    if extend:
        chosen = [extend(r) for r in chosen]
    histories = runs.make_histories(maxver, variant=variant, a2_variant=a2_variant)
    oracles = runs.Oracles(histories)
    oracles.compute()

    def one(rec):
        import copy
        return runs.execute_history(rec['hist'], histories, oracles, with_rows=with_rows)
    with ThreadPoolExecutor(12) as ex:
        results = list(ex.map(one, chosen))
    traces = []
    index = []
    skipped = 0
    for hi, runrecs in enumerate(results):
        for ri, rr in enumerate(runrecs):
            if 'trace' in rr:
                pre = rr['pre']
                # a run that STARTS from a state only a named deviation can leave
                # behind (tables ahead of the stored signature) is outside the model
                if any(pre['tab'][a] != pre['stored'][a] or pre.get('g2', {}).get(a)
                       or pre['part'][a] for a in pre['tab']):
                    skipped += 1
                    continue
                index.append((hi, ri))
                traces.append(rr['trace'])
    if skipped:
        report.notes.append('%d runs start from a deviation-only state (tables ahead of the stored '
                            'signature) and were judged by the oracles only, not trace-validated' % skipped)
    verdicts = runs.validate_traces(report, traces, maxver)
    for (hi, ri), v in zip(index, verdicts):
        results[hi][ri]['verdict'] = v
    report.coverage['traces_validated_against_impl'] += len(traces)
    return chosen, results, histories, oracles, len(gen)


def _hist_label(hist):
    out = []
    for op in hist:
        if op['op'] == 'deploy':
            out.append('deploy(%s@%d)' % (op['app'], op['ver']))
        elif op['op'] == 'run':
            out.append('run[%s]' % op['drv'])
        elif op['op'] == 'fault':
            out.append('fault(%s,%s,%d)' % (op['phase'], op['app'], op['stmt']))
        else:
            out.append(op['op'])
    return ' '.join(out)


def _trace_rejections(report, prop, chosen, results):
    """A trace the deviation-enabled specification cannot explain is a
    spec/code disagreement: reported as drift unless the property's own oracle
    also fails (handled by the judges)."""
    n = 0
    for rec, runrecs in zip(chosen, results):
        for rr in runrecs:
            v = rr.get('verdict')
            if v and v['reached'] < v['length']:
                n += 1
                ev = rr['trace']['events']
                report.spec_drift(
                    'EvolverTrace rejects a recorded run at event %d (%s) after pc=%s: %s'
                    % (v['reached'] + 1, ev[v['reached']]['ev'],
                       v['pcs'].get(v['reached']), _hist_label(rec['hist'])),
                    {'event': ev[v['reached']],
                     'prefix': [e['ev'] for e in ev[:v['reached']]]})
    return n


def _clause_hits(rr, clause):
    v = rr.get('verdict')
    if not v:
        return False
    return any(clause in s for s in v['viol'].values())


def c04(tier, replay=None):
    from .dbproj import diff_schema, schema_of
    from .engines import runs as runs_mod
    report = Report('C04', tier)
    maxver, maxruns, limit = (2, 3, 40) if tier == 'quick' else (3, 4, 400)
    nontrivial = set()
    all_chosen, ngen = 0, 0
    # second family: app a2's second evolution starts with RenameModel to a new table
    # third family: app a2's first evolution deletes a column that its second evolution adds back
    for family, a2_variant, share in (('chain', None, 1.0), ('rename', 3, 0.5), ('readd', 4, 0.5)):
        try:
            chosen, results, histories, oracles, n = _run_histories(
                report, tier, maxver, maxruns, int(limit * share), faults=False, a2_variant=a2_variant,
                with_rows=True)
        except runs_mod.OracleInstallFailed as e:
            # the first of the paths the property names - a fresh installation of the final
            # version - does not even complete
            err = e.error if isinstance(e.error, dict) else {}
            report.fail({'class': 'fresh-install-of-a-version-failed', 'family': family,
                         'error_type': err.get('type')},
                        {'app': e.app, 'version': e.version, 'error': err.get('msg'), 'tb': err.get('tb')})
            continue
        all_chosen += len(chosen)
        ngen += n
        _c04_judge(report, tier, family, chosen, results, histories, oracles, nontrivial)
    report.coverage['distinct_nontrivial'] = len(nontrivial)
    report.coverage['exhaustive'] = all_chosen == ngen
    report.coverage['rule'] = (
        'TLC explores Evolver.tla (2 apps, MaxVer=%d, <=%d runs, drivers api/cmd, no faults) and '
        'prints one history per reachable idle state (VIEW hides the history variable); %d of %d '
        'histories were replayed on synthetic projects (chain-family evolutions; a second family whose '
        'evolution 2 of app a2 renames the model to a new table first; a third whose evolution 1 deletes a '
        'column that evolution 2 adds back unchanged), rows in every table, the rows after every run compared '
        'with the reference data-flow of the applied evolutions taken one at a time, every run traced '
        'and validated by EvolverTrace, and each completed run judged against the fresh-install '
        'oracle. Non-trivial = at least two runs; distinct = distinct (family, history).'
        % (maxver, maxruns, all_chosen, ngen))
    report.assumptions += ['chain-family evolutions (histories.py) make version numbers exact',
                           'fresh-install oracle computed by a real fresh install per version']
    return report.finish()


def _c04_judge(report, tier, family, chosen, results, histories, oracles, nontrivial):
    from .dbproj import diff_schema, schema_of
    for rec, runrecs in zip(chosen, results):
        label = _hist_label(rec['hist'])
        report.coverage['evaluations'] += 1
        if sum(1 for op in rec['hist'] if op['op'] == 'run') >= 2:
            nontrivial.add((family, label))
        for ri, rr in enumerate(runrecs):
            if 'crash' in rr:
                report.notes.append('runner crash: %s' % rr['crash'].get('stderr', '')[-300:])
                continue
            if 'summary' not in rr:
                continue
            s = rr['summary']
            code = rr['code']
            detail = {'family': family, 'history': label, 'run': ri, 'code': code, 'post': rr.get('post'),
                      'outcome': s['outcome'], 'error': s['error_msg']}
            if rr.get('rows_lost'):
                report.fail({'class': 'rows-not-preserved', 'driver': rr['drv']},
                            dict(detail, lost=rr['rows_lost'][:6]))
            if rr.get('rows_diff'):
                # whichever path was taken, the rows are what applying the evolutions one at a
                # time makes of them
                report.fail({'class': 'rows-differ-from-stepwise-reference', 'driver': rr['drv'], 'family': family,
                             'kinds': sorted(set(d.get('kind') for d in rr['rows_diff']))},
                            dict(detail, differences=rr['rows_diff'][:6]))
            if s['outcome'] != 'ok':
                if s['error'] in ('CommandError',) and 'cannot resolve' in (s['error_msg'] or ''):
                    cls = 'upgrade-rejected'
                else:
                    cls = 'upgrade-failed'
                report.fail({'class': cls, 'driver': rr['drv'],
                             'spec_clause': _clause_hits(rr, 'Converged')}, detail)
                continue
            # the property's own oracle: every installed app is at its deployed
            # version in tables, stored signature and recorded labels
            post = rr['post']
            for a, v in code.items():
                if v < 0:
                    continue
                if post['tab'][a] != v:
                    sd = diff_schema(oracles.schema[(a, v)],
                                     {t: x for t, x in schema_of(rr['db']).items()
                                      if t.startswith(histories[a].app + '_')})
                    report.fail({'class': 'schema-differs-from-fresh', 'driver': rr['drv']},
                                dict(detail, app=a, diff=sd))
                if post['stored'][a] != v:
                    # known scenario: tables created by an earlier failed run
                    report.fail({'class': 'stored-signature-not-current',
                                 'driver': rr['drv'],
                                 'tables_preexisted': rr['pre']['tab'][a] >= 0 and
                                 rr['pre']['stored'][a] == -1}, dict(detail, app=a))
                labels = sorted(r[1] for r in post['evo'] if r[0] == a)
                if labels != list(range(1, v + 1)):
                    report.fail({'class': 'recorded-labels-differ', 'driver': rr['drv'],
                                 'duplicates': len(labels) != len(set(labels))},
                                dict(detail, app=a, labels=labels))
            if _clause_hits(rr, 'Converged') is False and False:
                pass
        # a further run after the last one: nothing required, nothing written
        report.sample({'history': label,
                       'runs': [{'code': rr.get('code'), 'outcome': rr.get('summary', {}).get('outcome'),
                                 'post': rr.get('post')} for rr in runrecs]})
    _trace_rejections(report, 'C04', chosen, results)
    # re-run is a no-op: exercised on converged final states through both drivers
    _rerun_check(report, chosen, results, histories, oracles, tier)


def _rerun_check(report, chosen, results, histories, oracles, tier):
    """After a converged history: get_evolution_required() false, empty diff,
    and the evolve command writes nothing."""
    from concurrent.futures import ThreadPoolExecutor
    from .djproj import Project
    from .engines import runs
    picks = []
    for rec, runrecs in zip(chosen, results):
        if runrecs and runrecs[-1].get('summary', {}).get('outcome') == 'ok':
            picks.append(rec)
    picks = picks[:12 if tier == 'quick' else 80]

    def one(rec):
        hist = list(rec['hist']) + [{'op': 'run', 'drv': 'cmd'}]
        out = runs.execute_history(hist, histories, oracles)
        return rec, out
    with ThreadPoolExecutor(12) as ex:
        for rec, out in ex.map(one, picks):
            last = out[-1]
            if 'summary' not in last:
                continue
            report.coverage['evaluations'] += 1
            s = last['summary']
            prev = out[-2]['post'] if len(out) >= 2 and 'post' in out[-2] else None
            converged = prev is not None and all(
                prev['tab'][a] == v and prev['stored'][a] == v
                for a, v in last['code'].items() if v >= 0)
            if not converged:
                continue
            if s['writes'] or s['outcome'] != 'ok' or 'evolving' in s['signals']:
                report.fail({'class': 'rerun-not-noop'},
                            {'history': _hist_label(rec['hist']), 'writes': s['writes'],
                             'outcome': s['outcome'], 'error': s['error_msg']})


REGISTRY.update({'C04': c04})


def _append_retry(rec):
    import copy
    rec = copy.deepcopy(rec)
    if rec['hist'][-1]['op'] == 'fault':
        rec['hist'].append({'op': 'run', 'drv': 'api'})
    return rec


def _judge_failed_run(report, rr, label, ri, histories, where):
    """C07 oracle for one run in which the injected fault fired."""
    s = rr['summary']
    pre, post = rr['pre'], rr['post']
    fault = rr['fault']
    a = fault['app']
    detail = {'history': label, 'run': ri, 'fault': fault, 'pre': pre, 'post': post,
              'error': s['error_msg'], 'where': where,
              'spec_clause_FailedRunIsInvisible': _clause_hits(rr, 'FailedRunIsInvisible')}
    if s['outcome'] == 'ok':
        report.fail({'class': 'fault-swallowed'}, detail)
        return
    if rr.get('pre_contenttypes') is not None and rr.get('contenttypes') is not None and \
            rr['contenttypes'] != rr['pre_contenttypes']:
        # listeners of the failed run (post_migrate: content types, permissions) wrote about models
        # whose tables the run did not leave behind
        created = any(e['ev'] == 'created_models' for e in rr.get('events', []))
        if not created:
            report.fail({'class': 'failed-run-listeners-wrote-to-the-database', 'phase': fault['phase']},
                        dict(detail, contenttypes_before=rr['pre_contenttypes'], contenttypes_after=rr['contenttypes']))
    if post['tab'][a] != pre['tab'][a] or post['tab'][a] == -2:
        # what an earlier, completed unit of the same run created (e.g. the new
        # models of this app) is not part of the failing evolution: judge the
        # tables that existed before the run
        pre_db, post_db = rr.get('pre_db'), rr.get('db')
        prefix = histories[a].app + '_'
        own_changed = True
        if pre_db is not None and post_db is not None:
            before = {t: v for t, v in pre_db['tables'].items() if t.startswith(prefix)}
            after = {t: v for t, v in post_db['tables'].items() if t in before}
            own_changed = before != after
        created_earlier = any(e['ev'] == 'created_models' for e in rr.get('events', []))
        report.fail({'class': 'failed-evolution-left-changes',
                     'partial': post['tab'][a] == -2, 'phase': fault['phase'],
                     'preexisting_tables_changed': own_changed,
                     'earlier_unit_created_models': created_earlier}, detail)
    # Evolver.__init__ installs the baseline Version row on an empty database
    if post['stored'] != pre['stored'] or post['nver'] != max(pre['nver'], 1):
        report.fail({'class': 'failed-run-changed-signature'}, detail)
    if post['evo'] != pre['evo']:
        report.fail({'class': 'failed-run-recorded-evolutions'}, detail)
    fired = s['fault_fired']
    if rr['drv'] == 'api':
        last = s['last_sql']
        if s['error'] != 'EvolutionExecutionError':
            report.fail({'class': 'wrong-error-type', 'type': s['error']}, detail)
        elif not last or not fired or last[0] != fired['sql']:
            report.fail({'class': 'error-does-not-name-statement'},
                        dict(detail, last_sql=last, fired=fired))
    else:
        if s['error'] != 'CommandError':
            report.fail({'class': 'wrong-error-type', 'type': s['error']}, detail)


def _judge_retry(report, rr, prev, label, ri, histories, oracles):
    """The fault-free retry after a failed run must converge."""
    s = rr['summary']
    code = rr['code']
    post = rr['post']
    detail = {'history': label, 'run': ri, 'code': code, 'pre': rr['pre'], 'post': post,
              'error': s['error_msg']}
    # tables an earlier unit of the failed run committed, with no stored signature
    lag = sorted(a for a in code if code[a] >= 0 and rr['pre']['tab'][a] != -1
                 and rr['pre']['stored'][a] != rr['pre']['tab'][a])
    fp_extra = {'earlier_unit_committed': bool(lag)}
    if s['outcome'] != 'ok':
        report.fail(dict({'class': 'retry-failed'}, **fp_extra), detail)
        return
    for a, v in code.items():
        if v < 0:
            continue
        if post['tab'][a] != v:
            report.fail(dict({'class': 'retry-schema-differs'}, **fp_extra), dict(detail, app=a))
        if post['stored'][a] != v:
            report.fail(dict({'class': 'retry-signature-not-current',
                              'app_lagging': a in lag}, **fp_extra), dict(detail, app=a))
        labels = sorted(r[1] for r in post['evo'] if r[0] == a)
        if labels != list(range(1, v + 1)):
            report.fail(dict({'class': 'retry-recorded-labels-differ'}, **fp_extra),
                        dict(detail, app=a, labels=labels))


def c07(tier, replay=None):
    report = Report('C07', tier, level='fault_enumeration')
    maxver, maxruns, limit = (2, 2, 50) if tier == 'quick' else (3, 3, 500)
    chosen, results, histories, oracles, ngen = _run_histories(
        report, tier, maxver, maxruns, limit, faults=True, want_fault=True,
        extend=_append_retry)
    nontrivial = set()
    fired = 0
    for rec, runrecs in zip(chosen, results):
        label = _hist_label(rec['hist'])
        report.coverage['evaluations'] += 1
        prev_failed = None
        for ri, rr in enumerate(runrecs):
            if 'summary' not in rr:
                continue
            if rr.get('fault') is not None and rr['summary']['fault_fired']:
                fired += 1
                nontrivial.add((label, ri))
                _judge_failed_run(report, rr, label, ri, histories, 'tlc-history')
                prev_failed = rr
            elif prev_failed is not None and rr.get('fault') is None:
                _judge_retry(report, rr, prev_failed, label, ri, histories, oracles)
                prev_failed = None
        report.sample({'history': label,
                       'runs': [{'fault': rr.get('fault'), 'outcome': rr.get('summary', {}).get('outcome'),
                                 'error': rr.get('summary', {}).get('error'),
                                 'post': rr.get('post')} for rr in runrecs]}, limit=4)
    _trace_rejections(report, 'C07', chosen, results)
    # Part B: every concrete statement index of single-unit upgrades
    n_b = _fault_every_statement(report, tier, nontrivial)
    n_c, fired_c = _c07_rich_family(report, tier, nontrivial)
    report.notes.append('rich family: %d generated evolutions, %d faults fired' % (n_c, fired_c))
    report.coverage['distinct_nontrivial'] = len(nontrivial)
    report.coverage['rule'] = (
        'Part A: TLC explores Evolver.tla with a fault at every abstract statement of every unit '
        '(create / evolve x app x statement); %d of %d fault histories were replayed (dry run to '
        'locate the statement, then the faulted run, then a fault-free retry), traced and validated '
        'by EvolverTrace (FailedRunIsInvisible et al. evaluated after every event). Part B: for %d '
        'single-unit upgrades every concrete statement index k=1..N was made to fail. '
        'Non-trivial = a run in which the injected fault fired; distinct = (history, run) / (upgrade, k).'
        % (len(chosen), ngen, n_b))
    report.assumptions += [
        'faults are OperationalError raised by connection.execute_wrapper before the statement executes',
        'only statements that change schema or data of application tables are fault points',
    ]
    return report.finish()


def _fault_every_statement(report, tier, nontrivial):
    """C07 quantifier: every statement index k of a single-unit upgrade."""
    from concurrent.futures import ThreadPoolExecutor
    from .engines import runs
    maxver = 3 if tier == 'quick' else 4
    histories = runs.make_histories(maxver, variant=0)
    oracles = runs.Oracles(histories)
    oracles.compute()
    upgrades = []
    for a in ('a1', 'a2'):
        for lo in range(0, maxver):
            for hi in range(lo + 1, maxver + 1):
                if tier == 'quick' and hi - lo > 2:
                    continue
                upgrades.append((a, lo, hi))
        upgrades.append((a, -1, maxver if tier != 'quick' else 2))      # fresh creation
    jobs = []

    def plan(up):
        a, lo, hi = up
        base = []
        if lo >= 0:
            base = [{'op': 'deploy', 'app': a, 'ver': lo}, {'op': 'run', 'drv': 'api'}]
        hist = base + [{'op': 'deploy', 'app': a, 'ver': hi}, {'op': 'run', 'drv': 'api'}]
        out = runs.execute_history(hist, histories, oracles)
        last = out[-1]
        apps = set(h.app for h in histories.values())
        stm = runs.attribute_statements(last.get('events', []), apps)
        return up, hist, [s['index'] for s in stm if s['phase'] in ('create', 'evolve')]
    with ThreadPoolExecutor(12) as ex:
        plans = list(ex.map(plan, upgrades))
    for up, hist, idxs in plans:
        for k in idxs:
            jobs.append((up, hist, k))

    def one(job):
        up, hist, k = job
        h2 = hist[:-1] + [{'op': 'run', 'drv': 'api' if k % 2 else 'cmd', 'fault_at': k},
                          {'op': 'run', 'drv': 'api'}]
        return job, _execute_with_fault_index(h2, histories, oracles)
    with ThreadPoolExecutor(12) as ex:
        for (up, hist, k), runrecs in ex.map(one, jobs):
            label = 'upgrade %s %d->%d fault at statement %d' % (up[0], up[1], up[2], k)
            report.coverage['evaluations'] += 1
            failed = [rr for rr in runrecs if rr.get('fault') is not None]
            if not failed or not failed[0]['summary']['fault_fired']:
                continue
            nontrivial.add(label)
            rr = failed[0]
            _judge_failed_run(report, rr, label, runrecs.index(rr), histories, 'every-k')
            if runrecs[-1] is not rr and 'summary' in runrecs[-1]:
                _judge_retry(report, runrecs[-1], rr, label, len(runrecs) - 1, histories, oracles)
            report.coverage['traces_validated_against_impl'] += 1
    return len(upgrades)


def _execute_with_fault_index(hist, histories, oracles):
    """execute_history, but the faulted run carries a concrete statement index."""
    from .djproj import Project
    from .engines import runs
    fault_queue = [op.get('fault_at') for op in hist if op['op'] == 'run']
    clean = [{k: v for k, v in op.items() if k != 'fault_at'} for op in hist]
    return _exec_with(runs, clean, histories, oracles, Project, fault_queue)


def _exec_with(runs, hist, histories, oracles, project_cls, fault_queue):
    """A copy of the driver loop of execute_history for concrete fault indices."""
    import copy
    project = project_cls([h.app for h in histories.values()], tag='fk')
    code = {a: -1 for a in histories}
    out = []
    qi = 0
    try:
        project.set_installed([])
        state = copy.deepcopy(runs.EMPTY_STATE)
        for op in hist:
            if op['op'] == 'deploy':
                code[op['app']] = op['ver']
                histories[op['app']].deploy(project, op['ver'])
                project.set_installed([histories[x].app for x in histories if code[x] >= 0])
                continue
            drv = op['drv']
            if drv == 'api':
                request = {'action': 'evolve_api', 'emit_prepared': True}
            else:
                request = {'action': 'command', 'name': 'evolve', 'emit_prepared': True,
                           'options': {'execute': True, 'interactive': False, 'verbosity': 0}}
            k = fault_queue[qi] if qi < len(fault_queue) else None
            qi += 1
            if k is not None:
                request['fault'] = {'at': k}
            res = project.run(request)
            if res.get('outcome') == 'runner-crash':
                out.append({'crash': res})
                break
            post = runs.observed_state(res, histories, oracles)
            rec = {'request': request, 'code': dict(code), 'drv': drv, 'pre': state,
                   'post': post,
                   'fault': ({'phase': 'k', 'app': [a for a in code if code[a] >= 0][0],
                              'stmt': k} if k is not None else None)}
            if k is not None and res.get('fault_fired'):
                apps = set(h.app for h in histories.values())
                # which app does the failing statement belong to?
                rapps = {h.app: a for a, h in histories.items()}
                import re as _re
                m = _re.search(r'"(\w+?)_', res['fault_fired']['sql'])
                if m and m.group(1) in rapps:
                    rec['fault']['app'] = rapps[m.group(1)]
            rec['summary'] = {
                'outcome': res['outcome'],
                'error': (res.get('error') or {}).get('type'),
                'error_msg': (res.get('error') or {}).get('msg'),
                'last_sql': (res.get('error') or {}).get('last_sql_statement'),
                'fault_fired': res.get('fault_fired'),
                'required': res.get('required'), 'lock': res.get('lock'),
                'signals': [e['ev'] for e in res['events']
                            if e['ev'] in ('evolving', 'evolved', 'evolving_failed')],
                'writes': [e['sql'][:80] for e in res['events'] if e['ev'] in ('stmt', 'book')],
            }
            rec['events'] = res['events']
            rec['db'] = res['post']['default']['db']
            rec['pre_db'] = out[-1].get('db') if out else None
            out.append(rec)
            state = post
    finally:
        project.destroy()
    return out


REGISTRY.update({'C07': c07})


def _signals_of(rr):
    return [e for e in rr.get('events', []) if e['ev'] in (
        'evolving', 'evolved', 'evolving_failed', 'applying_evolution',
        'applied_evolution', 'applying_migration', 'applied_migration',
        'creating_models', 'created_models', 'stmt', 'stmt_fail', 'book',
        'constructed', 'prepared')]


def c17(tier, replay=None):
    report = Report('C17', tier)
    maxver, maxruns, limit = (2, 2, 60) if tier == 'quick' else (3, 3, 600)
    chosen, results, histories, oracles, ngen = _run_histories(
        report, tier, maxver, maxruns, limit, faults=True)
    apps = set(h.app for h in histories.values())
    nontrivial = set()
    clauses = ('EvolvingAtMostOnce', 'EvolvingBeforeAnyChange', 'ExactlyOneTerminalSignal',
               'EvolvedIffSaved', 'PairedUnlessFailed', 'EndSignalsTruthful', 'NoTerminalWithoutEvolving')
    for rec, runrecs in zip(chosen, results):
        label = _hist_label(rec['hist'])
        for ri, rr in enumerate(runrecs):
            if 'summary' not in rr:
                continue
            report.coverage['evaluations'] += 1
            s = rr['summary']
            evs = _signals_of(rr)
            # only what happens after the Evolver was constructed
            for i, e in enumerate(evs):
                if e['ev'] == 'constructed':
                    evs = evs[i + 1:]
                    break
            names = [e['ev'] for e in evs]
            detail = {'history': label, 'run': ri, 'fault': rr.get('fault'),
                      'outcome': s['outcome'], 'signals': [n for n in names if n not in ('stmt', 'book')]}
            if any(n.startswith(('applying', 'creating')) for n in names):
                nontrivial.add((label, ri))
            n_evolving = names.count('evolving')
            if n_evolving > 1:
                report.fail({'class': 'evolving-twice'}, detail)
            if n_evolving:
                first = names.index('evolving')
                if any(n in ('stmt', 'book') for n in names[:first]):
                    report.fail({'class': 'change-before-evolving'}, detail)
                terminal = names.count('evolved') + names.count('evolving_failed')
                if terminal != 1:
                    report.fail({'class': 'terminal-signal-count', 'count': terminal}, detail)
            elif names.count('evolved') + names.count('evolving_failed'):
                report.fail({'class': 'terminal-without-evolving'}, detail)
            returned_ok = s['outcome'] == 'ok'
            if ('evolved' in names) != (returned_ok and n_evolving == 1):
                report.fail({'class': 'evolved-vs-return', 'evolved': 'evolved' in names,
                             'returned_ok': returned_ok}, detail)
            if 'evolved' in names:
                code, post = rr['code'], rr['post']
                for a, v in code.items():
                    if v >= 0 and post['stored'][a] != v and not (
                            rr['pre']['tab'][a] >= 0 and rr['pre']['stored'][a] == -1):
                        report.fail({'class': 'evolved-but-not-saved'}, dict(detail, app=a))
            # pairing and payload truthfulness
            open_sig = None
            for e in evs:
                ev = e['ev']
                if ev in ('applying_evolution', 'applied_evolution') and any(
                        a != e.get('app') for a in (e.get('evo_apps') or [])):
                    # the evolutions a signal carries are the sending task's own
                    report.fail({'class': 'signal-carries-another-apps-evolution', 'signal': ev},
                                dict(detail, at=e))
                if ev in ('applying_evolution', 'creating_models', 'applying_migration'):
                    if open_sig is not None and not (ev == 'creating_models' and
                                                     open_sig['ev'] == 'creating_models'):
                        report.fail({'class': 'nested-or-unclosed-signal'}, dict(detail, at=e))
                    if open_sig is None or ev != 'creating_models':
                        open_sig = dict(e, stmts=0, group=[e])
                    else:
                        open_sig['group'].append(e)
                elif ev in ('applied_evolution', 'created_models', 'applied_migration'):
                    want = {'applied_evolution': 'applying_evolution',
                            'created_models': 'creating_models',
                            'applied_migration': 'applying_migration'}[ev]
                    if open_sig is None or open_sig['ev'] != want:
                        report.fail({'class': 'counterpart-without-opening'}, dict(detail, at=e))
                    else:
                        if ev == 'applied_evolution' and (
                                e.get('app') != open_sig.get('app') or
                                e.get('labels') != open_sig.get('labels')):
                            report.fail({'class': 'payload-mismatch'}, dict(detail, at=e))
                        if ev == 'applied_evolution' and open_sig['stmts'] == 0:
                            report.fail({'class': 'applied-without-sql'}, dict(detail, at=e))
                        if open_sig.get('failed'):
                            # "applied" / "created" although a statement in-between failed
                            report.fail({'class': 'end-signal-after-failed-statement', 'signal': ev},
                                        dict(detail, at=e))
                        if ev == 'created_models':
                            open_sig['group'].pop(0)
                            if open_sig['group']:
                                continue
                        open_sig = None
                elif ev in ('stmt', 'stmt_fail'):
                    if open_sig is None:
                        if e.get('kind') in ('ddl', 'dml'):
                            sql = e.get('sql', '')
                            created = [x.get('app') for x in evs if x['ev'] == 'created_models']
                            deferred = (sql.lstrip().upper().startswith(('CREATE INDEX', 'CREATE UNIQUE INDEX'))
                                        and any(' ON "%s_' % a in sql for a in created if a))
                            report.fail({'class': 'sql-outside-signal-window',
                                         'deferred_sql_of_created_model': bool(deferred)},
                                        dict(detail, sql=sql))
                    else:
                        open_sig['stmts'] += 1
                        if ev == 'stmt_fail':
                            open_sig['failed'] = True
                        if open_sig['ev'] == 'applying_evolution' and open_sig.get('app') in apps:
                            if '"%s_' % open_sig['app'] not in e.get('sql', '') and \
                                    'TEMP_TABLE' not in e.get('sql', ''):
                                report.fail({'class': 'sql-of-another-app-in-window'},
                                            dict(detail, sql=e.get('sql'), window=open_sig.get('app')))
            if open_sig is not None and returned_ok:
                report.fail({'class': 'unpaired-signal-on-success'}, detail)
            lock = s.get('lock')
            if lock and lock[0] != lock[1]:
                report.fail({'class': 'evolve-lock-not-restored', 'outcome': s['outcome']},
                            dict(detail, lock=lock))
            for c in clauses:
                if _clause_hits(rr, c):
                    report.fail({'class': 'spec-clause', 'clause': c}, detail)
        report.sample({'history': label, 'signals_of_last_run':
                       [e['ev'] for e in _signals_of(runrecs[-1]) if e['ev'] not in ('stmt', 'book')]
                       if runrecs and 'events' in runrecs[-1] else None}, limit=5)
    _trace_rejections(report, 'C17', chosen, results)
    _c17_created_models_payload(report, tier, nontrivial)
    _c17_handover_signals(report, tier, nontrivial)
    fired, planned = _c17_every_statement(report, tier)
    report.notes.append('all-statement fault enumeration: %d faults fired of %d planned' % (fired, planned))
    report.coverage['distinct_nontrivial'] = len(nontrivial) + fired
    report.coverage['exhaustive'] = len(chosen) == ngen
    report.coverage['rule'] = (
        'TLC explores Evolver.tla with faults; %d of %d histories replayed; every run recorded '
        '(nine signals interleaved with statements and commits) and validated by EvolverTrace, the '
        'signal invariants evaluated after every event; plus direct pairing/payload checks on the '
        'recorded stream. Non-trivial = a run that emitted at least one applying/creating signal.'
        % (len(chosen), ngen))
    report.assumptions += ['signals observed through receivers connected with weak=False']
    return report.finish()


def c08(tier, replay=None):
    report = Report('C08', tier)
    maxver, maxruns, limit = (2, 3, 50) if tier == 'quick' else (3, 4, 500)
    chosen, results, histories, oracles, ngen = _run_histories(
        report, tier, maxver, maxruns, limit, faults=True)
    nontrivial = set()
    for rec, runrecs in zip(chosen, results):
        label = _hist_label(rec['hist'])
        report.coverage['evaluations'] += 1
        if sum(1 for op in rec['hist'] if op['op'] == 'run') >= 2:
            nontrivial.add(label)
        executed = {}        # (app, label) -> completed executions across runs
        for ri, rr in enumerate(runrecs):
            if 'summary' not in rr:
                continue
            s = rr['summary']
            pre, post = rr['pre'], rr['post']
            detail = {'history': label, 'run': ri, 'code': rr['code'], 'outcome': s['outcome'],
                      'evo_before': pre['evo'], 'evo_after': post['evo']}
            lagging = sorted(a for a in rr['code'] if rr['code'][a] >= 0 and
                             pre['tab'][a] >= 0 and pre['stored'][a] == -1)
            rows = [(r[0], r[1]) for r in post['evo']]
            dups = sorted(set(x for x in rows if rows.count(x) > 1))
            if dups:
                report.fail({'class': 'label-recorded-twice',
                             'app_had_tables_without_signature': any(d[0] in lagging for d in dups)},
                            dict(detail, duplicates=dups))
            if s['outcome'] != 'ok' and post['evo'] != pre['evo']:
                report.fail({'class': 'recorded-by-incomplete-run'}, detail)
            if s['outcome'] == 'ok':
                new_rows = post['evo'][len(pre['evo']):]
                if post['evo'][:len(pre['evo'])] != pre['evo']:
                    report.fail({'class': 'earlier-rows-changed'}, detail)
                if new_rows and pre['nver'] > 0 and post['nver'] <= pre['nver']:
                    # the run that applies evolutions saves a version of its own for them
                    report.fail({'class': 'rows-attached-to-an-earlier-runs-version'},
                                dict(detail, new_rows=new_rows, versions_before=pre['nver'],
                                     versions_after=post['nver']))
                if new_rows and any(r[2] != post['nver'] for r in new_rows) and \
                        not (pre['nver'] == 0):
                    report.fail({'class': 'rows-not-attached-to-run-version'},
                                dict(detail, new_rows=new_rows, nver=post['nver']))
            if any(r[2] < 1 or r[2] > post['nver'] for r in post['evo']):
                report.fail({'class': 'row-references-missing-version'}, detail)
            # executions
            evs = rr.get('events', [])
            fresh_apps = set()
            for e in evs:
                if e['ev'] == 'prepared':
                    rap = {h.app: a for a, h in histories.items()}
                    fresh_apps = set(x for x in e.get('create', [])
                                     if x in rap and pre['stored'][rap[x]] == -1)
            for e in evs:
                if e['ev'] == 'applied_evolution':
                    for lab in e['labels']:
                        key = (e['app'], lab)
                        executed[key] = executed.get(key, 0) + 1
                        if executed[key] > 1:
                            report.fail({'class': 'evolution-executed-twice'},
                                        dict(detail, evolution=key))
                        if any(r[0] == {h.app: a for a, h in histories.items()}.get(e['app'])
                               and 'e%d' % r[1] == lab for r in pre['evo']):
                            report.fail({'class': 'recorded-evolution-executed-again'},
                                        dict(detail, evolution=key))
                    if e['app'] in fresh_apps:
                        report.fail({'class': 'fresh-app-executed-evolutions'},
                                    dict(detail, app=e['app']))
            if s['outcome'] == 'ok':
                rapps = {h.app: a for a, h in histories.items()}
                for e in evs:
                    if e['ev'] == 'applied_evolution' and e['app'] in rapps:
                        for lab in e['labels']:
                            n = sum(1 for r in post['evo']
                                    if r[0] == rapps[e['app']] and 'e%d' % r[1] == lab)
                            if n != 1:
                                report.fail({'class': 'executed-but-not-recorded-once', 'count': n},
                                            dict(detail, evolution=[e['app'], lab]))
                for app in fresh_apps:
                    a = rapps.get(app)
                    if a is None:
                        continue
                    labels = sorted(r[1] for r in post['evo'] if r[0] == a)
                    if labels != list(range(1, rr['code'][a] + 1)):
                        report.fail({'class': 'fresh-app-sequence-not-recorded'},
                                    dict(detail, app=a, labels=labels))
            for c in ('RecordedAtMostOnce', 'RecordedWithinVersions', 'RecordedOnlyWithTables'):
                if _clause_hits(rr, c):
                    report.fail({'class': 'spec-clause', 'clause': c,
                                 'app_had_tables_without_signature': bool(lagging)}, detail)
        report.sample({'history': label,
                       'evolution_rows_after_each_run': [rr.get('post', {}).get('evo') for rr in runrecs]},
                      limit=5)
    _trace_rejections(report, 'C08', chosen, results)
    nledger = _c08_ledger(report, tier, nontrivial)
    nsplit = _c08_interleaved(report, tier, nontrivial)
    nunch = _c08_unchanged_signature(report, tier, nontrivial)
    nlater = _c08_later_task_class_fails(report, tier, nontrivial)
    nhint = _c08_hinted_with_fresh_app(report, tier, nontrivial)
    report.notes.append('%d hinted, executed upgrades that install another app for the first time' % nhint)
    report.notes.append('%d runs whose second task class (purge) fails after the evolutions ran' % nlater)
    report.notes.append('%d scenarios of the unchanged-signature family (SQL-only evolutions) replayed' % nunch)
    report.coverage['distinct_nontrivial'] = len(nontrivial)
    report.coverage['exhaustive'] = len(chosen) == ngen
    report.coverage['rule'] = (
        'Part 6: hinted, executed upgrades of one app in the run that installs another app (with an evolution '
        'history) for the first time: that app\'s whole sequence is recorded, none of it executed.  '
        'Part 5: runs that queue the apps\' evolutions AND the purge of a stale app whose table was dropped by hand: '
        'the purge fails after the evolutions ran; nothing may be recorded for the incomplete run.  '
        'Part 4: upgrades that apply evolutions while the stored signature stays what it was (SQLMutation-only '
        'evolutions alone / next to model changes / next to another app, drivers evolve, migrate, API): every label '
        'recorded once, its SQL run once, its rows attached to a version saved by that very run, the next run a no-op.  '
        'Part 3 (MigGraph.tla): %d upgrades whose tasks are split into several batches (an app\'s pending '
        'evolutions ordered around another app\'s evolutions or around migrations, incl. evolutions without '
        'SQL): every pending evolution\'s own statements run exactly once and it is recorded exactly once.  ' % nsplit +
        'Part 2 (Ledger.tla): upgrade runs - completing, rejected, idle, or failing at their first evolution statement (fault) - interleaved with mark-evolution-applied [--all] and wipe-evolution '
        '[--app-label] over two apps sharing labels; TLC checks ExecutedAtMostOnce, RecordedAtMostOnce, '
        'RecordedNeverExecutedAgain, OnlyCompletedRunsRecord, FreshRecordsWithoutExecuting over every operation '
        'sequence; %d sequences replayed through the real commands, the outcome of every run / command and the '
        'django_evolution rows compared after every step.  Part 1: '
        'TLC explores Evolver.tla (2 apps sharing labels e1..en, partial upgrades, no-op re-runs, ' % nledger +
        'failed runs, api and command drivers); %d of %d histories replayed; Evolution rows read as '
        'a bag after every run, applied_evolution signals counted per label across the history; '
        'traces validated by EvolverTrace (RecordedAtMostOnce, RecordedWithinVersions, '
        'RecordedOnlyWithTables after every event). Non-trivial = at least two runs.'
        % (len(chosen), ngen))
    return report.finish()


def _c08_ledger(report, tier, nontrivial):
    import random
    from concurrent.futures import ThreadPoolExecutor
    from .common import seed
    from .engines import ledger as L
    from .tlc import run_tlc, require_ok, write_cfg
    maxops = 5 if tier == 'quick' else 6
    cfg = write_cfg('MC_Ledger.cfg', '''
SPECIFICATION Spec
CONSTANTS
  MaxVer = 2
  MaxOps = %d
  EmitRecords = TRUE
  WithFaults = TRUE
  WithHints = TRUE
CONSTRAINT Constraint
INVARIANT ExecutedAtMostOnce
INVARIANT RecordedAtMostOnce
PROPERTY RecordedNeverExecutedAgain
PROPERTY OnlyCompletedRunsRecord
PROPERTY FreshRecordsWithoutExecuting
PROPERTY LimitedRunTouchesOnlyItsApp
PROPERTY HintedRunLeavesTrackedLedgersAlone
''' % maxops)
    res = require_ok(run_tlc('Ledger', cfg, workers=16, timeout=5000), 'Ledger.tla')
    report.add_tlc('Ledger MaxVer=2 MaxOps=%d' % maxops, res.stats())
    expected = {}
    full = []
    for r in res.records:
        expected[L.key_of(r['hist'])] = r
        if len(r['hist']) == maxops:
            ops = [op['op'] for op in r['hist']]
            # at least one run before and one run after a repair command
            runs_ = [o for o in ops if o in ('run', 'runonly', 'runhint')]
            if runs_ and ops[-1] in ('run', 'runonly', 'runhint') and (
                    any(o in ('mark', 'markall', 'wipe', 'runfail', 'runhint') for o in ops) or 'runonly' in ops):
                full.append(r)
    rng = random.Random(seed() * 389 + 8)
    rng.shuffle(full)
    strata = {}
    for r in full:
        shape = tuple((op['op'], op.get('ok'), op.get('outcome'), op.get('scoped')) for op in r['hist'])
        strata.setdefault(shape, []).append(r)
    limit = 60 if tier == 'quick' else 700
    chosen = []

    # a fixed share for histories in which a run meets a GAP in the ledger (a later label recorded,
    # an earlier one not - after wipe-evolution of the earlier or mark-evolution-applied of the later)
    def _counts(x):
        return x if isinstance(x, list) else [x.get(str(i), x.get(i, 0)) for i in (1, 2)]

    def _gap_before_run(r):
        h = r['hist']
        for j, op in enumerate(h):
            if op['op'] in ('run', 'runonly', 'runhint') and j > 0:
                pre = expected.get(L.key_of(h[:j]))
                if pre and any(_counts(pre['rec'][a])[0] == 0 and _counts(pre['rec'][a])[1] > 0
                               for a in ('a1', 'a2')):
                    return True
        return False
    gaps = [r for r in full if _gap_before_run(r)]
    chosen += gaps[:limit // 5]
    taken = set(id(r) for r in chosen)
    for k in strata:
        strata[k] = [r for r in strata[k] if id(r) not in taken]
    while len(chosen) < limit and any(strata.values()):
        for k in sorted(strata, key=repr):
            if strata[k] and len(chosen) < limit:
                chosen.append(strata[k].pop())
    with ThreadPoolExecutor(16) as ex:
        observations = list(ex.map(lambda r: L.replay(r, expected), chosen))

    def bag(d):
        if isinstance(d, list):
            return {i + 1: c for i, c in enumerate(d) if c}
        return {int(k): c for k, c in (d or {}).items() if c}
    prev_rows_of = {}
    for rec, obs in zip(chosen, observations):
        report.coverage['evaluations'] += 1
        label = ' '.join('%s(%s)' % (op['op'], ','.join(str(op[k]) for k in ('app', 'apps', 'v', 'label', 'scoped')
                                                           if k in op)) for op in rec['hist'])
        nontrivial.add('ledger:' + label)
        for st in obs['steps']:
            report.coverage['traces_validated_against_impl'] += 1
            exp = st['expected']
            if exp is None:
                continue
            eop = exp['hist'][-1]
            detail = {'history': label, 'step': st['index'], 'operation': st['op'],
                      'observed': {k: st.get(k) for k in ('outcome', 'ok', 'executed', 'rows', 'error')},
                      'expected_rows': exp['rec'], 'expected_op': eop}
            fp = {'part': 'ledger', 'op': st['op']['op']}
            if st['op']['op'] == 'runfail' and not st.get('fault_fired'):
                report.notes.append('ledger: planned fault did not fire in %s' % label)
                break
            # --- the property's own oracle, whatever the specification expects -------------------
            have_rows = {a: {k: v for k, v in st['rows'][a].items() if v} for a in st['rows']}
            if any(v > 1 for a in have_rows for v in have_rows[a].values()):
                report.fail(dict(fp, **{'class': 'label-recorded-twice'}), detail)
                break
            if any(v > 1 for a in st['execs'] for v in st['execs'][a].values()):
                report.fail(dict(fp, **{'class': 'evolution-executed-twice'}), detail)
                break
            if st['op']['op'] in ('run', 'runonly', 'runfail', 'runhint'):
                prev = prev_rows_of.get(id(obs), {})
                # an app this completed run saw for the first time has its whole sequence recorded
                if st.get('outcome') in ('executed', 'nothing') and st['op']['op'] in ('run', 'runhint'):
                    short = sorted((a, v) for a, v in (st.get('fresh') or {}).items()
                                   if sorted(have_rows.get(a, {})) != list(range(1, v + 1)))
                    if short:
                        report.fail(dict(fp, **{'class': 'fresh-app-sequence-not-recorded-once'}),
                                    dict(detail, fresh_apps=short))
                        break
                again = sorted((a, l) for a, ls in (st.get('executed') or {}).items() for l in ls
                               if prev.get(a, {}).get(l))
                if again:
                    report.fail(dict(fp, **{'class': 'recorded-evolution-executed-again'}), dict(detail, labels=again))
                    break
                if st.get('outcome') in ('failed', 'rejected', 'nothing') and prev and have_rows != prev:
                    report.fail(dict(fp, **{'class': 'incomplete-run-changed-the-ledger', 'outcome': st.get('outcome')}),
                                dict(detail, rows_before=prev))
                    break
            prev_rows_of[id(obs)] = have_rows
            # --- agreement with Ledger.tla: a disagreement alone is drift, not a violation ---------
            rows = {a: bag(exp['rec'][a]) for a in ('a1', 'a2')}
            if st['op']['op'] in ('run', 'runonly', 'runfail', 'runhint'):
                if st['outcome'] != eop['outcome']:
                    report.spec_drift('Ledger.tla expects the run to be %s, it was %s: %s (step %d)'
                                      % (eop['outcome'], st['outcome'], label, st['index']))
                    break
                want = {a: sorted(v) for a, v in eop['executed'].items()}
                if st['executed'] != want:
                    report.spec_drift('Ledger.tla expects %s executed, code executed %s: %s' % (want, st['executed'], label))
                    break
            elif st['ok'] != eop['ok']:
                report.spec_drift('Ledger.tla expects the command to %s, it did not: %s (step %d)'
                                  % ('succeed' if eop['ok'] else 'refuse', label, st['index']))
                break
            if have_rows != rows:
                report.spec_drift('Ledger.tla expects rows %s, code has %s: %s (step %d)' % (rows, have_rows, label, st['index']))
                break
        if obs.get('listed') is not None and obs['steps']:
            last = obs['steps'][-1]
            have = {a: {k: v for k, v in obs['listed'][a].items() if v} for a in obs['listed']}
            want = {a: {int(k): v for k, v in last['rows'][a].items() if v} for a in last['rows']}
            if have != want or obs.get('list_outcome') != 'ok':
                report.fail({'part': 'ledger', 'class': 'list-evolutions-differs-from-rows'},
                            {'history': label, 'listed': have, 'rows': want})
    return len(chosen)


REGISTRY.update({'C17': c17, 'C08': c08})


def c12(tier, replay=None):
    import random
    from concurrent.futures import ThreadPoolExecutor
    from .common import seed
    from .dbproj import schema_of
    from .engines import runs
    from .tlc import run_tlc, require_ok, write_cfg
    from .absmodel import norm_mutation, short
    report = Report('C12', tier)
    rng = random.Random(seed() * 4241 + 5)
    space = [(2, 1, 1), (2, 3, 2), (2, 12, 13), (1, 2, 3), (1, 10, 3)] if tier == 'quick' else \
        [(2, 1, 1), (3, 3, 2), (2, 2, 3), (2, 2, 1), (2, 12, 13), (2, 9, 10), (2, 7, 7), (2, 10, 3)]
    limit = 180 if tier == 'quick' else 3000
    recs = []
    for maxlen, start, alpha in space:
        cfg = write_cfg('MC_Perturb_%d_%d_%d.cfg' % (maxlen, start, alpha), '''
SPECIFICATION PSpec
CONSTANTS
  MaxLen = %d
  StartId = %d
  AlphaId = %d
  Mergeable = %s
  EmitRecords = TRUE
CONSTRAINT PConstraint
INVARIANT ExecuteOnlyIfReaches
''' % (maxlen, start, alpha, MERGEABLE_DOC))
        res = require_ok(run_tlc('Perturb', cfg, workers=16, timeout=3000),
                         'Perturb.tla len<=%d start=%d alpha=%d' % (maxlen, start, alpha))
        report.add_tlc('Perturb len<=%d start=%d alpha=%d' % (maxlen, start, alpha), res.stats())
        start_sig = _start_sig(start)
        recs += [(r, start_sig) for r in res.records]
    total = len(recs)
    # stratify: equal shares per (kind, prediction)
    strata = {}
    for item in recs:
        # which mutation the perturbation hit: its kind, and whether it re-types the column
        hit = None
        for x, y in zip(item[0]['seq'], item[0]['pert']):
            if x != y:
                def _keys(m_):
                    a_ = m_.get('attrs') or {}
                    return set(a_ if isinstance(a_, dict) else dict(a_))
                idx_ = item[0]['seq'].index(x)
                hit = (x.get('k'), x.get('ftype') not in (None, 'None') and x.get('k') == 'Chg',
                       # which attribute the perturbation states, and on what kind of column
                       tuple(sorted(_keys(y) - _keys(x))), x.get('ftype') if x.get('k') == 'Add' else None,
                       # the field the perturbed mutation is about is ADDED earlier in the same
                       # evolution (the optimiser folds the two into one mutation)
                       any(p_.get('k') == 'Add' and p_.get('m') == x.get('m') and p_.get('f') == x.get('f')
                           for p_ in item[0]['seq'][:idx_]))
                break
        strata.setdefault((item[0]['kind'], item[0]['prediction'],
                           item[0].get('npending', 1) == 0, item[0].get('reason'), hit), []).append(item)
    chosen = []
    keys = sorted(strata, key=repr)
    # every stratum is represented at least once, whatever the budget says; which strata get a
    # second, third ... member is decided by the seed
    limit = max(limit, len(keys))
    report.notes.append('C12: %d strata (kind, prediction, reason, mutation hit)' % len(keys))
    rng.shuffle(keys)
    for k in keys:
        rng.shuffle(strata[k])
    while len(chosen) < limit and any(strata[k] for k in keys):
        for k in keys:
            if strata[k] and len(chosen) < limit:
                chosen.append(strata[k].pop())

    def one(item):
        rec, start_sig = item
        try:
            return runs.execute_perturbation(rec, start_sig, names_idx=0)
        except Exception as e:
            import traceback
            return {'harness_error': traceback.format_exc(limit=6)}
    with ThreadPoolExecutor(12) as ex:
        observations = list(ex.map(one, chosen))
    nontrivial = set()
    herr = 0
    for (rec, start_sig), obs in zip(chosen, observations):
        report.coverage['evaluations'] += 1
        pert = [short(norm_mutation(m)) for m in rec['pert']]
        base = [short(norm_mutation(m)) for m in rec['seq']]
        if obs.get('harness_error') or obs.get('setup_error') or 'outcome' not in obs:
            herr += 1
            if herr <= 3:
                report.notes.append('harness/setup problem: %s' % (obs.get('harness_error') or obs.get('setup_error')))
            continue
        report.coverage['traces_validated_against_impl'] += 1
        nontrivial.add(json_key(rec['pert'], rec['kind']))
        executed = 'evolving' in obs['signals']
        rejected = obs['outcome'] != 'ok'
        pre_db, post_db = obs['pre']['db'], obs['post']['db']
        unchanged = (pre_db == post_db and obs['pre']['book'] == obs['post']['book'])
        detail = {'valid_evolution': base, 'perturbation': rec['kind'], 'perturbed': pert,
                  'start': rec['start'], 'prediction': rec['prediction'],
                  'effective_mutations': rec.get('npending'),
                  'outcome': obs['outcome'], 'error': obs['error_type'], 'msg': obs['error_msg'],
                  'writes': obs['writes'][:6], 'sources': obs['sources']}
        if rejected and not executed:
            if obs['writes'] or not unchanged:
                report.fail({'class': 'rejected-but-database-touched'}, detail)
            if obs['error_type'] != 'CommandError':
                report.fail({'class': 'rejected-with-non-evolution-error',
                             'error': obs['error_type'],
                             'predicted_sim_fails': rec['prediction'] == 'sim-fails'}, detail)
        elif executed:
            # the property names the reasons for which an evolution must be refused before any SQL
            if rec['prediction'] == 'sim-fails' and rec.get('reason') in (
                    'missing-model', 'missing-field', 'add-existing', 'non-null-without-initial'):
                report.fail({'class': 'executed-although-it-must-be-rejected', 'reason': rec['reason'],
                             'kind': rec['kind']}, detail)
            # it ran SQL: then the pending evolution must have simulated to the models
            if rejected:
                # the simulation reached the models and execution failed on the
                # data (C01/C02 territory, rolled back): not a C12 matter
                report.notes.append('executed then failed (%s): %s' % (obs['error_msg'][:80], pert))
            elif obs.get('schema_vs_fresh') and rec['prediction'] != 'reaches' and not (
                    set(rec.get('hazards') or []) or obs['schema_vs_fresh'] == []):
                # judged without the code's own diff: the database is not what the models are
                report.fail({'class': 'executed-and-database-differs-from-models',
                             'predicted': rec['prediction'], 'kind': rec['kind'],
                             'kinds': sorted(set(d_.get('kind') for d_ in obs['schema_vs_fresh']))},
                            dict(detail, schema_vs_fresh=obs['schema_vs_fresh'][:6]))
            elif not (obs['after_diff_empty'] and not obs['after_required']):
                report.fail({'class': 'executed-without-reaching-models',
                             'predicted': rec['prediction'],
                             'no_effective_mutation': rec.get('npending') == 0},
                            dict(detail, after_required=obs['after_required'],
                                 after_diff_empty=obs['after_diff_empty'],
                                 after_error=obs['after_error']))
        # binding: the model's decision vs the command's
        want_exec = rec['prediction'] == 'reaches'
        if want_exec and rejected and not executed:
            report.spec_drift('Perturb.tla predicts reaches, command rejected (%s) for %s / %s'
                              % (obs['error_msg'][:80], rec['kind'], pert))
        elif not want_exec and not rejected:
            report.spec_drift('Perturb.tla predicts %s, command %s for %s / %s'
                              % (rec['prediction'], 'executed' if executed else 'did nothing',
                                 rec['kind'], pert))
        report.sample({'valid': base, 'perturbation': rec['kind'], 'perturbed': pert,
                       'prediction': rec['prediction'], 'outcome': obs['outcome'],
                       'error': obs['error_type'], 'writes': len(obs['writes'])})
    report.coverage['distinct_nontrivial'] = len(nontrivial)
    report.coverage['exhaustive'] = False
    report.coverage['rule'] = (
        'TLC builds every valid evolution up to the length bound (Optimizer!Extend) and applies every '
        'single perturbation of Perturb.tla (drop, duplicate, swap, retarget-model, rename-field, '
        'remove-initial, change-attribute, flip-null), deciding sim-fails / residual / reaches with the '
        'transcribed pipeline: %d cases, of which %d (stratified by perturbation kind and prediction) were '
        'written into a synthetic project and run through `evolve --execute --noinput`. Verdict: rejected => '
        'no write statement and identical schema/rows/bookkeeping; executed => a following Evolver finds '
        'nothing required and an empty diff. Distinct = distinct perturbed evolution.' % (total, len(chosen)))
    if herr > len(chosen) // 5:
        from .common import machinery_failure
        machinery_failure('too many harness errors in C12 (%d of %d)' % (herr, len(chosen)))
    report.assumptions += ['the models of the target version are rendered from the abstract signature TLC reports']
    return report.finish()


REGISTRY.update({'C12': c12})


def _signal_verdicts(report, res, detail, where):
    """Direct C17 checks on one raw runner result (used by the all-statement
    fault enumeration, which has no abstract trace)."""
    names = []
    seen_constructed = False
    for e in res['events']:
        if e['ev'] == 'constructed':
            seen_constructed = True
            names = []
            continue
        names.append(e['ev'])
    n_evolving = names.count('evolving')
    terminal = names.count('evolved') + names.count('evolving_failed')
    ok = res['outcome'] == 'ok'
    d = dict(detail, signals=[n for n in names if n not in ('stmt', 'book', 'commit', 'rollback',
                                                           'savepoint_rollback', 'stmt_fail')],
             outcome=res['outcome'], error=(res.get('error') or {}).get('type'),
             msg=((res.get('error') or {}).get('msg') or '')[:200])
    if n_evolving > 1:
        report.fail({'class': 'evolving-twice', 'where': where}, d)
    if n_evolving == 1 and terminal != 1:
        report.fail({'class': 'terminal-signal-count', 'count': terminal, 'where': where}, d)
    if n_evolving == 0 and terminal:
        report.fail({'class': 'terminal-without-evolving', 'where': where}, d)
    if ('evolved' in names) != (ok and n_evolving == 1):
        report.fail({'class': 'evolved-vs-return', 'evolved': 'evolved' in names,
                     'returned_ok': ok, 'where': where}, d)
    lock = res.get('lock')
    if lock and lock[0] != lock[1]:
        report.fail({'class': 'evolve-lock-not-restored', 'where': where}, dict(d, lock=lock))
    # an end signal says the work announced by its opening signal was done: it must not follow a
    # statement that failed in-between
    opened, failed = 0, False
    for n in names:
        if n in ('applying_evolution', 'creating_models', 'applying_migration'):
            opened += 1
        elif n == 'stmt_fail' and opened:
            failed = True
        elif n in ('applied_evolution', 'created_models', 'applied_migration'):
            if failed:
                report.fail({'class': 'end-signal-after-failed-statement', 'signal': n, 'where': where}, d)
                break
            opened = max(0, opened - 1)
    if ok:
        for a, b in (('applying_evolution', 'applied_evolution'),
                     ('creating_models', 'created_models'),
                     ('applying_migration', 'applied_migration')):
            if names.count(a) != names.count(b):
                report.fail({'class': 'unpaired-signal-on-success', 'signal': a, 'where': where}, d)


def _c17_created_models_payload(report, tier, nontrivial):
    """creating_models / created_models must name exactly the models whose tables are created
    between them - also when the same run renames a model to a new table (Evolver.tla's model
    groups plus the rename family of histories.py)."""
    import re
    from .djproj import Project
    from .histories import chain_history
    for variant, intro, start in ((3, 2, 1), (3, 2, 0), (0, 2, 1), (3, 3, 1)):
        h = chain_history('shop', 3, variant=variant, intro_at=intro)
        for drv in ('api', 'cmd'):
            p = Project(['shop'], tag='c17m')
            try:
                h.deploy(p, start)
                r0 = p.run({'action': 'evolve_api'})
                if r0['outcome'] != 'ok':
                    report.notes.append('C17 payload family: start state not installable')
                    continue
                h.deploy(p, 3)
                req = {'action': 'evolve_api'} if drv == 'api' else \
                    {'action': 'command', 'name': 'evolve',
                     'options': {'execute': True, 'interactive': False, 'verbosity': 0}}
                res = p.run(req)
            finally:
                p.destroy()
            report.coverage['evaluations'] += 1
            report.coverage['traces_validated_against_impl'] += 1
            where = {'family': 'rename+new-model', 'variant': variant, 'new_model_at': intro,
                     'start': start, 'driver': drv, 'outcome': res['outcome'],
                     'error': (res.get('error') or {}).get('msg')}
            nontrivial.add(('payload', variant, intro, start, drv))
            if res['outcome'] != 'ok':
                report.fail({'class': 'payload-family-upgrade-failed'}, where)
                continue
            named, created, window = [], [], False
            for e in res['events']:
                if e['ev'] == 'creating_models' and e.get('app') == 'shop':
                    window = True
                    named += ['shop_%s' % m.lower() for m in e.get('models') or []]
                elif e['ev'] == 'created_models' and e.get('app') == 'shop':
                    window = False
                elif e['ev'] == 'stmt' and window:
                    m = re.match(r'CREATE TABLE "([^"]+)"', e['sql'])
                    if m and m.group(1) != 'TEMP_TABLE':
                        created.append(m.group(1))
            if sorted(named) != sorted(created):
                report.fail({'class': 'creating-models-payload-differs-from-created-tables'},
                            dict(where, named=sorted(named), created=sorted(created)))


def _c17_handover_signals(report, tier, nontrivial):
    """The signals of upgrades that hand an app over to migrations (Handover.tla's behaviours:
    fresh / legacy table / after j evolutions / already on migrations, with companion apps):
    every applying_* / creating_models is followed by its counterpart in a run that succeeds, a
    run emits evolving at most once and exactly one terminal signal, and every migration
    Handover.tla says is run or taken over (soft-applied initial migration of a table that is
    already there) is announced as a pair."""
    import random
    from concurrent.futures import ThreadPoolExecutor
    from .common import seed
    from .engines import handover as H
    from .tlc import run_tlc, require_ok, write_cfg
    cfg = write_cfg('MC_Handover_c17.cfg', '''
SPECIFICATION Spec
CONSTANTS
  MaxK = 1
  M = 3
  EmitRecords = TRUE
CONSTRAINT Constraint
INVARIANT SoftOnlyLegacyInitial
INVARIANT RerunIsNoop
''')
    res = require_ok(run_tlc('Handover', cfg, workers=4, timeout=3000), 'Handover.tla')
    report.add_tlc('Handover MaxK=1 M=3 (signal pairing of handover upgrades)', res.stats())
    by_cfg = {}
    for r in res.records:
        if r.get('failFirst') or r.get('premarked') or r.get('moveSql') or r.get('newModel'):
            continue
        key = json_key([r['K'], r['S'], r['start'], sorted(r['companions'])], 0)
        by_cfg.setdefault(key, {})[r['run']] = r
    items = sorted(by_cfg.items())
    rng = random.Random(seed() * 577 + 17)
    rng.shuffle(items)
    limit = 16 if tier == 'quick' else 80
    # every start kind represented, the legacy table first
    items.sort(key=lambda kv: (kv[1][1]['start'][0] != 'legacy', -len(kv[1][1]['companions'])))
    kinds = {}
    for kv in items:
        kinds.setdefault(kv[1][1]['start'][0], []).append(kv)
    chosen = []
    while len(chosen) < limit and any(kinds.values()):
        for k in sorted(kinds, key=lambda x: x != 'legacy'):
            if kinds[k] and len(chosen) < limit:
                chosen.append(kinds[k].pop(0))

    def one(ikv):
        i, (key, runs) = ikv
        r1 = runs[1]
        return H.replay({'K': r1['K'], 'S': r1['S'], 'start': r1['start'], 'companions': r1['companions']},
                        idx=i, M=3)
    with ThreadPoolExecutor(16) as ex:
        observations = list(ex.map(one, enumerate(chosen)))
    opening = {'applied_evolution': 'applying_evolution', 'created_models': 'creating_models',
               'applied_migration': 'applying_migration'}
    for (key, runs), obs in zip(chosen, observations):
        r1 = runs[1]
        where = {'family': 'handover', 'K': r1['K'], 'mark_applied_prefix': r1['S'], 'start': r1['start'],
                 'companions': sorted(r1['companions']), 'driver': obs.get('driver')}
        if obs['errors']:
            report.notes.append('C17 handover family: start state could not be built: %r' % (obs['errors'][:1],))
            continue
        for runno in (1, 2):
            o = obs.get('run%d' % runno)
            if o is None:
                continue
            report.coverage['evaluations'] += 1
            report.coverage['traces_validated_against_impl'] += 1
            sigs = o['all_signals']
            detail = dict(where, run=runno, outcome=o['outcome'], signals=sigs)
            fp = {'family': 'handover', 'start': r1['start'][0]}
            names = [x[0] for x in sigs]
            if names.count('evolving') > 1:
                report.fail(dict(fp, **{'class': 'evolving-twice'}), detail)
            if names.count('evolving') and names.count('evolved') + names.count('evolving_failed') != 1:
                report.fail(dict(fp, **{'class': 'terminal-signal-count'}), detail)
            if ('evolved' in names) != (o['outcome'] == 'ok' and 'evolving' in names):
                report.fail(dict(fp, **{'class': 'evolved-vs-return'}), detail)
            open_sig = []
            for x in sigs:
                if x[0] in opening.values():
                    if open_sig and not (x[0] == 'creating_models' and open_sig[-1][0] == 'creating_models'):
                        report.fail(dict(fp, **{'class': 'nested-or-unclosed-signal', 'signal': open_sig[-1][0]}),
                                    dict(detail, at=x))
                        open_sig = []
                    open_sig.append(x)
                elif x[0] in opening:
                    match = [y for y in open_sig if y[0] == opening[x[0]] and y[1:] == x[1:]]
                    if not match:
                        report.fail(dict(fp, **{'class': 'counterpart-without-opening', 'signal': x[0]}),
                                    dict(detail, at=x))
                    else:
                        open_sig.remove(match[0])
            if open_sig and o['outcome'] == 'ok':
                report.fail(dict(fp, **{'class': 'unpaired-signal-on-success', 'signal': open_sig[0][0]}),
                            dict(detail, unpaired=open_sig))
            exp = runs.get(runno)
            if exp is not None and o['outcome'] == 'ok':
                want = [H.mig_name(n) for n in list(exp.get('soft') or []) + list(exp['migExecuted'])]
                closed = [x[2] for x in sigs if x[0] == 'applied_migration' and x[1] == 'shop']
                if closed != want:
                    report.fail(dict(fp, **{'class': 'applied-migration-signals-differ-from-migrations-applied',
                                            'soft_applied_initial': bool(exp.get('soft'))}),
                                dict(detail, announced_as_applied=closed, applied_per_spec=want))
                if exp.get('soft') or exp['migExecuted']:
                    nontrivial.add(('handover', key, runno))


def _c17_every_statement(report, tier):
    """A failure injected at EVERY statement (of any kind) issued inside
    evolve(): fresh install (with contenttypes' migrations), an upgrade, and a
    run with nothing to do."""
    from concurrent.futures import ThreadPoolExecutor
    from .djproj import Project
    from .engines import runs
    histories = runs.make_histories(2)
    scenarios = [
        ('fresh install of two apps', [('a1', 2), ('a2', 1)], None),
        ('upgrade a1 0->2 with a2 new', [('a1', 2), ('a2', 1)], [('a1', 0)]),
        ('nothing to do', [('a1', 1)], [('a1', 1)]),
    ]
    if tier == 'quick':
        step = 3
    else:
        step = 1
    jobs = []
    for name, final, first in scenarios:
        p = Project([h.app for h in histories.values()], tag='c17dry')
        try:
            p.set_installed([])
            if first:
                for a, v in first:
                    histories[a].deploy(p, v)
                p.set_installed([histories[a].app for a, v in first])
                p.run({'action': 'evolve_api'})
            for a, v in final:
                histories[a].deploy(p, v)
            p.set_installed([histories[a].app for a, v in final])
            dry = p.run({'action': 'evolve_api'})
            n = dry.get('all_statements', 0)
        finally:
            p.destroy()
        for k in range(1, n + 1, step):
            jobs.append((name, final, first, k, n))

    def one(job):
        name, final, first, k, n = job
        p = Project([h.app for h in histories.values()], tag='c17k')
        try:
            p.set_installed([])
            if first:
                for a, v in first:
                    histories[a].deploy(p, v)
                p.set_installed([histories[a].app for a, v in first])
                p.run({'action': 'evolve_api'})
            for a, v in final:
                histories[a].deploy(p, v)
            p.set_installed([histories[a].app for a, v in final])
            res = p.run({'action': 'evolve_api' if k % 2 else 'command', 'name': 'evolve',
                         'options': {'execute': True, 'interactive': False, 'verbosity': 0},
                         'fault': {'at': k, 'scope': 'all'}, 'project': False,
                         'want_signature': False})
            return job, res
        finally:
            p.destroy()
    count = 0
    with ThreadPoolExecutor(12) as ex:
        for (name, final, first, k, n), res in ex.map(one, jobs):
            report.coverage['evaluations'] += 1
            if res.get('outcome') == 'runner-crash':
                report.notes.append('runner crash at %s k=%d: %s' % (name, k, res.get('stderr', '')[-200:]))
                continue
            fired = res.get('fault_fired')
            if not fired:
                continue
            count += 1
            _signal_verdicts(report, res, {'scenario': name, 'statement_index': k, 'of': n,
                                           'failing_sql': fired['sql'][:160],
                                           'kind': fired.get('kind')}, 'every-statement')
    return count, len(jobs)


def _c07_rich_family(report, tier, nontrivial):
    """C07 over generated single-evolution upgrades of models with relations:
    TLC enumerates the valid sequences (Optimizer.tla, start signatures 2 and 5,
    alphabet 6), each becomes one stored evolution of a real project; a fault
    is injected at EVERY statement of the upgrade."""
    import random
    from concurrent.futures import ThreadPoolExecutor
    from .common import seed
    from .engines import runs
    from .tlc import run_tlc, require_ok
    from .absmodel import norm_mutation, short
    rng = random.Random(seed() * 104729 + 3)
    recs = []
    for maxlen, start, alpha in ([(2, 5, 6), (2, 2, 6)] if tier == 'quick' else [(3, 5, 6), (3, 2, 6), (2, 1, 1)]):
        cfg = _optimizer_cfg(maxlen, start, alpha, MERGEABLE_DOC)
        res = require_ok(run_tlc('Optimizer', cfg, workers=16, timeout=3000),
                         'Optimizer.tla (rich family) start=%d alpha=%d' % (start, alpha))
        report.add_tlc('Optimizer (rich family for C07) len<=%d start=%d alpha=%d'
                       % (maxlen, start, alpha), res.stats())
        start_sig = _start_sig(start)
        for r in res.records:
            # sequences the pipeline is known to handle (no predicted defect, no hazard)
            if r['seq'] and not r['viol'] and not r['hazards'] and r['twoOk']:
                recs.append((r, start_sig))
    rng.shuffle(recs)
    # prefer sequences that touch two models
    recs.sort(key=lambda it: -len(set(m['m'] for m in it[0]['seq'])))
    chosen = recs[:24 if tier == 'quick' else 300]

    def one(item):
        try:
            return runs.execute_upgrade_with_faults(item[0], item[1],
                                                    max_k=6 if tier == 'quick' else None)
        except Exception:
            import traceback
            return {'harness_error': traceback.format_exc(limit=6)}
    with ThreadPoolExecutor(12) as ex:
        outs = list(ex.map(one, chosen))
    fired = 0
    for (rec, start_sig), out in zip(chosen, outs):
        label = [short(norm_mutation(m)) for m in rec['seq']]
        if out.get('harness_error') or out.get('setup_error'):
            report.notes.append('rich family setup problem: %s' % (out.get('harness_error') or out.get('setup_error')))
            continue
        if out.get('clean', {}).get('outcome') != 'ok':
            report.notes.append('rich family: uninterrupted upgrade failed for %s: %s'
                                % (label, out.get('clean', {}).get('error')))
            continue
        for r in out['runs']:
            report.coverage['evaluations'] += 1
            if not r['fired']:
                continue
            fired += 1
            nontrivial.add(('rich', json_key(rec['seq'], rec['start']), r['k']))
            detail = {'evolution': label, 'start': rec['start'], 'k': r['k'], 'of': r['n'],
                      'failing_sql': r['fired']['sql'][:200], 'error': r['error_msg'],
                      'retry_error': r['retry_error']}
            if r['outcome'] == 'ok':
                report.fail({'class': 'fault-swallowed', 'family': 'rich'}, detail)
                continue
            if not r['unchanged']:
                report.fail({'class': 'failed-evolution-left-changes', 'family': 'rich',
                             'schema_changed': not r['schema_unchanged'],
                             'bookkeeping_changed': not r['book_unchanged']}, detail)
            if r['error_type'] != 'EvolutionExecutionError':
                report.fail({'class': 'wrong-error-type', 'type': r['error_type'],
                             'family': 'rich'}, detail)
            elif not r['last_sql'] or r['last_sql'][0] != r['fired']['sql']:
                report.fail({'class': 'error-does-not-name-statement', 'family': 'rich'},
                            dict(detail, last_sql=r['last_sql']))
            if not r['retry_equals_clean']:
                report.fail({'class': 'retry-differs-from-uninterrupted', 'family': 'rich',
                             'retry_outcome': r['retry_outcome'],
                             'failed_run_left_changes': not r['unchanged']}, detail)
            report.coverage['traces_validated_against_impl'] += 1
    return len(chosen), fired


def _c09_projects(report, tier):
    """C09 part 2: EvoGraph.tla + real projects with dependency declarations."""
    import json as _json
    import os
    import random
    from concurrent.futures import ThreadPoolExecutor
    from .common import scratch_dir, seed
    from .engines import evograph as G
    from .tlc import run_tlc, require_ok, write_cfg
    rng = random.Random(seed() * 6151 + 23)
    records = []
    # exhaustive small scope
    cfg = write_cfg('MC_EvoGraph_2.cfg', '''
SPECIFICATION Spec
CONSTANTS
  NApps = 2
  MaxPending = 1
  FromFile = FALSE
  EmitRecords = TRUE
CONSTRAINT Constraint
''')
    res = require_ok(run_tlc('EvoGraph', cfg, workers=8, timeout=3000), 'EvoGraph.tla NApps=2')
    report.add_tlc('EvoGraph NApps=2 MaxPending=1 (exhaustive)', res.stats())
    seen = set()
    for r in res.records:
        key = _json.dumps({k: r[k] for k in ('applied', 'pending', 'newm', 'after', 'before', 'eafter')},
                          sort_keys=True)
        if key not in seen:
            seen.add(key)
            records.append(r)
    n_exh = len(records)
    # sampled, evaluated by TLC on exactly these projects
    for napps, count in ([(3, 40)] if tier == 'quick' else [(3, 400), (4, 200)]):
        cfgs = G.sample_configs(rng, napps, count)
        if napps == 3:
            cfgs = G.interleave_configs() + cfgs
        path = os.path.join(scratch_dir(), 'evograph-%d.json' % napps)
        with open(path, 'w') as fp:
            _json.dump(cfgs, fp)
        cfg = write_cfg('MC_EvoGraph_file_%d.cfg' % napps, '''
SPECIFICATION Spec
CONSTANTS
  NApps = %d
  MaxPending = 3
  FromFile = TRUE
  EmitRecords = TRUE
CONSTRAINT Constraint
''' % napps)
        res = require_ok(run_tlc('EvoGraph', cfg, workers=8, timeout=3000,
                                 env={'CFG_FILE': path}), 'EvoGraph.tla sampled NApps=%d' % napps)
        report.add_tlc('EvoGraph NApps=%d (%d sampled projects)' % (napps, count), res.stats())
        seen2 = set()
        for r in res.records:
            key = _json.dumps({k: r[k] for k in ('applied', 'pending', 'newm', 'after', 'before', 'eafter')},
                              sort_keys=True)
            if key not in seen2:
                seen2.add(key)
                records.append(r)
    # replay: all sampled ones, and a seeded part of the exhaustive ones that
    # contains every predicted-violation shape
    exh = records[:n_exh]
    rest = records[n_exh:]
    hot = [r for r in exh if r['viol']]
    cold = [r for r in exh if not r['viol'] and (r['after'] or r['before'] or r['eafter'])]
    rng.shuffle(hot)
    rng.shuffle(cold)
    k = 30 if tier == 'quick' else 300
    chosen = hot[:k // 3] + cold[:k] + rest

    def norm(r):
        return {'napps': r['napps'], 'applied': list(r['applied']), 'pending': list(r['pending']),
                'newm': list(r['newm']), 'after': [list(x) for x in r['after']],
                'before': [list(x) for x in r['before']],
                'eafter': [[x[0], list(x[1]), x[2] if len(x) > 2 else 1] for x in r['eafter']]}

    def one(r):
        try:
            return G.run_config(norm(r))
        except Exception:
            import traceback
            return {'harness_error': traceback.format_exc(limit=5)}
    with ThreadPoolExecutor(12) as ex:
        observations = list(ex.map(one, chosen))
    nontrivial = set()
    for r, obs in zip(chosen, observations):
        cfgd = norm(r)
        report.coverage['evaluations'] += 1
        if obs.get('harness_error') or obs.get('setup_error'):
            report.notes.append('project problem: %s' % (obs.get('harness_error') or obs.get('setup_error')))
            continue
        report.coverage['traces_validated_against_impl'] += 1
        if cfgd['after'] or cfgd['before'] or cfgd['eafter']:
            nontrivial.add(_json.dumps(cfgd, sort_keys=True))
        fails, unsat = G.judge(cfgd, obs)
        spec_order = [tuple(x) for x in r['executed']]
        for cls, detail in fails:
            fp = {'class': cls, 'part': 'projects',
                  'predicted_by_spec': (('InvRespected' in r['viol']) if cls in (
                      'requirement-broken', 'unit-not-executed-exactly-once') else
                      ('InvReported' in r['viol']) if cls == 'unsatisfiable-not-reported' else
                      ('InvNoFalseRejection' in r['viol']))}
            if cls == 'requirement-broken':
                fp['kinds'] = detail['kinds']
            report.fail(fp, {'project': cfgd, 'real_order': obs['order'], 'spec_order': spec_order,
                             'observed': detail, 'outcome': obs['outcome'], 'error': obs['error_msg']})
        if obs['outcome'] == 'ok' and r['ok'] and [tuple(x) for x in obs['order']] != spec_order:
            report.spec_drift('EvoGraph.tla predicts order %s, code executed %s' % (spec_order, obs['order']),
                              cfgd)
        elif (obs['outcome'] == 'ok') != bool(r['ok']):
            report.spec_drift('EvoGraph.tla predicts %s, code %s (%s)'
                              % ('an order' if r['ok'] else 'an error', obs['outcome'], obs['error_msg'][:80]), cfgd)
        report.sample({'project': cfgd, 'real_order': obs['order'], 'outcome': obs['outcome']}, limit=8)
    report.coverage['distinct_nontrivial'] += len(nontrivial)
    return len(records), len(chosen)


# ---------------------------------------------------------------------------
# C01 / C02: Schema.tla + fresh-creation oracle / row reference

def _schema_cfg(maxlen, start, alpha):
    from .tlc import write_cfg
    return write_cfg('MC_Schema_%d_%d_%d.cfg' % (maxlen, start, alpha), '''
SPECIFICATION Spec
CONSTANTS
  MaxLen = %d
  StartId = %d
  AlphaId = %d
  Mergeable = %s
  EmitRecords = TRUE
CONSTRAINT SConstraint
''' % (maxlen, start, alpha, _code_mergeable()))


def _schema_space(tier):
    import os
    if os.environ.get('VERIF_SCHEMA_SPACE'):        # debugging aid: "len,start,alpha;..."
        return [tuple(int(x) for x in part.split(',')) for part in os.environ['VERIF_SCHEMA_SPACE'].split(';')]
    if tier == 'quick':
        return [(2, 1, 1), (2, 2, 1), (2, 4, 4), (2, 5, 6), (2, 2, 3), (2, 6, 1), (2, 7, 7), (2, 8, 8), (2, 9, 10), (2, 1, 9),
                (2, 10, 3), (2, 5, 11), (2, 11, 12), (2, 12, 13), (3, 1, 15)]
    return [(3, 1, 1), (3, 2, 1), (3, 4, 4), (3, 5, 6), (3, 2, 3), (4, 3, 2), (4, 3, 5), (3, 6, 1), (3, 7, 7), (3, 8, 8), (3, 9, 10), (3, 1, 9),
            (3, 10, 3), (3, 5, 11), (3, 10, 11), (3, 11, 12), (3, 12, 13), (4, 1, 15)]


def _schema_check(prop, tier):
    import random
    from . import djsetup
    djsetup.setup()
    from .absmodel import ALT_NAMES, norm_mutation, short
    from .common import seed
    from .engines import mutseq
    from .tlc import run_tlc, require_ok
    report = Report(prop, tier)
    rng = random.Random(seed() * 999983 + (1 if prop == 'C01' else 2))
    recs = []
    for maxlen, start, alpha in _schema_space(tier):
        res = require_ok(run_tlc('Schema', _schema_cfg(maxlen, start, alpha), workers=16, timeout=5400),
                         'Schema.tla len<=%d start=%d alpha=%d' % (maxlen, start, alpha))
        report.add_tlc('Schema len<=%d start=%d alpha=%d' % (maxlen, start, alpha), res.stats())
        start_sig = _start_sig(start)
        recs += [(r, start_sig) for r in res.records if r['seq']]
    total = len(recs)
    limit = 1500 if tier == 'quick' else 30000
    if len(recs) > limit:
        hot = [r for r in recs if r[0]['sviol'] or r[0]['hazards']]
        cold = [r for r in recs if not (r[0]['sviol'] or r[0]['hazards'])]
        rng.shuffle(hot)
        rng.shuffle(cold)
        hot = hot[:limit // 3]
        recs = hot + cold[:limit - len(hot)]
    jobs = []
    for i, (rec, start_sig) in enumerate(recs):
        names_idx = i % (len(ALT_NAMES) if tier == 'thorough' else 2)
        jobs.append((rec, start_sig, names_idx, 'single' if i % 3 else 'each', True, True))
    observations = mutseq.observe_many(jobs)
    nontrivial = set()
    unavailable = 0
    herr = 0
    for (rec, start_sig, names_idx, split, _e, _f), obs in zip(jobs, observations):
        report.coverage['evaluations'] += 1
        seq = [norm_mutation(m) for m in rec['seq']]
        label = [short(m) for m in seq]
        if obs is None or obs.get('harness_error'):
            herr += 1
            if herr <= 3:
                report.notes.append('harness error: %s' % (obs or {}).get('harness_error'))
            continue
        report.coverage['traces_validated_against_impl'] += 1
        if len(seq) >= 2:
            nontrivial.add(json_key(seq, rec['start']))
        hazards = sorted(rec.get('hazards') or [])
        base = {'sequence': label, 'start': rec['start'], 'names': names_idx, 'split': split,
                'abstract_seq': seq, 'design_violations': rec['sviol']}
        if prop == 'C01':
            fails, available = mutseq.c01_failures(rec, obs)
            if not available:
                unavailable += 1
                continue
            for cls, which, detail, kinds in fails:
                fp = {'class': cls, 'pipeline': which, 'hazards': hazards,
                      'design_predicted': bool(rec['sviol']),
                      'optimiser_predicted': bool(set(rec['oviol']) - {'OptLeavesDefsIntact'})
                      if which != 'ref' else False}
                if kinds:
                    fp['kinds'] = kinds
                report.fail(fp, dict(base, observed=detail))
        else:
            for cls, which, detail, kinds in mutseq.c02_failures(rec, obs):
                fp = {'class': cls, 'pipeline': which, 'hazards': hazards, 'kinds': kinds,
                      'optimiser_predicted': bool(set(rec['oviol']) - {'OptLeavesDefsIntact'})
                      if which != 'ref' else False}
                report.fail(fp, dict(base, observed=detail))
            if obs.get('rows_error'):
                report.notes.append('row reference error: %s' % obs['rows_error'][-200:])
        report.sample({'sequence': label, 'start': rec['start'],
                       'fresh_diff_bat': obs.get('fresh_diff_bat'),
                       'rows_diff_bat': obs.get('rows_diff_bat'),
                       'pipelines': {k: obs.get(k) for k in ('ref', 'bat', 'evo')}})
    nx = _c01_cross_app(report, tier, nontrivial) if prop == 'C01' else 0
    report.coverage['distinct_nontrivial'] = len(nontrivial)
    report.coverage['exhaustive'] = (len(recs) == total and herr == 0)
    report.coverage['rule'] = (
        ('Cross-app family (CrossApp.tla): %d evolutions adding / deleting ForeignKey, OneToOne and ManyToMany '
         'fields between alpha.Tag, alpha.Item and beta.Tag (same-named models in two apps, relations to '
         'itself) executed on a real two-app project and compared with a fresh creation.  ' % nx if nx else '') +
        'TLC enumerates every simulation-valid mutation sequence up to the length bound over the start '
        'signatures and alphabets of Optimizer.tla/Schema.tla (relations, unique_together, unique and '
        'indexed columns) and checks SchemaIsFresh / UntouchedTablesEqual / Realisable on the design; '
        '%d of %d sequences were executed on real SQLite databases (index bookkeeping scanned from the '
        'database) through three pipelines and compared with %s. Non-trivial = length >= 2; distinct = '
        'distinct (start, sequence). %d cases had no usable oracle (models not renderable).'
        % (len(recs), total,
           'the schema Django creates from scratch for the evolved models' if prop == 'C01'
           else 'the reference data-flow of the rows present before the evolution', unavailable))
    if herr > len(jobs) // 10:
        from .common import machinery_failure
        machinery_failure('too many harness errors (%d of %d)' % (herr, len(jobs)))
    report.assumptions += ['row values come from a fixed palette incl. NULL, empty string, quotes, percent signs, negative numbers',
                           'a fresh-creation oracle is used only if the rendered models have an empty diff with the evolved signature']
    return report.finish()


def _c01_cross_app(report, tier, nontrivial):
    """C01 across two apps (CrossApp.tla): relation fields between two apps, two of whose models
    carry the same name, added / deleted by evolutions; evolved schema against a fresh creation."""
    import random
    from concurrent.futures import ThreadPoolExecutor
    from .common import seed
    from .engines import crossapp as X
    from .tlc import run_tlc, require_ok, write_cfg
    cfg = write_cfg('MC_CrossApp.cfg', '''
SPECIFICATION Spec
CONSTANTS
  MaxLen = 2
  EmitRecords = TRUE
CONSTRAINT Constraint
INVARIANT SchemaIsFresh
INVARIANT NoClash
''')
    res = require_ok(run_tlc('CrossApp', cfg, workers=8, timeout=3000), 'CrossApp.tla')
    report.add_tlc('CrossApp MaxLen=2 (relations between alpha.Tag, alpha.Item, beta.Tag)', res.stats())
    rng = random.Random(seed() * 911 + 1)
    strata = {}
    for r in res.records:
        shape = tuple((st['k'], st['kind'], st['src'][0] != st['dst'][0], st['src'][1] == st['dst'][1],
                       st['src'] == st['dst']) for st in r['seq'])
        strata.setdefault(shape, []).append(r)
    keys = sorted(strata, key=repr)
    rng.shuffle(keys)
    for k in keys:
        rng.shuffle(strata[k])
    # relations between the two same-named models first: that is where the naming rules differ
    keys.sort(key=lambda k: not any(st[2] and st[3] for st in k))
    limit = 100 if tier == 'quick' else max(len(keys), 600)
    chosen = []
    while len(chosen) < limit and any(strata[k] for k in keys):
        for k in keys:
            if strata[k] and len(chosen) < limit:
                chosen.append(strata[k].pop())
    with ThreadPoolExecutor(12) as ex:
        observations = list(ex.map(X.replay, chosen))
    for rec, obs in zip(chosen, observations):
        report.coverage['evaluations'] += 1
        label = ['%s %s.%s.%s %s -> %s.%s' % (st['k'], st['src'][0], st['src'][1], st['name'], st['kind'],
                                            st['dst'][0], st['dst'][1]) for st in rec['seq']]
        if obs.get('setup_error') or obs.get('fresh_error'):
            report.notes.append('cross-app family: project not installable: %s'
                                % (obs.get('setup_error') or obs.get('fresh_error')))
            continue
        report.coverage['traces_validated_against_impl'] += 1
        nontrivial.add('xapp:' + repr(label))
        fp = {'family': 'cross-app', 'kinds': sorted(set(st['kind'] for st in rec['seq'])),
              'same_name_other_app': any(st['src'][1] == st['dst'][1] and st['src'][0] != st['dst'][0]
                                         for st in rec['seq'])}
        detail = {'evolution': label, 'outcome': obs.get('outcome'), 'error': obs.get('error'),
                  'statements': obs.get('statements')}
        if obs.get('outcome') != 'ok':
            report.fail(dict(fp, **{'class': 'accepted-evolution-failed-to-execute'}), detail)
            continue
        if obs.get('diff'):
            report.fail(dict(fp, **{'class': 'schema-differs-from-fresh',
                                    'diff_kinds': sorted(set(d_.get('kind') for d_ in obs['diff']))}),
                        dict(detail, diff=obs['diff'][:8]))
        if obs.get('fk_check'):
            report.fail(dict(fp, **{'class': 'foreign-key-check-failed'}), dict(detail, fk_check=obs['fk_check']))
        if obs.get('spec_vs_django'):
            report.spec_drift('CrossApp.tla names the relation columns otherwise than Django for %s' % label,
                              obs['spec_vs_django'])
    return len(chosen)


def c01(tier, replay=None):
    return _schema_check('C01', tier)


def c02(tier, replay=None):
    return _schema_check('C02', tier)


REGISTRY.update({'C01': c01, 'C02': c02})


def c11(tier, replay=None):
    import json as _json
    from . import djsetup
    djsetup.setup()
    from .engines import refs
    from .tlc import run_tlc, require_ok, write_cfg
    report = Report('C11', tier)
    maxlen = 2 if tier == 'quick' else 3
    # the transcription as the code is: does RenameAppLabel rewrite references?
    probe = refs.replay({'psig0': {'p': {'A': {'id': {'kind': 'pk', 'rel': []}}},
                                   'q': {'C': {'id': {'kind': 'pk', 'rel': []},
                                               'r': {'kind': 'FK', 'rel': ['p', 'A']}}}},
                         'seq': [{'k': 'RenApp', 'app': 'p', 'n': 'r'}]})
    fixed = bool(probe.get('final', {}).get('q', {}).get('C', {}).get('r') == ['r', 'A'])
    report.notes.append('binding: AppLabelFixed = %s (probed on the real RenameAppLabel)' % fixed)
    cfg = write_cfg('MC_Refs_%d.cfg' % maxlen, '''
SPECIFICATION Spec
CONSTANTS
  MaxLen = %d
  EmitRecords = TRUE
  FocusLabels = FALSE
  AppLabelFixed = %s
CONSTRAINT Constraint
''' % (maxlen, 'TRUE' if fixed else 'FALSE'))
    res = require_ok(run_tlc('Refs', cfg, workers=16, timeout=3000), 'Refs.tla')
    report.add_tlc('Refs (all relation assignments, sequences <= %d)' % maxlen, res.stats())
    # label juggling: two app-label renames (one label set free and taken by the other app), then
    # any one / two further mutations
    jcfg = write_cfg('MC_Refs_juggle.cfg', '''
SPECIFICATION Spec
CONSTANTS
  MaxLen = %d
  EmitRecords = TRUE
  FocusLabels = TRUE
  AppLabelFixed = %s
CONSTRAINT Constraint
''' % (3 if tier == 'quick' else 4, 'TRUE' if fixed else 'FALSE'))
    jres = require_ok(run_tlc('Refs', jcfg, workers=16, timeout=3000), 'Refs.tla (label juggling)')
    report.add_tlc('Refs label juggling (two app-label renames first)', jres.stats())
    juggle = [r for r in jres.records if len(r['seq']) >= 3]
    # the design (repaired) must satisfy the invariant and the action property
    dcfg = write_cfg('MC_Refs_design.cfg', '''
SPECIFICATION Spec
CONSTANTS
  MaxLen = 2
  EmitRecords = FALSE
  FocusLabels = FALSE
  AppLabelFixed = TRUE
CONSTRAINT Constraint
INVARIANT NoDangling
PROPERTY RenameRewritesAll
''')
    dres = run_tlc('Refs', dcfg, workers=16, timeout=3000, allow_violation=True)
    report.add_tlc('Refs design: NoDangling + RenameRewritesAll', dres.stats())
    if dres.invariant_violated or dres.error:
        report.fail({'class': 'design-invariant', 'invariant': dres.invariant_violated},
                    {'tlc': dres.output[-2000:]})
    records = res.records
    if tier == 'quick' and len(records) > 12000:
        import random
        from .common import seed
        rng = random.Random(seed() + 5)
        hot = [r for r in records if r['dangling']]
        cold = [r for r in records if not r['dangling']]
        rng.shuffle(cold)
        records = hot[:4000] + cold[:8000]
    if len(juggle) > (3000 if tier == 'quick' else 60000):
        import random
        from .common import seed
        rngj = random.Random(seed() + 6)
        rngj.shuffle(juggle)
        juggle = juggle[:3000 if tier == 'quick' else 60000]
    records = list(records) + juggle
    nontrivial = set()
    for rec in records:
        report.coverage['evaluations'] += 1
        out = refs.replay(rec)
        label = ['%s(%s)' % (s['k'], ','.join(str(s[x]) for x in ('app', 'm', 'f', 'n') if x in s))
                 for s in rec['seq']]
        if 'error' in out:
            # the model accepted the step, the code rejected it: a rejected
            # sequence is outside "accepted sequences"; report as drift
            report.spec_drift('Refs.tla accepts %s, code rejects: %s' % (label, out['error']))
            continue
        report.coverage['traces_validated_against_impl'] += 1
        if len(rec['seq']) >= 2:
            nontrivial.add(_json.dumps([rec['psig0'], rec['seq']], sort_keys=True))
        want_names = refs.expected_names(rec['psig0'], rec['seq'])
        for i, st in enumerate(out['steps']):
            have_names = {a: ms for a, ms in st['names'].items() if ms}
            if have_names != {a: ms for a, ms in want_names[i].items() if ms}:
                # the mutation changed something else than the app / model it names
                report.fail({'class': 'mutation-changed-another-target', 'after': st['step']['k']},
                            {'start': rec['psig0'], 'sequence': label, 'step': i,
                             'models_by_app': st['names'], 'named_by_the_mutations': want_names[i]})
                break
            if st['dangling']:
                report.fail({'class': 'dangling-reference', 'after': st['step']['k'],
                             'predicted_by_spec': bool(rec['dangling'])},
                            {'start': rec['psig0'], 'sequence': label, 'step': i,
                             'dangling': st['dangling']})
                break
        want = refs.spec_projection(rec['psig'])
        have = {a: ms for a, ms in out['final'].items()}
        want = {a: ms for a, ms in want.items() if ms or a in have}
        if want != {a: ms for a, ms in have.items() if ms or a in want}:
            report.spec_drift('final references differ for %s' % label,
                              {'spec': want, 'code': have})
        report.sample({'sequence': label, 'final_references': out['final']})
    report.coverage['distinct_nontrivial'] = len(nontrivial)
    report.coverage['exhaustive'] = len(records) == len(res.records)
    report.coverage['rule'] = (
        'TLC enumerates every assignment of relation targets (FK from each of three models in two apps, '
        'M2M from one) x every sequence up to length %d of RenameModel, RenameAppLabel, RenameField (incl. '
        'the primary key), DeleteField, DeleteModel, DeleteApplication; every behaviour is replayed into '
        'the real simulate() methods on a real ProjectSignature (model names that are prefixes of each '
        'other, app labels likewise) and the signature walked after every step. Non-trivial = length >= 2.'
        % maxlen)
    ndb = _c11_database(report, tier, nontrivial)
    report.coverage['distinct_nontrivial'] = len(nontrivial)
    report.coverage['rule'] += (
        '  Database part (Schema.tla, foreign keys as <<column, referenced table, referenced column>>): %d '
        'sequences over alphabet 11 of Optimizer.tla (a referenced primary key or model is renamed, then the '
        'referring table is rebuilt, gains another relation to it or has its relation renamed; ForeignKey and '
        'OneToOne starts) executed on SQLite through the three pipelines: PRAGMA foreign_key_check must pass and '
        'every foreign key must point at the table and column a fresh creation gives it.' % ndb)
    return report.finish()


def _c11_database(report, tier, nontrivial):
    from .absmodel import norm_mutation, short
    from .engines import mutseq
    from .tlc import run_tlc, require_ok
    maxlen = 2 if tier == 'quick' else 3
    recs = []
    for start in (5, 10):
        res = require_ok(run_tlc('Schema', _schema_cfg(maxlen, start, 11), workers=8, timeout=3000), 'Schema.tla')
        report.add_tlc('Schema len<=%d start=%d alphabet=11 (referenced keys / models renamed)' % (maxlen, start),
                       res.stats())
        start_sig = _start_sig(start)
        recs += [(r, start_sig) for r in res.records if r['seq'] and r['optOk']]
    jobs = [(rec, start_sig, i % 2, 'single' if i % 3 else 'each', True, True)
            for i, (rec, start_sig) in enumerate(recs)]
    observations = mutseq.observe_many(jobs)
    done = 0
    for (rec, start_sig, names_idx, split, _e, _f), obs in zip(jobs, observations):
        report.coverage['evaluations'] += 1
        if obs is None or obs.get('harness_error'):
            continue
        label = [short(norm_mutation(m)) for m in rec['seq']]
        report.coverage['traces_validated_against_impl'] += 1
        done += 1
        if len(label) >= 2:
            nontrivial.add('db:%d:%s' % (rec['start'], label))
        fails, available = mutseq.c01_failures(rec, obs)
        if not available:
            continue
        for cls, which, detail, kinds in fails:
            relational = cls in ('foreign-key-check-failed', 'accepted-evolution-failed-to-execute',
                                 'accepted-evolution-failed-to-generate-sql') or 'fks' in (kinds or [])
            if not relational:
                continue            # other schema differences are C01's business
            report.fail({'class': cls, 'part': 'database', 'pipeline': which, 'kinds': kinds,
                         'hazards': sorted(rec.get('hazards') or []),
                         'optimiser_predicted': bool(set(rec['oviol']) - {'OptLeavesDefsIntact'})
                         if which != 'ref' else False},
                        {'sequence': label, 'start': rec['start'], 'observed': detail})
    return done


REGISTRY.update({'C11': c11})


def c05(tier, replay=None):
    import random
    from . import djsetup
    djsetup.setup()
    from .absmodel import ALT_NAMES, norm_mutation, short
    from .common import seed
    from .engines import sigpair
    from .tlc import run_tlc, require_ok, write_cfg
    report = Report('C05', tier)
    recs = []
    for edits, start in ([(2, 1), (2, 2), (2, 3), (2, 4), (2, 5)] if tier == 'quick' else [(3, 1), (3, 2), (3, 3), (3, 4), (3, 5)]):
        cfg = write_cfg('MC_Hint_%d_%d.cfg' % (edits, start), '''
SPECIFICATION Spec
CONSTANTS
  MaxEdits = %d
  StartId = %d
  EmitRecords = TRUE
CONSTRAINT Constraint
''' % (edits, start))
        res = require_ok(run_tlc('Hint', cfg, workers=16, timeout=3000), 'Hint.tla')
        report.add_tlc('Hint edits<=%d start=%d' % (edits, start), res.stats())
        seen = set()
        for r in res.records:
            key = json_key(r['new'], r['start'])
            if key not in seen:
                seen.add(key)
                recs.append(r)
    total = len(recs)
    rng = random.Random(seed() * 31337 + 1)
    limit = 4000 if tier == 'quick' else 100000
    if len(recs) > limit:
        hot = [r for r in recs if r['viol']]
        cold = [r for r in recs if not r['viol']]
        rng.shuffle(cold)
        recs = hot[:limit // 2] + cold[:limit - min(len(hot), limit // 2)]
    nontrivial = set()
    for i, rec in enumerate(recs):
        names = ALT_NAMES[i % 2]
        report.coverage['evaluations'] += 1
        obs = sigpair.observe(rec, names)
        if obs.get('diff_error'):
            report.notes.append('diff error: %s' % obs['diff_error'][-300:])
            report.fail({'class': 'diff-raises'}, {'old': rec['old'], 'new': rec['new'],
                                                   'error': obs['diff_error']})
            continue
        report.coverage['traces_validated_against_impl'] += 1
        nontrivial.add(json_key(rec['new'], rec['start']))
        spec_hint = [short(norm_mutation(m)) for m in rec['hint']]
        detail = {'start': rec['start'], 'new': rec['new'], 'hint': obs.get('hint_str'),
                  'spec_hint': spec_hint, 'diff': obs.get('diff_str'),
                  'residual': obs.get('residual'), 'sim_error': obs.get('sim_error')}
        predicted = 'HintCloses' in rec['viol']
        if not obs['sim_ok']:
            report.fail({'class': 'hint-simulation-fails', 'predicted_by_spec': predicted}, detail)
        elif not obs['residual_empty']:
            kinds = sorted(set(
                'related_model' if "'related_model'" in line else
                'meta' if 'Meta property' in line else
                'field' if 'Property' in line or 'Field' in line else 'other'
                for line in '\n'.join(obs['residual']).split('\n') if line.startswith('    ')))
            report.fail({'class': 'hint-leaves-residual', 'predicted_by_spec': predicted,
                         'kinds': kinds}, detail)
        if not obs['self_diff_empty']:
            report.fail({'class': 'self-diff-not-empty'}, detail)
        if not obs['clone_ok']:
            report.fail({'class': 'clone-differs'}, detail)
        both_empty = obs['diff_empty'] and obs['rdiff_empty']
        if obs['eq'] != both_empty:
            report.fail({'class': 'eq-vs-diff-mismatch', 'eq': obs['eq'],
                         'predicted_by_spec': 'EqIffDiffEmptyBothWays' in rec['viol']}, detail)
        # binding
        want = sorted(spec_hint)
        have = sorted(short(norm_mutation(m)) for m in obs.get('hint', []))
        if want != have:
            report.spec_drift('hint differs: spec %s code %s' % (want, have))
        elif predicted and obs['sim_ok'] and obs.get('residual_empty'):
            report.spec_drift('Hint.tla predicts a residual for %s, code closes it' % have)
        report.sample({'hint': obs.get('hint_str'), 'residual_empty': obs.get('residual_empty'),
                       'eq': obs.get('eq'), 'diff_empty_both_ways': both_empty})
    report.coverage['distinct_nontrivial'] = len(nontrivial)
    report.coverage['exhaustive'] = len(recs) == total
    report.coverage['rule'] = (
        'TLC enumerates every pair (stored, edited) reachable by the developer-edit actions of Hint.tla '
        '(add / delete / retype field, toggle null / db_index / unique, max_length, explicit defaults, '
        'unique_together incl. reordering, Meta.indexes incl. reordering, delete model, retarget relation) and '
        'evaluates the transcribed diff and hint; %d of %d distinct pairs were rebuilt as real ProjectSignatures '
        'by direct construction and pushed through the real Diff, Diff.evolution(), simulate() and __eq__. '
        'Distinct = distinct edited signature.' % (len(recs), total))
    report.assumptions += ['signatures built by direct construction (explicit defaults are only expressible that way)',
                           'placeholders for required initial values are kept as they are (they satisfy the simulation)']
    return report.finish()


REGISTRY.update({'C05': c05})


# ---------------------------------------------------------------------------
# C06 / C13: Codec.tla

def _codec_records(report, tier):
    from .tlc import run_tlc, require_ok, write_cfg
    # binding of the dispatch constant: does the code read back a stored Q as a Q?
    from django.db.models import Q
    from collections import OrderedDict as OD
    from django_evolution.serialization import (deserialize_from_signature,
                                                serialize_to_signature)
    import json as _json
    probe = deserialize_from_signature(_json.loads(_json.dumps(serialize_to_signature(Q(a=1))),
                                                   object_pairs_hook=OD))
    by_isinstance = isinstance(probe, Q)
    report.notes.append('binding: DictDispatchByIsinstance = %s (probed)' % by_isinstance)
    from django_evolution.serialization import serialize_to_python
    try:
        repaired = serialize_to_python(Q(Q(a=1) | Q(b=2))) is not None
    except Exception:
        repaired = False
    report.notes.append('binding: RendererRepaired = %s (probed)' % repaired)
    cfg = write_cfg('MC_Codec.cfg', '''
SPECIFICATION Spec
CONSTANTS
  EmitRecords = TRUE
  DictDispatchByIsinstance = %s
  RendererRepaired = %s
CONSTRAINT Constraint
INVARIANT TwinsStoredApart
''' % ('TRUE' if by_isinstance else 'FALSE', 'TRUE' if repaired else 'FALSE'))
    res = require_ok(run_tlc('Codec', cfg, workers=8, timeout=3000), 'Codec.tla')
    report.add_tlc('Codec (all values of the grammar)', res.stats())
    seen = set()
    out = []
    for r in res.records:
        key = json_key(r['val'], 0)
        if key not in seen:
            seen.add(key)
            out.append(r)
    return out


def _codec_pick(recs, tier, rng, clauses):
    limit = 2500 if tier == 'quick' else 10 ** 9
    if len(recs) <= limit:
        return recs
    hot = [r for r in recs if set(r['viol']) & clauses]
    cold = [r for r in recs if not (set(r['viol']) & clauses)]
    rng.shuffle(hot)
    rng.shuffle(cold)
    small = [r for r in recs if r['val']['t'] not in ('q', 'comb')]
    return small + hot[:limit // 3] + cold[:limit - limit // 3]


def _c06_judge(report, rec, v, value, pos, through_db, obs, via, nontrivial):
    if obs.get('resave_eq') is False or obs.get('resave_same_text') is False:
        report.fail({'class': 'signature-edited-in-place-not-stored-on-second-save', 'built_from': via},
                    {'value': repr(value)[:200], 'position': pos,
                     'observed': {k: obs[k] for k in ('resave_eq', 'resave_same_text')}})
    if v['t'] in ('q', 'comb', 'list', 'tuple', 'dict', 'enum', 'value'):
        nontrivial.add(json_key(v, 0))
    detail = {'built_from': via, 'value': repr(value)[:300], 'position': pos, 'through_version_table': through_db,
              'observed': {k: obs[k] for k in obs if k != 'tb'}, 'spec_viol': rec['viol']}
    modulo_ok = 'ReadBackEqualModuloTuples' not in rec['viol']
    tuple_only = ('ReadBackEqual' in rec['viol']) and modulo_ok
    fpx = {'built_from': via, 'position': pos, 'value_type': v['t'], 'tuple_becomes_list': tuple_only,
           'predicted_by_spec': not modulo_ok}
    if obs.get('write_error'):
        report.fail(dict(fpx, **{'class': 'cannot-serialize'}), detail)
    elif obs.get('read_error'):
        report.fail(dict(fpx, **{'class': 'cannot-deserialize'}), detail)
    elif obs.get('compare_error'):
        report.fail(dict(fpx, **{'class': 'compare-raises'}), detail)
    else:
        if not obs['eq']:
            report.fail(dict(fpx, **{'class': 'read-back-not-equal'}), detail)
        if not obs['diff_empty']:
            report.fail(dict(fpx, **{'class': 'read-back-diff-not-empty'}), detail)
        if not obs['same_text']:
            report.fail(dict(fpx, **{'class': 'reserialises-differently'}), detail)
        if obs['eq'] and not modulo_ok:
            report.spec_drift('Codec.tla predicts a read-back difference for %s' % repr(value)[:80])


def c06(tier, replay=None):
    import random
    from . import djsetup
    djsetup.setup()
    from .common import seed
    from .engines import codec
    from . import rig as R
    from .absmodel import DEFAULT_NAMES
    report = Report('C06', tier)
    recs = _codec_records(report, tier)
    rng = random.Random(seed() * 2654435761 % (2 ** 31) + 7)
    chosen = _codec_pick(recs, tier, rng, {'ReadBackEqual', 'ReadBackEqualModuloTuples', 'ReserialiseSameText'})
    # a database with the version table (real fresh install of an empty project)
    rig = R.Rig(DEFAULT_NAMES)
    rig.prepare(_start_sig(3), nrows=0)
    rig.fresh_copy('c06')
    nontrivial = set()
    via_objects = 0
    for i, rec in enumerate(chosen):
        v = rec['val']
        pos = codec.position_of(v)
        strs = {'s': codec.PALETTE[i % len(codec.PALETTE)]}
        report.coverage['evaluations'] += 1
        try:
            value = codec.concretise(v, strs)
        except Exception as e:
            report.notes.append('cannot concretise %s: %s' % (v['t'], e))
            continue
        through_db = (i % 4 == 0) or tier == 'thorough'
        last = {}
        for via in ('direct', 'objects'):
            obs = codec.storage_round_trip(value, pos, through_db, via)
            if obs is None:
                continue
            last = obs
            report.coverage['traces_validated_against_impl'] += 1
            via_objects += (via == 'objects')
            _c06_judge(report, rec, v, value, pos, through_db, obs, via, nontrivial)
        if pos == 'field_attr':
            o1 = codec.v1_round_trip(value, pos)
            if o1.get('error') or not o1.get('diff_empty'):
                report.fail({'class': 'v1-round-trip-differs', 'value_type': v['t']},
                            {'value': repr(value)[:300], 'v1': o1})
            # strings: the whole palette, plus Latin-1 and beyond-Latin-1 characters
            variants = [value] if v['t'] != 'str' else \
                list(codec.PALETTE) + ['pr\u00e9nom \u00ab\u00fc\u00bb', 'snow\u2603 \u4e2d', '\U0001f600']
            for val in variants:
                o2 = codec.v1_storage_round_trip(val, pos)
                report.coverage['traces_validated_against_impl'] += 1
                if o2.get('error') or not o2.get('diff_empty'):
                    report.fail({'class': 'stored-v1-signature-reads-back-differently', 'value_type': v['t'],
                                 'non_ascii': isinstance(val, str) and any(ord(c) > 127 for c in val)},
                                {'value': repr(val)[:300], 'v1_stored': o2})
        report.sample({'value': repr(value)[:120], 'position': pos, 'eq': last.get('eq'),
                       'diff_empty': last.get('diff_empty'), 'same_text': last.get('same_text')})
    # one signature that holds a value AND its twin (True for 1, False for 0 ...), in both orders
    twins = 0
    for i, rec in enumerate(chosen):
        v, tw = rec['val'], rec.get('twin')
        pos = codec.position_of(v)
        if tw is None or json_key(tw, 0) == json_key(v, 0) or pos not in ('condition', 'expression'):
            continue
        try:
            value, twin = codec.concretise(v, {}), codec.concretise(tw, {})
        except Exception:
            continue
        for via in ('direct', 'objects'):
            for first, second in ((value, twin), (twin, value)):
                obs = codec.pair_round_trip(first, second, pos, via, through_db=(twins % 5 == 0))
                if obs is None:
                    continue
                twins += 1
                report.coverage['traces_validated_against_impl'] += 1
                if obs.get('error') or not obs.get('same_text'):
                    report.fail({'class': 'value-read-back-as-its-twin', 'position': pos, 'built_from': via,
                                 'value_type': v['t'], 'error': bool(obs.get('error'))},
                                {'first': repr(first)[:200], 'second': repr(second)[:200], 'observed': obs})
    report.coverage['twin_signatures'] = twins
    R.close_db()
    report.coverage['distinct_nontrivial'] = len(nontrivial)
    report.coverage['exhaustive'] = len(chosen) == len(recs)
    report.coverage['rule'] = (
        'TLC enumerates every value of Codec.tla\'s grammar (primitives, lists/tuples/dicts, Q trees with '
        'AND/OR/XOR, negation and nesting to depth 2, F, Value, combined expressions to depth 2, Deferrable) '
        'and evaluates the transcribed storage pipeline (serialize, json dump/load with ordered dicts, '
        'deserialize): %d values, %d of them placed into a real project signature (index condition / '
        'expressions / include, constraint check / deferrable / attrs, field attribute) and pushed through '
        'serialize()+json+deserialize() and through Version.save()/reload on SQLite, with a palette of '
        'strings (quotes, backslash, unicode, percent); %d of the signatures were built from real Django '
        'Index / CheckConstraint / UniqueConstraint objects through from_index / from_constraint (tuples as '
        'Django deconstructs them). %d signatures held a value next to its twin (Codec!Twin: bools for 0/1 '
        'and back - equal and equally hashed in Python, different as stored text) on two models, in both '
        'orders, and had to re-serialise to the text they were stored as. Non-trivial = structured values.'
        % (len(recs), len(chosen), via_objects, twins))
    report.assumptions += ['byte-level string escaping is exercised through the palette only']
    return report.finish()


def c13(tier, replay=None):
    import random
    from . import djsetup
    djsetup.setup()
    from .common import seed
    from .engines import codec
    from . import rig as R
    from .absmodel import DEFAULT_NAMES
    from django_evolution.evolve import Evolver
    report = Report('C13', tier)
    recs = _codec_records(report, tier)
    rng = random.Random(seed() * 40503 + 11)
    chosen = _codec_pick(recs, tier, rng, {'RenderTotal', 'RenderParsesBack'})
    rig = R.Rig(DEFAULT_NAMES)
    rig.prepare(_start_sig(3), nrows=0)
    nontrivial = set()
    level2 = 0
    for i, rec in enumerate(chosen):
        v = rec['val']
        pos = codec.position_of(v)
        strs = {'s': codec.PALETTE[i % len(codec.PALETTE)]}
        report.coverage['evaluations'] += 1
        try:
            value = codec.concretise(v, strs)
        except Exception as e:
            continue
        if codec.has_empty_q(value) and v.get('items'):
            continue        # an empty Q() inside a condition is not a supported value (FullResultSet)
        if v['t'] in ('q', 'comb', 'list', 'tuple', 'dict', 'enum', 'value'):
            nontrivial.add(json_key(v, 0))
        o = codec.eval_rendered(value)
        report.coverage['traces_validated_against_impl'] += 1
        predicted_err = 'RenderTotal' in rec['viol']
        predicted_prec = 'RenderParsesBack' in rec['viol']
        detail = {'value': repr(value)[:300], 'text': o.get('text'), 'observed': o,
                  'spec_render': rec['render'], 'spec_viol': rec['viol']}
        fpx = {'value_type': v['t']}
        if v['t'] == 'q':
            fpx['shape'] = ('xor' if '"XOR"' in json_key(v, 0) else '') + \
                ('single-nested-q' if any(len(q.get('items') or []) == 1 and (q['items'][0]['t'] == 'q')
                                           for q in _walk_q(v)) else '')
        if o.get('render_error'):
            report.fail(dict(fpx, **{'class': 'render-raises', 'predicted_by_spec': predicted_err}), detail)
        elif o.get('load_error'):
            report.fail(dict(fpx, **{'class': 'text-not-loadable', 'predicted_by_spec': False}), detail)
        elif o.get('compare_error'):
            report.fail(dict(fpx, **{'class': 'compare-raises'}), detail)
        elif not o['same']:
            report.fail(dict(fpx, **{'class': 'text-means-something-else',
                                     'predicted_by_spec': predicted_prec}), detail)
        else:
            if predicted_err or predicted_prec:
                report.spec_drift('Codec.tla predicts %s for %s, code renders %s'
                                  % (rec['viol'], repr(value)[:60], o.get('text')))
        # level 2: through a real task, get_evolution_content(), exec, same effect
        # Q trees that Python's own & | ^ operators would flatten cannot be written as
        # operator text without flattening: for those only the meaning is compared
        strict = o.get('strict_same', o.get('same'))
        # (an empty Q() cannot be compiled as an index condition / check by Django itself:
        # FullResultSet; it stays in the renderer-level comparison above only)
        if (not o.get('render_error') and o.get('same') and strict
                and not codec.has_empty_q(value)
                and pos in ('condition', 'expression', 'deferrable', 'field_attr')
                and (i % 7 == 0 or tier == 'thorough') and v['t'] != 'none'):
            muts = codec.mutation_for(value, pos)
            for m in muts or []:
                level2 += 1
                rig.restore_models()
                rig.fresh_copy('c13')
                R.reset_globals()
                o2 = codec.render_and_load([m], rig.app_module(), Evolver)
                d2 = {'mutation': o2.get('hints'), 'text': o2.get('text'),
                      'observed': {k: o2[k] for k in o2 if k not in ('loaded', 'tb', 'text')}}
                kind = type(m).__name__ + (':' + m.prop_name if hasattr(m, 'prop_name') else '')
                if o2.get('render_error') or o2.get('content_error'):
                    report.fail({'class': 'evolution-content-raises', 'mutation': kind,
                                 'value_type': v['t']}, d2)
                elif o2.get('load_error'):
                    report.fail({'class': 'evolution-text-not-loadable', 'mutation': kind,
                                 'error': o2['load_error'].split(':')[0]}, d2)
                else:
                    try:
                        rig.fresh_copy('c13b')
                        same_sig, same_sql, q1, q2 = codec.effects_equal(rig, [m], o2['loaded'])
                        if not same_sig or not same_sql:
                            report.fail({'class': 'loaded-evolution-differs', 'mutation': kind,
                                         'same_sig': same_sig, 'same_sql': same_sql},
                                        dict(d2, sql=[q1, q2]))
                    except Exception as e:
                        report.notes.append('effect comparison failed for %s: %s' % (kind, e))
                R.close_db()
        report.sample({'value': repr(value)[:100], 'text': o.get('text'), 'same': o.get('same')})
    _c13_placeholder(report, rig)
    R.close_db()
    nwritten = _c13_written_files(report, tier, nontrivial)
    nalpha = _c13_alphabet_mutations(report, tier, nontrivial)
    report.coverage['distinct_nontrivial'] = len(nontrivial)
    report.coverage['exhaustive'] = len(chosen) == len(recs)
    report.notes.append('%d mutations taken through get_evolution_content()+exec' % level2)
    report.coverage['rule'] = (
        'Part 4: %d mutation sequences of the SQL-level alphabets of Optimizer.tla (every mutation kind, initial values '
        'on nullable and non-null columns, relations, Meta properties) rendered by get_evolution_content(), exec()-ed '
        'and compared with their source by simulated signature and generated SQL.  ' % nalpha +
        'Part 3: %d model-set pairs of Hint.tla taken through the whole workflow on a real project: `evolve --hint '
        '--write NAME`, NAME listed in SEQUENCE, `evolve --execute`, then a fresh Evolver must find nothing left; hints '
        'that need a user value must refuse to run.  Parts 1-2: ' % nwritten +
        'TLC enumerates every value of Codec.tla\'s grammar and evaluates the transcribed renderer '
        '(error sinks for the Q case analysis, operator precedence of combined expressions): %d values, %d '
        'replayed: serialize_to_python() text evaluated by Python must give the value back; a share of them '
        'is carried by real mutations (ChangeMeta indexes/constraints, AddField) through a real task\'s '
        'get_evolution_content(), exec()-ed, and the loaded mutations compared by simulated signature and '
        'generated SQL. Non-trivial = structured values.' % (len(recs), len(chosen)))
    report.assumptions += ['the Python interpreter is the oracle for what rendered text means']
    return report.finish()


def _walk_q(v):
    out = []
    if v['t'] == 'q':
        out.append(v)
    for x in v.get('items') or []:
        out += _walk_q(x)
    return out


def _c13_written_files(report, tier, nontrivial):
    import random
    from concurrent.futures import ThreadPoolExecutor
    from .common import seed
    from .engines import sigpair
    from .tlc import run_tlc, require_ok, write_cfg
    recs = []
    for start in (1, 3, 4):
        cfg = write_cfg('MC_Hint_w_%d.cfg' % start, '''
SPECIFICATION Spec
CONSTANTS
  MaxEdits = 2
  StartId = %d
  EmitRecords = TRUE
CONSTRAINT Constraint
''' % start)
        res = require_ok(run_tlc('Hint', cfg, workers=8, timeout=3000), 'Hint.tla (written files)')
        report.add_tlc('Hint edits<=2 start=%d (pairs for --hint --write)' % start, res.stats())
        recs += res.records
    rng = random.Random(seed() * 271 + 13)
    strata = {}
    for r in recs:
        if r['viol'] or not r['hint']:
            continue           # C05's matter (open findings there), or nothing to hint
        kinds = tuple(sorted(set((m['k'], m.get('prop')) for m in r['hint'])))
        strata.setdefault(kinds, []).append(r)
    for k in strata:
        rng.shuffle(strata[k])
    limit = 40 if tier == 'quick' else 500
    chosen = []
    while len(chosen) < limit and any(strata.values()):
        for k in sorted(strata, key=repr):
            if strata[k] and len(chosen) < limit:
                chosen.append(strata[k].pop())
    with ThreadPoolExecutor(16) as ex:
        observations = list(ex.map(sigpair.hint_write_roundtrip, chosen))
    for rec, o in zip(chosen, observations):
        report.coverage['evaluations'] += 1
        hint = ['%s(%s%s)' % (m['k'], m.get('m'), ('.' + m['f']) if m.get('f') not in (None, 'None') else
                              (' ' + m['prop']) if m.get('prop') not in (None, 'None') else '')
                for m in rec['hint']]
        if o.get('setup_error'):
            report.notes.append('written-files: start models not installable: %s' % str(o['setup_error'])[:120])
            continue
        report.coverage['traces_validated_against_impl'] += 1
        nontrivial.add('written:' + json_key(rec['hint'], rec['start']))
        needs_user = any(m['k'] in ('Add', 'Chg') and m.get('init') not in (None, 'None') for m in rec['hint'])
        detail = {'hint': hint, 'needs_user_value': needs_user,
                  'observed': {k: o.get(k) for k in ('write_outcome', 'write_error', 'written', 'exec_outcome',
                                                     'exec_error', 'exec_error_type', 'after_required',
                                                     'after_diff_empty')},
                  'text': (o.get('text') or '')[-600:]}
        # the hint deletes a model and, separately, touches a model that still refers to it
        deleted = set(m['m'] for m in rec['hint'] if m['k'] == 'DelM')
        refers = any(m['k'] != 'DelM' and any(
            (fs.get('rel') in deleted) for fs in (rec['old'].get(m['m'], {}).get('fields') or {}).values())
            for m in rec['hint'])
        fp = {'part': 'written-file', 'needs_user_value': needs_user,
              'deletes_referenced_model': bool(deleted and refers)}
        if needs_user:
            if o.get('exec_outcome') == 'ok':
                report.fail(dict(fp, **{'class': 'placeholder-ran'}), detail)
            continue
        if not o.get('written'):
            report.fail(dict(fp, **{'class': 'hint-not-written'}), detail)
            continue
        if o.get('exec_outcome') != 'ok':
            et = o.get('exec_error_type') or ''
            msg = o.get('exec_error') or ''
            if 'Error applying evolution' in msg:
                report.notes.append('written evolution loaded, execution failed on the data: %s' % msg[:100])
            else:
                report.fail(dict(fp, **{'class': 'written-evolution-not-usable', 'error_type': et}), detail)
            continue
        if o.get('after_required') or o.get('after_diff_empty') is False:
            report.fail(dict(fp, **{'class': 'written-evolution-leaves-residual'}), detail)
    return len(chosen)


def _c13_alphabet_mutations(report, tier, nontrivial):
    """Part 4: every mutation of the SQL-level alphabets (Optimizer.tla: AddField / ChangeField incl.
    initial values on nullable and non-null columns, type changes, relations, DeleteField, RenameField,
    RenameModel, DeleteModel, ChangeMeta unique_together / index_together / indexes / constraints) and every
    two-mutation sequence of a sample, rendered through a real task's get_evolution_content(), exec()-ed,
    and compared with the mutations it was rendered from by simulated signature and generated SQL."""
    import random
    from .absmodel import ALT_NAMES, short, norm_mutation
    from .common import seed
    from .engines import codec, mutseq
    from . import rig as R
    from .tlc import run_tlc, require_ok
    from django_evolution.evolve import Evolver
    rng = random.Random(seed() * 313 + 13)
    spaces = sorted(set((s_, a_) for _l, s_, a_ in _schema_space('quick')))
    done = 0
    skipped_prepare = 0
    for start, alpha in spaces:
        maxlen = 1 if tier == 'quick' else 2
        res = require_ok(run_tlc('Schema', _schema_cfg(maxlen, start, alpha), workers=8, timeout=3000), 'Schema.tla')
        report.add_tlc('Schema len<=%d start=%d alphabet=%d (mutations to render)' % (maxlen, start, alpha), res.stats())
        # SQLMutation is never hinted and carries no value of C13's quantifier (its text names a tag)
        recs = [r for r in res.records if r['seq'] and r.get('ok', True)
                and not any(m['k'] == 'SQL' for m in r['seq'])]
        if tier != 'quick' and len(recs) > 400:
            ones = [r for r in recs if len(r['seq']) == 1]
            twos = [r for r in recs if len(r['seq']) == 2]
            rng.shuffle(twos)
            recs = ones + twos[:400 - len(ones)]
        start_sig = _start_sig(start)
        rig = mutseq._get_rig(start_sig, 0)
        names = ALT_NAMES[0]
        for r in recs:
            label = [short(norm_mutation(m)) for m in r['seq']]
            try:
                muts = mutseq._real_muts(r['seq'], names, start_sig)
            except Exception as e:
                report.notes.append('C13 part 4: cannot build %s: %s' % (label, e))
                continue
            report.coverage['evaluations'] += 1
            rig.restore_models()
            rig.fresh_copy('c13a')
            R.reset_globals()
            o2 = codec.render_and_load(muts, rig.app_module(), Evolver)
            kinds = sorted(set(type(m).__name__ for m in muts))
            d2 = {'part': 'alphabet', 'start': start, 'mutations': label, 'text': o2.get('text'),
                  'observed': {k: o2[k] for k in o2 if k not in ('loaded', 'tb', 'text')}}
            fp = {'part': 'alphabet', 'mutation': kinds}
            if o2.get('render_error') or o2.get('content_error'):
                # a sequence the task cannot even prepare (the simulation refuses it, or the optimised
                # run fails: C03's and C01's business) is not a hint anybody gets to see
                if o2.get('stage') == 'prepare' or 'SimulationFailure' in str(o2.get('content_error') or '') or \
                        'EvolutionBaselineMissing' in str(o2.get('content_error') or ''):
                    skipped_prepare += 1
                    R.close_db()
                    continue
                report.fail(dict(fp, **{'class': 'evolution-content-raises'}), d2)
            elif o2.get('load_error'):
                report.fail(dict(fp, **{'class': 'evolution-text-not-loadable',
                                        'error': o2['load_error'].split(':')[0]}), d2)
            else:
                report.coverage['traces_validated_against_impl'] += 1
                done += 1
                nontrivial.add('alphabet:%d:%s' % (start, label))
                try:
                    rig.fresh_copy('c13b')
                    R.reset_globals()
                    # fresh objects: the first run may have rewritten the definitions it was given
                    again = mutseq._real_muts(r['seq'], names, start_sig)
                    same_sig, same_sql, q1, q2 = codec.effects_equal(rig, again, o2['loaded'])
                    if not same_sig or not same_sql:
                        report.fail(dict(fp, **{'class': 'loaded-evolution-differs',
                                                'same_sig': same_sig, 'same_sql': same_sql}),
                                    dict(d2, sql=[q1[:12], q2[:12]]))
                except Exception as e:
                    report.notes.append('C13 part 4: effect comparison failed for %s: %s: %s'
                                        % (label, type(e).__name__, str(e)[:100]))
            R.close_db()
    report.notes.append('C13 part 4: %d sequences whose task could not be prepared were left to C03 / C01' % skipped_prepare)
    return done


def _c13_placeholder(report, rig):
    """Values that need user input are rendered as a placeholder that refuses to run."""
    from django.db import models
    from django_evolution.mutations import AddField
    from django_evolution.placeholders import NullFieldInitialCallback
    m = AddField('Ab', 'needs_value', models.IntegerField,
                 initial=NullFieldInitialCallback('vapp', 'Ab', 'needs_value'))
    text = str(m)
    report.coverage['evaluations'] += 1
    if '<<' not in text or 'USER VALUE REQUIRED' not in text:
        report.fail({'class': 'placeholder-not-explicit'}, {'text': text})
        return
    try:
        exec('from django.db import models\nfrom django_evolution.mutations import AddField\nx = %s' % text, {})
        report.fail({'class': 'placeholder-text-loads'}, {'text': text})
    except SyntaxError:
        pass
    except Exception as e:
        pass


REGISTRY.update({'C06': c06, 'C13': c13})


# ---------------------------------------------------------------------------
# C14: preview = execution; output independent of the hash seed (Preview.tla)

def c14(tier, replay=None):
    from concurrent.futures import ThreadPoolExecutor
    from .engines import preview as P
    from .tlc import run_tlc, require_ok, write_cfg
    from .common import machinery_failure
    report = Report('C14', tier)
    # the design: with sorted set iteration the lowering is a function; without it
    # the multi-entry sets are exactly where two lowerings can differ
    for sorted_iter, isolated, perbatch, lookup, norm, expect in (
            ('TRUE', 'TRUE', 'TRUE', 'TRUE', 'TRUE', True), ('FALSE', 'TRUE', 'TRUE', 'TRUE', 'TRUE', False),
            ('TRUE', 'FALSE', 'TRUE', 'TRUE', 'TRUE', False), ('TRUE', 'TRUE', 'FALSE', 'TRUE', 'TRUE', False),
            ('TRUE', 'TRUE', 'TRUE', 'FALSE', 'TRUE', False), ('TRUE', 'TRUE', 'TRUE', 'TRUE', 'FALSE', False)):
        cfg = write_cfg('Preview_%s_%s_%s_%s_%s.cfg' % (sorted_iter, isolated, perbatch, lookup, norm),
                        'SPECIFICATION Spec\nCONSTANTS\n  SortedIteration = %s\n  CloneIsolated = %s\n'
                        '  PreviewPerBatch = %s\n  OrderedLookup = %s\n  NormalizeWhenCapturing = %s\n'
                        'INVARIANT PreviewEqualsExecution\nINVARIANT LoweringDeterministic\n'
                        'INVARIANT NondeterminismOnlyFromSets\n' % (sorted_iter, isolated, perbatch, lookup, norm))
        res = run_tlc('Preview', cfg, workers=4, timeout=300, allow_violation=not expect)
        if expect:
            require_ok(res, 'Preview (as repaired)')
        elif not res.invariant_violated:
            machinery_failure('Preview.tla without sorted iteration / clone isolation / per-batch preview / '
                              'ordered index lookup / parameter conversion at preparation should fail')
        report.add_tlc('Preview SortedIteration=%s CloneIsolated=%s PreviewPerBatch=%s OrderedLookup=%s '
                       'NormalizeWhenCapturing=%s' % (sorted_iter, isolated, perbatch, lookup, norm), res.stats())
    seeds = ['0', '1', '2', '3'] if tier == 'quick' else ['0', '1', '2', '3', '4', '5', '7', '11']
    modes = ('fresh',) if tier == 'quick' else ('fresh', 'stepwise')
    scs = P.scenarios(tier)
    with ThreadPoolExecutor(16) as ex:
        all_obs = list(ex.map(lambda sc: P.run_scenario(sc, seeds, modes), scs))
        split_obs = list(ex.map(lambda i: P.run_split_scenario(i, seeds), range(len(P.SPLIT_CONFIGS))))
    scs = list(scs) + [('split:%d' % i,) for i in range(len(P.SPLIT_CONFIGS))]
    all_obs = all_obs + split_obs
    nontrivial = set()
    hint_ok = 0
    for sc, obs_list in zip(scs, all_obs):
        for obs in obs_list:
            report.coverage['evaluations'] += 1
            where = {'scenario': obs['scenario'], 'start_mode': obs['start_mode']}
            if obs['errors']:
                report.notes.append('scenario %s could not be set up: %r'
                                    % (obs['scenario'], obs['errors'][:1]))
                continue
            first = None
            for seed in seeds:
                so = obs['seeds'].get(seed)
                if so is None:
                    continue
                report.coverage['traces_validated_against_impl'] += 1
                detail = dict(where, seed=seed)
                if so['preview_outcome'] != 'ok' or so['exec_outcome'] != 'ok':
                    report.fail({'class': 'pending-upgrade-not-runnable',
                                 'preview': so['preview_outcome'], 'exec': so['exec_outcome']},
                                dict(detail, preview_error=so['preview_error'],
                                     exec_error=so['exec_error']))
                    continue
                if so['preview_wrote']:
                    report.fail({'class': 'preview-modified-database'},
                                dict(detail, statements=so['preview_wrote'][:5]))
                pv = [P.norm_stmt(s) for s in P.preview_statements(so['preview_stdout'])]
                exs = [P.norm_stmt(s) for s in so['executed']]
                if len(exs) >= 2:
                    nontrivial.add(obs['scenario'])
                if pv != exs:
                    same_set = sorted(pv) == sorted(exs)
                    k = next((i for i, (a, b) in enumerate(zip(pv, exs)) if a != b),
                             min(len(pv), len(exs)))
                    report.fail({'class': 'preview-differs-from-execution',
                                 'same_statements_other_order': same_set},
                                dict(detail, first_difference=k,
                                     preview=pv[k:k + 3], executed=exs[k:k + 3],
                                     n_preview=len(pv), n_executed=len(exs)))
                if first is None:
                    first = (seed, so)
                    continue
                s0, so0 = first
                for key, cls in (('preview_stdout', 'preview-differs-across-hash-seeds'),
                                 ('all_executed', 'execution-differs-across-hash-seeds'),
                                 ('hint_stdout', 'hint-differs-across-hash-seeds'),
                                 ('hint_sql_stdout', 'hint-sql-differs-across-hash-seeds')):
                    if key.startswith('hint') and (so0[key.replace('stdout', 'outcome')] != 'ok'
                                                   or so[key.replace('stdout', 'outcome')] != 'ok'):
                        continue
                    if so0[key] != so[key]:
                        a, b = so0[key], so[key]
                        if isinstance(a, str):
                            a, b = a.splitlines(), b.splitlines()
                        k = next((i for i, (x, y) in enumerate(zip(a, b)) if x != y),
                                 min(len(a), len(b)))
                        report.fail({'class': cls,
                                     'same_lines_other_order': sorted(a) == sorted(b)},
                                    dict(detail, other_seed=s0, first_difference=k,
                                         this=b[k:k + 3], other=a[k:k + 3]))
            if first and first[1].get('hint_outcome') == 'ok' and first[1]['hint_stdout'].strip():
                hint_ok += 1
            if first:
                report.sample({'scenario': obs['scenario'],
                               'preview_head': first[1]['preview_stdout'].splitlines()[:6],
                               'n_executed': len(first[1].get('executed') or [])}, limit=4)
    report.coverage['distinct_nontrivial'] = len(nontrivial)
    report.coverage['exhaustive'] = False
    report.coverage['rule'] = (
        'Preview.tla (two independent lowerings of one pending upgrade, set-valued steps) is checked '
        'by TLC with sorted iteration (holds) and without (must fail: the hazard is real). %d pending '
        'upgrades (set family: unique_together / index_together changes with 2-4 entries, the '
        'HasMultiEntrySet hazard, with and without field additions; chain family: two apps with model '
        'groups; rename-then-index family; duplicate-index family (db_index next to an index_together / Meta.indexes entry over the same column, dropped by column lookup: the `lookup` steps); split family: an app\'s pending evolutions spread over several '
        'batches around another app\'s migration) x start modes %s x PYTHONHASHSEED %s: `evolve --sql`, `evolve --execute`, '
        '`evolve --hint` and `evolve --hint --sql` each in a fresh interpreter on copies of the same '
        'database; statements executed inside applying/applied_evolution are rendered with the documented '
        'substitution rule and compared with the preview, and all four outputs are compared across '
        'seeds. Non-trivial = upgrade executing at least two statements; %d scenarios had a printable hint.'
        % (len(scs), list(modes), seeds, hint_ok))
    report.assumptions += [
        'the preview covers evolution SQL only (new-model creation and migrations are not previewed by '
        'the command); executed statements are therefore taken from applying_evolution windows',
        'hints that need a user-specified initial value make `evolve --hint` fail on SQLite; those '
        'scenarios contribute no hint comparison']
    return report.finish()


REGISTRY.update({'C14': c14})


# ---------------------------------------------------------------------------
# C15: purge / DeleteModel / DeleteApplication drop exactly what was named (Purge.tla)

def c15(tier, replay=None):
    import json as _json
    import random
    from concurrent.futures import ThreadPoolExecutor
    from .common import seed
    from .engines import purge as P
    from .tlc import run_tlc, require_ok, write_cfg
    report = Report('C15', tier)
    maxops = 4 if tier == 'quick' else 5
    body = '''
SPECIFICATION Spec
CONSTANTS
  MaxOps = %d
  EmitRecords = %s
  WithFaults = TRUE
  PurgeAtomic = %s
  PurgeRemovesAppSig = TRUE
CONSTRAINT Constraint
INVARIANT NothingLiveDropped
INVARIANT SigForgetsOnlyDroppedApps
PROPERTY NoPurgeKeepsEverything
PROPERTY PurgeDropsExactlyOwned
PROPERTY SigMatchesAfterPurge
PROPERTY FailedPurgeChangesNothing
'''
    # the design: a failing purge changes nothing
    dres = require_ok(run_tlc('Purge', write_cfg('MC_Purge_design.cfg', body % (maxops, 'FALSE', 'TRUE')),
                              workers=8, timeout=3000), 'Purge.tla (design)')
    report.add_tlc('Purge design (PurgeAtomic) MaxOps=%d' % maxops, dres.stats())
    # the code as it is: one transaction per purged app, signature saved at the end
    cfg = write_cfg('MC_Purge.cfg', body % (maxops, 'TRUE', 'FALSE'))
    res = require_ok(run_tlc('Purge', cfg, workers=8, timeout=3000), 'Purge.tla')
    report.add_tlc('Purge MaxOps=%d (all relation subsets)' % maxops, res.stats())
    recs = res.records
    expected = {}
    for r in recs:
        key = _json.dumps([sorted(r['feats']), r['hist']], sort_keys=True)
        expected[key] = {'tables': sorted(r['tables']),
                         'sig': {a: sorted(ms) for a, ms in (r['sig'] or {}).items()}
                         if isinstance(r['sig'], dict) else {}}
    # replay the longest histories (their prefixes are records too), stratified by feature set
    rng = random.Random(seed() * 613 + 15)
    full = [r for r in recs if len(r['hist']) == maxops
            and any(op['op'] != 'evolve' for op in r['hist'])]
    rng.shuffle(full)
    limit = 100 if tier == 'quick' else 900
    # stratify by the SHAPE of the history (operation kinds, purge flags, whether the operations
    # concern one app), so that rare shapes are replayed as well
    by_feat = {}
    for r in full:
        shape = tuple((op['op'], (op.get('purge'), bool(op.get('partial'))) if op['op'] == 'evolve' else None)
                      for op in r['hist'])
        one_app = len(set(op.get('app') for op in r['hist'] if op.get('app'))) == 1
        by_feat.setdefault((shape, one_app), []).append(r)
    chosen = []
    # a purge that has ONLY a signature entry to remove: every model of an app went first (dropall +
    # upgrade), the app itself afterwards; a fixed share of the budget, whatever the seed
    def _emptied(r):
        ops = r['hist']
        for i, op in enumerate(ops):
            if op['op'] == 'dropall':
                a = op['app']
                later = ops[i + 1:]
                ev = [j for j, o in enumerate(later) if o['op'] == 'evolve']
                un = [j for j, o in enumerate(later) if o['op'] == 'uninstall' and o.get('app') == a]
                if ev and un and ev[0] < un[0] and any(
                        o['op'] == 'evolve' and o.get('purge') for o in later[un[0] + 1:]):
                    return True
        return False
    emptied = [r for r in full if _emptied(r) and not any(op['op'] == 'tamper' for op in r['hist'])]
    chosen += emptied[:8 if tier == 'quick' else 40]
    taken = set(id(r) for r in chosen)
    for k in by_feat:
        by_feat[k] = [r for r in by_feat[k] if id(r) not in taken]
    # a third of the budget for histories with a failing purge (fault), the rest for the others
    def _faulty(shape_key):
        return any(o == 'tamper' for o, _ in shape_key[0])
    for want_fault, quota in ((True, limit // 3), (False, limit)):
        keys = [k for k in sorted(by_feat, key=repr) if _faulty(k) == want_fault]
        while len(chosen) < quota and any(by_feat[k] for k in keys):
            for k in keys:
                if by_feat[k] and len(chosen) < quota:
                    chosen.append(by_feat[k].pop())
    with ThreadPoolExecutor(16) as ex:
        observations = list(ex.map(lambda r: P.replay(r, expected), chosen))
    nontrivial = set()
    faulted = 0
    for rec, obs in zip(chosen, observations):
        report.coverage['evaluations'] += 1
        label = ' '.join('%s(%s)' % (op['op'], op.get('app') or op.get('table') or op.get('purge'))
                         + (('.' + op['model']) if op.get('model') else '') for op in rec['hist'])
        where = {'relations': sorted(rec['feats']), 'history': label}
        if obs['errors']:
            report.notes.append('setup failed: %r' % (obs['errors'][:1],))
            continue
        for st in obs['steps']:
            report.coverage['traces_validated_against_impl'] += 1
            exp = st['expected']
            detail = dict(where, step=st['index'], driver=st['driver'], purge=st['purge'],
                          outcome=st['outcome'], error=st['error'], statements=st['statements'][:8],
                          tables=st['tables'], signature=st['sig'], expected=exp)
            refused = bool(rec['hist'][st['index']].get('refused'))
            must_fail = bool(rec['hist'][st['index']].get('failed'))
            if must_fail:
                faulted += 1
                if st['outcome'] == 'ok':
                    report.spec_drift('Purge.tla: the purge has to fail on the table dropped by hand, it ran: %s' % label)
                # the property's own oracle for a purge that failed: nothing changed
                gone = sorted(set(st['tables_before']) - set(st['tables']))
                if gone:
                    partial = rec['hist'][st['index']].get('partial') or []
                    report.fail({'class': 'failed-purge-dropped-tables',
                                 'spec_hazard': 'earlier-stale-app-purged-in-its-own-transaction' if partial else None},
                                dict(detail, dropped_although_the_purge_failed=gone, apps_purged_before_the_failure=partial))
            elif st['outcome'] != 'ok':
                report.fail({'class': 'upgrade-failed', 'purge': st['purge'], 'driver': st['driver'],
                             'spec_hazard': 'referenced-model-deleted-before-referrer' if refused else None,
                             'error': (st['error'] or '').split('.')[0][:60]}, detail)
                if not refused:
                    break
            elif refused:
                report.spec_drift('Purge.tla predicts the upgrade is refused (reference order), it ran: %s' % label)
            if exp is None:
                report.notes.append('no expectation for a prefix of %s' % label)
                continue
            if any(op['op'] != 'evolve' for op in rec['hist'][:st['index']]):
                nontrivial.add((tuple(sorted(rec['feats'])), label, st['index']))
            extra = sorted(set(st['tables']) - set(exp['tables']))
            missing = sorted(set(exp['tables']) - set(st['tables']))
            if missing:
                report.fail({'class': 'dropped-a-table-it-does-not-own', 'purge': st['purge']},
                            dict(detail, wrongly_dropped=missing))
            if extra:
                report.fail({'class': 'owned-table-left-behind', 'purge': st['purge']},
                            dict(detail, left_behind=extra))
            if st['changed_survivors']:
                report.fail({'class': 'surviving-table-changed', 'purge': st['purge']},
                            dict(detail, changed=st['changed_survivors']))
            if st['sig'] != exp['sig']:
                report.fail({'class': 'signature-entries-differ', 'purge': st['purge'], 'after_failed_purge': must_fail,
                             'stale_app_kept': sorted(set(st['sig']) - set(exp['sig']))},
                            detail)
        report.sample({'relations': sorted(rec['feats']), 'history': label,
                       'final_tables': obs['steps'][-1]['tables'] if obs['steps'] else None})
    report.coverage['distinct_nontrivial'] = len(nontrivial)
    report.coverage['exhaustive'] = len(chosen) == len(full)
    report.coverage['rule'] = (
        'Purge.tla: three apps with prefix-related table names (p_a, p_a_x, p_a_more, pq_e, r_c, r_f) and every '
        'subset of four optional relations (own M2M, M2M into another app, FK and M2M from another app); TLC '
        'explores every sequence of <= %d operations (uninstall an app, drop a model with a DeleteModel evolution, '
        'upgrade with / without --purge) and checks NothingLiveDropped, NoPurgeKeepsEverything, '
        'PurgeDropsExactlyOwned, SigMatchesAfterPurge. %d of %d full-length sequences were replayed on a real '
        'project with rows in every table (incl. many-to-many tables), alternating `evolve --execute [--purge]` '
        'and the Evolver API; after every upgrade the table set, the schema and rows of surviving tables and the '
        'stored signature (app -> models) are compared with the specification. Non-trivial = an upgrade that '
        'follows at least one uninstall / model drop. Fault: one table of a stale app is dropped by hand '
        '(Tamper), the purge then fails on its DROP TABLE and must leave tables and stored signature as they '
        'were (FailedPurgeChangesNothing, SigForgetsOnlyDroppedApps), so that after Repair the purge can be '
        'run again: %d such failing purges replayed.' % (maxops, len(chosen), len(full), faulted))
    report.assumptions += ['Django refuses relations into an uninstalled app, so uninstalling p carries an '
                           'evolution of r deleting F.a / F.many in the same upgrade']
    return report.finish()


REGISTRY.update({'C15': c15})


# ---------------------------------------------------------------------------
# C16: several databases and a router (Route.tla)

def c16(tier, replay=None):
    import random
    from concurrent.futures import ThreadPoolExecutor
    from .common import seed
    from .engines import route as RT
    from .tlc import run_tlc, require_ok, write_cfg
    report = Report('C16', tier)
    maxlen = 2 if tier == 'quick' else 3
    cfg = write_cfg('MC_Route.cfg', '''
SPECIFICATION Spec
CONSTANTS
  MaxLen = %d
  EmitRecords = TRUE
CONSTRAINT Constraint
INVARIANT OnlyRoutedModels
INVARIANT Converged
PROPERTY OtherDatabaseUntouched
''' % maxlen)
    res = require_ok(run_tlc('Route', cfg, workers=8, timeout=3000), 'Route.tla')
    report.add_tlc('Route MaxLen=%d (all 27 routings x 2 orders)' % maxlen, res.stats())
    recs = res.records
    rng = random.Random(seed() * 733 + 16)
    # stratify by (number of models on `other`, mutation kinds)
    strata = {}
    for r in recs:
        n_other = sum(1 for d in r['route'].values() if d == 'other')
        n_both = sum(1 for d in r['route'].values() if d == 'both')
        kinds = tuple(sorted(set(mu['k'] for mu in r['evo'])))
        on_both = any(mu['k'] == 'delapp' or r['route'][mu['m'][0]] == 'both' for mu in r['evo'])
        strata.setdefault((n_other, n_both, on_both, kinds, len(r['evo']), bool(r.get('catchAll')), bool(r.get('oneProc'))), []).append(r)
    for k in strata:
        rng.shuffle(strata[k])
    limit = 120 if tier == 'quick' else 1500
    chosen = []
    # a quarter of the budget for what only shows when ONE process evolves both databases and the
    # models really are split (shared mutation objects: DeleteApplication, RenameModel ...); the
    # strata are visited in an order the seed decides, so that none is starved by its sort position
    keys = sorted(strata)
    rng.shuffle(keys)
    hot = [k for k in keys if k[6] and (k[0] >= 1 or k[1] >= 1) and k[0] + k[1] < 3 + k[1]]
    for group, quota in ((hot, limit // 4), (keys, limit)):
        while len(chosen) < quota and any(strata[k] for k in group):
            for k in group:
                if strata[k] and len(chosen) < quota:
                    chosen.append(strata[k].pop())
    with ThreadPoolExecutor(16) as ex:
        observations = list(ex.map(lambda ir: RT.replay(ir[1], ir[0]), enumerate(chosen)))
    nontrivial = set()
    for rec, obs in zip(chosen, observations):
        report.coverage['evaluations'] += 1
        evo = ['%s(%s)' % (mu['k'], mu['m']) for mu in rec['evo']]
        where = {'route': rec['route'], 'evolution': evo, 'order': rec['order'], 'catch_all_router': bool(rec.get('catchAll'))}
        if obs['errors']:
            report.notes.append('setup failed: %r' % (obs['errors'][:1],))
            continue
        split = len(set(rec['route'].values())) >= 2
        both = len(set(rec['route'].get(m['m'][0], 'both') for m in rec['evo'])) >= 2 or \
            any(rec['route'].get(m['m'][0], 'both') == 'both' for m in rec['evo'])
        if split and both:
            nontrivial.add(json_key(rec['evo'], json_key(rec['route'], rec['order'])))
        for st in obs['steps']:
            report.coverage['traces_validated_against_impl'] += 1
            d = st['db']
            exp = {n.lower(): {'fields': sorted(v['fields']), 'maxlen': v['maxlen']}
                   for n, v in (rec['expected'].get(d) or {}).items()} \
                if isinstance(rec['expected'].get(d), dict) else {}
            detail = dict(where, step=st, expected=exp)
            fp = {'mutations_for_both_databases': both,
                  'kinds': sorted(set(mu['k'] for mu in rec['evo']))}
            if st['outcome'] != 'ok':
                report.fail(dict(fp, **{'class': 'evolving-one-database-failed',
                                        'error': (st['error'] or '').split(':')[0][:50]}), detail)
                continue
            if st['evolved'] != exp:
                wrong = sorted(set(st['evolved']) - set(exp))
                report.fail(dict(fp, **{'class': 'schema-not-what-the-router-allows',
                                        'foreign_tables': bool(wrong)}), detail)
            if st['signature'] != sorted(rec['expected'].get(d) or {}):
                report.fail(dict(fp, **{'class': 'signature-not-what-the-router-allows'}), detail)
            if st['other_changed']:
                report.fail(dict(fp, **{'class': 'other-database-modified'}), detail)
            here = [m_ for m_, d_ in rec['route'].items() if d_ in (d, 'both')]
            mine = [mu for mu in rec['evo']
                    if (mu['k'] == 'delapp' and here) or (mu['k'] != 'delapp' and rec['route'][mu['m'][0]] in (d, 'both'))]
            if mine and ('shop', 'e1') not in [tuple(x)[:2] for x in (st['recorded'] or [])]:
                # what was executed on d is on record on d (whatever the router says about
                # Django Evolution's own models)
                report.fail(dict(fp, **{'class': 'executed-evolution-not-recorded-on-its-database',
                                        'catch_all_router': bool(rec.get('catchAll'))}), detail)
        report.sample({'route': rec['route'], 'evolution': evo, 'order': rec['order'],
                       'outcomes': [s['outcome'] for s in obs['steps']]})
    report.coverage['distinct_nontrivial'] = len(nontrivial)
    report.coverage['exhaustive'] = len(chosen) == len(recs)
    report.coverage['rule'] = (
        'Route.tla: one app with three models, every assignment of each model to one of two databases or to both (27) x a router that answers None / "default" for models it has no rule for (Django Evolution\'s own among them) x either order of '
        'evolving them x every valid evolution of <= %d mutations (AddField, ChangeField, RenameModel to a new table, '
        'DeleteModel, incl. mutations on the renamed model); TLC checks OnlyRoutedModels, OtherDatabaseUntouched, '
        'Converged. %d of %d scenarios were replayed on a real two-database project with a router, each database '
        'evolved in turn through `evolve --database X --execute` / Evolver(database_name=X); after each run the '
        'evolved database must hold exactly the routed models at their target state, its stored signature list '
        'exactly those models, the evolution be recorded there, and the other database (tables, rows, bookkeeping) be '
        'unchanged. Non-trivial = models on both databases and mutations for both.' % (maxlen, len(chosen), len(recs)))
    return report.finish()


REGISTRY.update({'C16': c16})


# ---------------------------------------------------------------------------
# C10: handover to Django migrations (Handover.tla)

def c10(tier, replay=None):
    import random
    from concurrent.futures import ThreadPoolExecutor
    from .common import seed
    from .engines import handover as H
    from .tlc import run_tlc, require_ok, write_cfg
    report = Report('C10', tier)
    maxk, M = 2, 3
    cfg = write_cfg('MC_Handover.cfg', '''
SPECIFICATION Spec
CONSTANTS
  MaxK = %d
  M = %d
  EmitRecords = TRUE
CONSTRAINT Constraint
INVARIANT RecordedExactlyOnce
INVARIANT MarkedNotExecuted
INVARIANT RemainingExecutedInOrder
INVARIANT PendingEvolutionsFirst
INVARIANT SignatureListsRecorded
INVARIANT SchemaComplete
INVARIANT NoEvolutionSqlOnceOnMigrations
INVARIANT RerunIsNoop
INVARIANT SoftOnlyLegacyInitial
''' % (maxk, M))
    res = require_ok(run_tlc('Handover', cfg, workers=4, timeout=3000), 'Handover.tla')
    report.add_tlc('Handover MaxK=%d M=%d (all start states, prefixes, companions)' % (maxk, M), res.stats())
    by_cfg = {}
    for r in res.records:
        key = json_key([r['K'], r['S'], r['start'], sorted(r['companions']), bool(r.get('failFirst')),
                        bool(r.get('premarked')), bool(r.get('moveSql')), bool(r.get('declares')),
                        bool(r.get('newModel'))], 0)
        by_cfg.setdefault(key, {})[r['run']] = r
    items = sorted(by_cfg.items())
    rng = random.Random(seed() * 919 + 10)
    rng.shuffle(items)
    limit = 80 if tier == 'quick' else len(items)
    # keep every (start kind, S) combination represented
    items.sort(key=lambda kv: (not kv[1][1].get('declares'), not kv[1][1].get('newModel'), not kv[1][1].get('failFirst'),
                               not kv[1][1].get('premarked'), not kv[1][1].get('moveSql'),
                               kv[1][1]['start'][0], kv[1][1]['S']))
    chosen = items[::max(1, len(items) // limit)][:limit] if len(items) > limit else items

    def one(ikv):
        i, (key, runs) = ikv
        r1 = runs[1]
        return H.replay({'K': r1['K'], 'S': r1['S'], 'start': r1['start'],
                         'companions': r1['companions'], 'failFirst': bool(r1.get('failFirst')),
                         'premarked': bool(r1.get('premarked')), 'moveSql': bool(r1.get('moveSql')),
                         'declares': bool(r1.get('declares')), 'newModel': bool(r1.get('newModel'))}, idx=i, M=M)
    with ThreadPoolExecutor(16) as ex:
        observations = list(ex.map(one, enumerate(chosen)))
    nontrivial = set()

    def label_of(l):
        return 'e%d' % l[1] if l[0] == 'e' else l[0]
    for (key, runs), obs in zip(chosen, observations):
        report.coverage['evaluations'] += 1
        r1 = runs[1]
        where = {'K': r1['K'], 'mark_applied_prefix': r1['S'], 'start': r1['start'],
                 'companions': sorted(r1['companions']), 'driver': obs.get('driver'),
                 'failed_first_attempt': bool(r1.get('failFirst')), 'premarked': bool(r1.get('premarked')),
                 'move_evolution_has_sql': bool(r1.get('moveSql')), 'declares_after_migration': bool(r1.get('declares'))}
        if obs['errors']:
            report.notes.append('start state could not be built: %r %r' % (where, obs['errors'][:1]))
            continue
        if r1['start'][0] == 'evo' or r1['companions']:
            nontrivial.add(key)
        fa = obs.get('failed_attempt')
        if fa is not None:
            if not fa['fault_fired']:
                report.notes.append('C10: planned fault did not fire for %r' % (where,))
            elif fa['outcome'] == 'ok' or fa['changed']:
                report.fail({'class': 'failed-handover-attempt-left-changes',
                             'what': sorted(fa['changed'])}, dict(where, failed_attempt=fa))
        for runno in (1, 2):
            exp = runs.get(runno)
            o = obs['run%d' % runno]
            report.coverage['traces_validated_against_impl'] += 1
            detail = dict(where, run=runno, observed=o,
                          expected={k: exp[k] for k in ('evoExecuted', 'migExecuted', 'migRecorded',
                                                        'columns', 'sigApplied')} if exp else None)
            fp = {'run': runno, 'start': r1['start'][0], 'driver': obs.get('driver') if runno == 1 else None}
            if o['outcome'] != 'ok':
                report.fail(dict(fp, **{'class': 'upgrade-failed'}), detail)
                break
            if exp is None:
                continue
            # the move itself carries no SQL: it is announced only along with other evolutions
            # a move without SQL of its own is announced only along with other evolutions
            keep_move = bool(r1.get('moveSql'))
            exp_evo = [label_of(l) for l in exp['evoExecuted'] if l[0] != 'e_move' or keep_move]
            o_evo = [l for l in o['evo_executed'] if l != 'e_move' or keep_move]
            exp_soft = [H.mig_name(n) for n in (exp.get('soft') or [])]
            # announced = taken over as they are (soft) + run
            exp_mig = exp_soft + [H.mig_name(n) for n in exp['migExecuted']]
            if exp_soft and any('CREATE TABLE "shop_item"' in st for st in o['statements']):
                report.fail(dict(fp, **{'class': 'existing-table-created-again'}), detail)
            exp_rec = sorted(label_of(l) for l in exp['evoRecorded'])
            if o['evo_recorded'] != exp_rec:
                report.fail(dict(fp, **{'class': 'evolutions-recorded-differ',
                                        'duplicates': len(o['evo_recorded']) != len(set(o['evo_recorded']))}),
                            dict(detail, expected_recorded=exp_rec))
            if o_evo != exp_evo:
                report.fail(dict(fp, **{'class': 'evolutions-executed-differ',
                                        'evolution_sql_after_handover': bool(o['evo_executed']) and not exp_evo}),
                            detail)
            if o['mig_executed'] != exp_mig:
                marked = [H.mig_name(n) for n in range(1, r1['S'] + 1)]
                report.fail(dict(fp, **{'class': 'migrations-executed-differ',
                                        'marked_applied_was_executed': bool(set(o['mig_executed']) & set(marked))
                                        and r1['start'][0] == 'evo',
                                        'order_differs': sorted(o['mig_executed']) == sorted(exp_mig)}), detail)
            rows = {H.mig_name(n + 1): c for n, c in enumerate(exp['migRecorded'])} \
                if isinstance(exp['migRecorded'], list) else \
                {H.mig_name(int(n)): c for n, c in exp['migRecorded'].items()}
            rows = {k: v for k, v in rows.items() if v}
            if o['mig_rows'] != rows:
                report.fail(dict(fp, **{'class': 'migration-records-differ',
                                        'duplicates': any(v > 1 for v in o['mig_rows'].values())}), detail)
            if o['sig_method'] != 'migrations' or o['sig_applied'] != sorted(o['mig_rows']):
                report.fail(dict(fp, **{'class': 'signature-does-not-list-recorded-migrations'}), detail)
            exp_cols = sorted(['id'] + [('%s%d' % (c[0], c[1])) if c[0] not in ('name', 'x') else c[0]
                                        for c in exp['columns']])
            if o['columns'] != exp_cols:
                report.fail(dict(fp, **{'class': 'schema-differs'}), dict(detail, expected_columns=exp_cols))
            if r1.get('newModel') and not o.get('tag_table'):
                # the model that came with the handover version has no table
                report.fail(dict(fp, **{'class': 'new-model-of-the-handover-version-has-no-table'}), detail)
            ce = exp.get('companion') or {}
            if ce.get('migBeforeMove'):
                # the evolution that hands the app over declares AFTER_MIGRATIONS on the companion's
                # pending migration: that migration's statement comes first
                if o.get('pos_mig_m1') is None or o.get('pos_shop_x') is None or o['pos_mig_m1'] > o['pos_shop_x']:
                    report.fail(dict(fp, **{'class': 'declared-after-migration-not-respected'}),
                                dict(detail, pos_mig_m1=o.get('pos_mig_m1'), pos_shop_x=o.get('pos_shop_x')))
            for a, co in (o.get('companion') or {}).items():
                if a == 'blog':
                    want = (list(ce.get('blogExecuted') or []), sorted(ce.get('blogRecorded') or []))
                    have = (co['evo_executed'], co['evo_recorded'])
                else:
                    want = ([H.mig_name(n) for n in (ce.get('migExecuted') or [])],
                            {H.mig_name(i + 1): c for i, c in enumerate(ce.get('migRecorded') or [])})
                    have = (co['mig_executed'], co['mig_rows'])
                if want != have:
                    report.fail(dict(fp, **{'class': 'companion-app-treated-differently', 'app': a}),
                                dict(detail, companion=a, want=want, have=have))
            if runno == 2 and (o['statements'] or o['bookkeeping_writes'] or o['signals']
                               or o.get('required') or o.get('diff_empty') is False):
                report.fail(dict(fp, **{'class': 'further-upgrade-not-a-noop'}), detail)
        report.sample({'config': where, 'run1': {k: obs['run1'][k] for k in ('evo_executed', 'mig_executed',
                                                                              'mig_rows', 'sig_applied')}
                       if 'run1' in obs else None})
    report.coverage['distinct_nontrivial'] = len(nontrivial)
    report.coverage['exhaustive'] = len(chosen) == len(items)
    report.coverage['rule'] = (
        'Handover.tla: shop has K<=%d evolutions, an optional evolution covering the migrations named in '
        'mark_applied, then MoveToDjangoMigrations(mark_applied = first S of M=%d migrations); Init ranges over K, S, '
        'the start state (fresh database, database after any number of the evolutions, database already handed over '
        'when the chain was shorter) and the companion apps (evolution-only app with a pending evolution, '
        'migration-only app with a pending migration); TLC checks RecordedExactlyOnce, MarkedNotExecuted, '
        'RemainingExecutedInOrder, PendingEvolutionsFirst, SignatureListsRecorded, SchemaComplete, '
        'NoEvolutionSqlOnceOnMigrations, RerunIsNoop. %d of %d configurations were built as real projects (evolution '
        'modules and migration files on disk), upgraded through `evolve --execute`, the Evolver API or the replaced '
        '`migrate` command, then upgraded again; applying_evolution / applying_migration signals, django_migrations '
        'rows (with multiplicity), django_evolution rows, the table columns and the stored app signature are '
        'compared with the specification for both runs.' % (maxk, M, len(chosen), len(items)))
    return report.finish()


REGISTRY.update({'C10': c10})


def _c08_unchanged_signature(report, tier, nontrivial):
    """Runs that apply evolutions although the stored signature stays what it was: an evolution
    made of SQLMutation statements only (alone, next to a model-changing evolution of the same app,
    next to one of another app), through every driver.  Every pending label is recorded exactly
    once, its SQL runs exactly once, the rows belong to a version saved by THAT run, and a
    further run does nothing."""
    from concurrent.futures import ThreadPoolExecutor
    from .djproj import Project
    base = ['from django.db import models', '', '',
            'class Item(models.Model):', '    name = models.CharField(max_length=20)']
    sql_evo = {'label': 'sql_only', 'mutations_src': [
        "SQLMutation('name_idx', ['CREATE INDEX \"%s_item_name_x\" ON \"%s_item\" (\"name\");'], "
        "update_func=lambda simulation: None)"]}
    add_evo = {'label': 'add_qty', 'mutations_src': ["AddField('Item', 'qty', models.IntegerField, null=True)"]}
    scenarios = []
    for drv in ('cmd', 'api', 'migrate'):
        for shape in ('sql-alone', 'sql-then-model', 'model-then-sql', 'sql-and-other-app'):
            scenarios.append((drv, shape))
    if tier == 'quick':
        scenarios = scenarios[::2] + [('cmd', 'sql-and-other-app')]

    def run_one(sc):
        drv, shape = sc
        apps = ['shop', 'blog'] if shape == 'sql-and-other-app' else ['shop']
        p = Project(apps, tag='c08u')
        out = {'scenario': sc, 'steps': []}
        try:
            for a in apps:
                p.deploy(a, '\n'.join(base) + '\n', [])
            r0 = p.run({'action': 'evolve_api', 'app_prefixes': apps})
            if r0['outcome'] != 'ok':
                out['setup_error'] = (r0.get('error') or {}).get('msg')
                return out
            p.run({'action': 'insert_rows', 'app_prefixes': apps})

            def sql(a):
                e = dict(sql_evo)
                e['mutations_src'] = [e['mutations_src'][0] % (a, a)]
                return e
            plans = {'sql-alone': [([sql('shop')], False)],
                     'sql-then-model': [([sql('shop')], False), ([sql('shop'), add_evo], True)],
                     'model-then-sql': [([add_evo], True), ([add_evo, sql('shop')], True)],
                     'sql-and-other-app': [([sql('shop')], False)]}[shape]
            for evos, with_qty in plans:
                src = '\n'.join(base + (['    qty = models.IntegerField(null=True)'] if with_qty else [])) + '\n'
                p.deploy('shop', src, evos)
                if shape == 'sql-and-other-app':
                    p.deploy('blog', '\n'.join(base + ['    qty = models.IntegerField(null=True)']) + '\n', [add_evo])
                before = p.run({'action': 'snapshot', 'app_prefixes': apps})['post']['default']['book']
                for attempt in (1, 2):
                    if drv == 'api':
                        res = p.run({'action': 'evolve_api', 'app_prefixes': apps, 'only_if_required': True})
                    elif drv == 'migrate':
                        res = p.run({'action': 'command', 'name': 'migrate', 'app_prefixes': apps,
                                     'options': {'interactive': False, 'verbosity': 0}})
                    else:
                        res = p.run({'action': 'command', 'name': 'evolve', 'app_prefixes': apps,
                                     'options': {'execute': True, 'interactive': False, 'verbosity': 0}})
                    book = res['post']['default']['book']
                    out['steps'].append({
                        'labels_deployed': [e['label'] for e in evos], 'attempt': attempt,
                        'outcome': res['outcome'], 'error': (res.get('error') or {}).get('msg'),
                        'rows_before': before['evolutions'], 'rows_after': book['evolutions'],
                        'versions_before': len(before['versions']), 'versions_after': len(book['versions']),
                        'statements': [e['sql'][:90] for e in res['events'] if e['ev'] == 'stmt'],
                        'announced': [(e.get('app'), tuple(e.get('labels') or [])) for e in res['events']
                                      if e['ev'] == 'applying_evolution']})
                    before = book
            return out
        finally:
            p.destroy()
    with ThreadPoolExecutor(12) as ex:
        results = list(ex.map(run_one, scenarios))
    for out in results:
        drv, shape = out['scenario']
        report.coverage['evaluations'] += 1
        if out.get('setup_error'):
            report.notes.append('C08 unchanged-signature family: setup failed: %s' % out['setup_error'])
            continue
        nontrivial.add('unchanged-signature:%s:%s' % (drv, shape))
        for st in out['steps']:
            report.coverage['traces_validated_against_impl'] += 1
            detail = dict(st, driver=drv, shape=shape)
            fp = {'family': 'unchanged-signature', 'driver': drv, 'shape': shape, 'attempt': st['attempt']}
            if st['outcome'] != 'ok':
                report.fail(dict(fp, **{'class': 'upgrade-failed'}), detail)
                break
            had = [tuple(r[:2]) for r in st['rows_before']]
            have = [tuple(r[:2]) for r in st['rows_after']]
            new = [r for r in st['rows_after'] if tuple(r[:2]) not in had]
            if len(have) != len(set(have)):
                report.fail(dict(fp, **{'class': 'label-recorded-twice'}), detail)
            if st['attempt'] == 1:
                want = set(('shop', l) for l in st['labels_deployed'])
                if shape == 'sql-and-other-app':
                    want.add(('blog', 'add_qty'))
                if not want <= set(have):
                    report.fail(dict(fp, **{'class': 'pending-evolution-not-recorded'}),
                                dict(detail, missing=sorted(want - set(have))))
                if new and st['versions_after'] <= st['versions_before']:
                    report.fail(dict(fp, **{'class': 'rows-attached-to-an-earlier-runs-version'}), detail)
                if new and any(r[2] <= st['versions_before'] for r in new):
                    report.fail(dict(fp, **{'class': 'rows-attached-to-an-earlier-runs-version'}),
                                dict(detail, new_rows=new))
                n_idx = sum(1 for x in st['statements'] if 'item_name_x' in x)
                if ('shop', 'sql_only') in [tuple(r[:2]) for r in new] and n_idx != 1:
                    report.fail(dict(fp, **{'class': 'recorded-evolution-sql-not-run-exactly-once', 'times': n_idx}), detail)
            else:
                if new or any(x for x in st['statements']):
                    report.fail(dict(fp, **{'class': 'further-run-not-a-noop'}), detail)
    return len(results)


def _c08_hinted_with_fresh_app(report, tier, nontrivial):
    """A HINTED, executed upgrade (`evolve --hint --execute` / Evolver(hinted=True)) of one app in the very
    run that installs another app for the first time: the fresh app's whole evolution sequence is
    recorded (none of it executed), and a later normal upgrade executes and records only what is new."""
    from concurrent.futures import ThreadPoolExecutor
    from .djproj import Project
    base = ['from django.db import models', '', '',
            'class Item(models.Model):', '    name = models.CharField(max_length=20)']

    def evo(i):
        return {'label': 'c%d' % i, 'mutations_src': ["AddField('Item', 'f%d', models.IntegerField, null=True)" % i]}

    def src(n, extra=()):
        return '\n'.join(base + ['    f%d = models.IntegerField(null=True)' % i for i in range(1, n + 1)] +
                         ['    %s = models.IntegerField(null=True)' % x for x in extra]) + '\n'

    def run_one(drv):
        apps = ['shop', 'blog']
        p = Project(apps, tag='c08h')
        out = {'driver': drv, 'steps': []}
        try:
            p.set_installed(['shop'])
            p.deploy('shop', src(0), [])
            r0 = p.run({'action': 'evolve_api', 'app_prefixes': apps})
            if r0['outcome'] != 'ok':
                out['setup_error'] = (r0.get('error') or {}).get('msg')
                return out
            # shop's models change without an evolution (a hint is needed); blog arrives with a history
            p.set_installed(apps)
            p.deploy('shop', src(0, extra=['qty']), [])
            p.deploy('blog', src(2), [evo(1), evo(2)])
            if drv == 'api':
                res = p.run({'action': 'evolve_api', 'hinted': True, 'app_prefixes': apps})
            else:
                res = p.run({'action': 'command', 'name': 'evolve', 'app_prefixes': apps,
                             'options': {'hint': True, 'execute': True, 'interactive': False, 'verbosity': 0}})
            out['steps'].append({'what': 'hinted', 'outcome': res['outcome'], 'error': (res.get('error') or {}).get('msg'),
                                 'rows': res['post']['default']['book']['evolutions'],
                                 'announced': [(e.get('app'), tuple(e.get('labels') or [])) for e in res['events']
                                               if e['ev'] == 'applying_evolution']})
            # a later, normal upgrade: blog gains c3
            p.deploy('blog', src(3), [evo(1), evo(2), evo(3)])
            res = p.run({'action': 'command', 'name': 'evolve', 'app_prefixes': apps,
                         'options': {'execute': True, 'interactive': False, 'verbosity': 0}})
            out['steps'].append({'what': 'normal', 'outcome': res['outcome'], 'error': (res.get('error') or {}).get('msg'),
                                 'rows': res['post']['default']['book']['evolutions'],
                                 'announced': [(e.get('app'), tuple(e.get('labels') or [])) for e in res['events']
                                               if e['ev'] == 'applying_evolution']})
            return out
        finally:
            p.destroy()
    with ThreadPoolExecutor(4) as ex:
        results = list(ex.map(run_one, ('cmd', 'api')))
    for out in results:
        report.coverage['evaluations'] += 1
        if out.get('setup_error'):
            report.notes.append('C08 hinted family: setup failed: %s' % out['setup_error'])
            continue
        report.coverage['traces_validated_against_impl'] += 1
        nontrivial.add('hinted-fresh:%s' % out['driver'])
        fp = {'family': 'hinted-with-fresh-app', 'driver': out['driver']}
        h = out['steps'][0]
        if h['outcome'] != 'ok':
            report.notes.append('C08 hinted family: the hinted upgrade did not run (%s): %s' % (out['driver'], h['error']))
            continue
        blog = [r[1] for r in h['rows'] if r[0] == 'blog']
        if sorted(blog) != ['c1', 'c2']:
            report.fail(dict(fp, **{'class': 'fresh-app-sequence-not-recorded-once'}), dict(out, recorded=blog))
            continue
        if any(a == 'blog' for a, _l in h['announced']):
            report.fail(dict(fp, **{'class': 'fresh-app-evolutions-executed'}), out)
        if len(out['steps']) > 1:
            n = out['steps'][1]
            blog2 = [r[1] for r in n['rows'] if r[0] == 'blog']
            if n['outcome'] != 'ok' or sorted(blog2) != ['c1', 'c2', 'c3'] or \
                    [l for a, ls in n['announced'] if a == 'blog' for l in ls] != ['c3']:
                report.fail(dict(fp, **{'class': 'later-upgrade-of-the-fresh-app-wrong'}), out)
    return len(results)


def _c08_later_task_class_fails(report, tier, nontrivial):
    """A run that queues two classes of tasks - the apps' evolutions and the purge of a stale app -
    and fails in the SECOND one (the stale app's table was dropped by hand): the evolutions of the
    first class have run, but the run did not complete, so nothing may be on record for it: no
    Evolution row, no Version row."""
    from concurrent.futures import ThreadPoolExecutor
    from .djproj import Project
    base = ['from django.db import models', '', '',
            'class Item(models.Model):', '    name = models.CharField(max_length=20)']
    add_evo = {'label': 'add_qty', 'mutations_src': ["AddField('Item', 'qty', models.IntegerField, null=True)"]}
    scenarios = [(drv, n) for drv in ('cmd', 'api') for n in (1, 2)]

    def run_one(sc):
        drv, nevo = sc
        apps = ['shop', 'blog', 'wiki']
        p = Project(apps, tag='c08f')
        out = {'scenario': sc}
        try:
            for a in apps:
                p.deploy(a, '\n'.join(base) + '\n', [])
            r0 = p.run({'action': 'evolve_api', 'app_prefixes': apps})
            if r0['outcome'] != 'ok':
                out['setup_error'] = (r0.get('error') or {}).get('msg')
                return out
            # blog goes stale and loses its table behind the tool's back; shop (and wiki) gain evolutions
            p.set_installed(['shop', 'wiki'])
            p.run({'action': 'exec_sql', 'app_prefixes': apps,
                   'statements': [['PRAGMA foreign_keys = OFF', []], ['DROP TABLE "blog_item"', []]]})
            src = '\n'.join(base + ['    qty = models.IntegerField(null=True)']) + '\n'
            p.deploy('shop', src, [add_evo])
            if nevo == 2:
                p.deploy('wiki', src, [add_evo])
            before = p.run({'action': 'snapshot', 'app_prefixes': apps})['post']['default']['book']
            if drv == 'api':
                res = p.run({'action': 'evolve_api', 'app_prefixes': apps, 'purge': True})
            else:
                res = p.run({'action': 'command', 'name': 'evolve', 'app_prefixes': apps,
                             'options': {'execute': True, 'interactive': False, 'purge': True, 'verbosity': 0}})
            after = res['post']['default']['book']
            out.update({'outcome': res['outcome'], 'error': (res.get('error') or {}).get('msg'),
                        'rows_before': before['evolutions'], 'rows_after': after['evolutions'],
                        'versions_before': len(before['versions']), 'versions_after': len(after['versions']),
                        'signals': [e['ev'] for e in res['events'] if e['ev'] in
                                    ('evolving', 'evolved', 'evolving_failed', 'applied_evolution')]})
            return out
        finally:
            p.destroy()
    with ThreadPoolExecutor(8) as ex:
        results = list(ex.map(run_one, scenarios))
    for out in results:
        drv, nevo = out['scenario']
        report.coverage['evaluations'] += 1
        if out.get('setup_error'):
            report.notes.append('C08 later-task-class family: setup failed: %s' % out['setup_error'])
            continue
        report.coverage['traces_validated_against_impl'] += 1
        nontrivial.add('later-class-fails:%s:%d' % (drv, nevo))
        fp = {'family': 'later-task-class-fails', 'driver': drv}
        if out['outcome'] == 'ok':
            report.notes.append('C08 later-task-class family: the purge did not fail (%s)' % drv)
            continue
        if out['rows_after'] != out['rows_before'] or out['versions_after'] != out['versions_before']:
            report.fail(dict(fp, **{'class': 'recorded-by-incomplete-run',
                                    'evolution_rows': out['rows_after'] != out['rows_before'],
                                    'version_rows': out['versions_after'] != out['versions_before']}), out)
    return len(results)


def _c08_interleaved(report, tier, nontrivial):
    """C08 over upgrades whose tasks are split into several batches (MigGraph.tla: evolutions of two
    apps ordered around each other and around migrations, incl. evolutions without SQL): every pending
    evolution's SQL runs exactly once in the run - judged on the statements themselves - and every
    pending evolution is recorded exactly once."""
    import random
    from concurrent.futures import ThreadPoolExecutor
    from .common import seed
    from .engines import miggraph as MG
    from .tlc import run_tlc, require_ok, write_cfg
    cfg = write_cfg('MC_MigGraph_c08.cfg', '''
SPECIFICATION Spec
CONSTANTS
  GLen = %d
  MaxDecl = 2
  EmitRecords = TRUE
  SplitOnly = TRUE
CONSTRAINT Constraint
INVARIANT ChainsAloneSatisfiable
''' % MG.GLEN)
    res = require_ok(run_tlc('MigGraph', cfg, workers=8, timeout=3000), 'MigGraph.tla')
    report.add_tlc('MigGraph GLen=%d MaxDecl=2 (split batches, for exactly-once)' % MG.GLEN, res.stats())
    rng = random.Random(seed() * 467 + 8)
    strata = {}
    for r in res.records:
        if r['unsat']:
            continue
        kinds = tuple(sorted(d[0] for d in r['decls']))
        # only upgrades in which some app has two pending evolutions and something orders them apart
        if not any(n >= 2 for n in (r['epending'].values() if isinstance(r['epending'], dict) else r['epending'])):
            continue
        if not any(k in ('eae', 'eam', 'ebm') for k in kinds):
            continue
        strata.setdefault((kinds, bool(r.get('hollow'))), []).append(r)
    for k in strata:
        rng.shuffle(strata[k])
    limit = 24 if tier == 'quick' else 300
    chosen = []
    while len(chosen) < limit and any(strata.values()):
        for k in sorted(strata, key=lambda x: (not x[1], repr(x))):
            if strata[k] and len(chosen) < limit:
                chosen.append(strata[k].pop())
    with ThreadPoolExecutor(16) as ex:
        observations = list(ex.map(MG.run_config, chosen))
    for rec, obs in zip(chosen, observations):
        report.coverage['evaluations'] += 1
        label = {'family': 'split-batches', 'epending': rec['epending'], 'gapplied': rec['gapplied'],
                 'decls': rec['decls'], 'ordering_only': rec.get('hollow')}
        if 'setup_error' in obs:
            report.notes.append('C08 split-batch family setup problem: %s' % str(obs['setup_error'])[:160])
            continue
        report.coverage['traces_validated_against_impl'] += 1
        nontrivial.add(json_key(label, 'split'))
        for cls, info in MG.judge(rec, obs):
            if cls not in ('unit-not-executed-exactly-once', 'pending-evolution-not-recorded'):
                continue            # order is C09's business
            fp = {'class': cls, 'family': 'split-batches', 'by': (info or {}).get('by'),
                  'twice': bool((info or {}).get('twice')), 'ordering_only_evolution': bool(rec.get('hollow'))}
            report.fail(fp, dict(label, order=obs.get('order'), sql_order=obs.get('sql_order'), info=info))
        rows = [tuple(x) for x in (obs.get('evolutions') or [])]
        dups = sorted(set(x for x in rows if rows.count(x) > 1))
        if dups:
            report.fail({'class': 'label-recorded-twice', 'family': 'split-batches'}, dict(label, duplicates=dups))
    return len(chosen)


def _c09_handover_declared(report, tier, nontrivial):
    """C09 on handovers (Handover.tla, `declares`): the evolution that carries MoveToDjangoMigrations -
    which generates dependencies of its own - also DECLARES AFTER_MIGRATIONS on another app's pending
    migration; that migration's statement has to run before the evolution's."""
    import random
    from concurrent.futures import ThreadPoolExecutor
    from .common import seed
    from .engines import handover as H
    from .tlc import run_tlc, require_ok, write_cfg
    cfg = write_cfg('MC_Handover_c09.cfg', '''
SPECIFICATION Spec
CONSTANTS
  MaxK = 1
  M = 3
  EmitRecords = TRUE
CONSTRAINT Constraint
INVARIANT RerunIsNoop
''')
    res = require_ok(run_tlc('Handover', cfg, workers=4, timeout=3000), 'Handover.tla')
    report.add_tlc('Handover MaxK=1 M=3 (declared AFTER_MIGRATIONS next to the move)', res.stats())
    recs = [r for r in res.records if r.get('declares') and r['run'] == 1
            and not r.get('failFirst') and not r.get('premarked') and not r.get('newModel')]
    rng = random.Random(seed() * 131 + 9)
    rng.shuffle(recs)
    recs.sort(key=lambda r: (r['S'], r['K'], repr(r['start'])))
    chosen = recs[::max(1, len(recs) // (12 if tier == 'quick' else 60))][:12 if tier == 'quick' else 60]

    def one(ir):
        i, r = ir
        return H.replay({'K': r['K'], 'S': r['S'], 'start': r['start'], 'companions': r['companions'],
                         'moveSql': True, 'declares': True}, idx=i, M=3)
    with ThreadPoolExecutor(12) as ex:
        observations = list(ex.map(one, enumerate(chosen)))
    for r, obs in zip(chosen, observations):
        report.coverage['evaluations'] += 1
        where = {'part': 'handover', 'K': r['K'], 'mark_applied_prefix': r['S'], 'start': r['start'],
                 'companions': sorted(r['companions']), 'driver': obs.get('driver')}
        if obs['errors'] or 'run1' not in obs:
            report.notes.append('C09 handover part: start state could not be built: %r' % (obs.get('errors') or [])[:1])
            continue
        report.coverage['traces_validated_against_impl'] += 1
        nontrivial.add(json_key(where, 'handover'))
        o = obs['run1']
        if o['outcome'] != 'ok':
            report.fail({'class': 'satisfiable-rejected', 'part': 'handover'}, dict(where, error=o['error']))
            continue
        if o.get('pos_shop_x') is None:
            continue            # the move's evolution had been applied already
        if o.get('pos_mig_m1') is None or o['pos_mig_m1'] > o['pos_shop_x']:
            report.fail({'class': 'requirement-broken', 'part': 'handover', 'kinds': ['evo-after-mig']},
                        dict(where, statements=o['statements'][:14], pos_mig_m1=o.get('pos_mig_m1'),
                             pos_shop_x=o.get('pos_shop_x')))
    return len(chosen)


def _c09_migrations(report, tier, nontrivial):
    """C09 part 3: evolutions and Django migrations in one upgrade (MigGraph.tla)."""
    import random
    from concurrent.futures import ThreadPoolExecutor
    from .common import seed
    from .engines import miggraph as MG
    from .tlc import run_tlc, require_ok, write_cfg
    maxdecl = 2
    cfg = write_cfg('MC_MigGraph.cfg', '''
SPECIFICATION Spec
CONSTANTS
  GLen = %d
  MaxDecl = %d
  EmitRecords = TRUE
  SplitOnly = FALSE
CONSTRAINT Constraint
INVARIANT ChainsAloneSatisfiable
''' % (MG.GLEN, maxdecl))
    res = require_ok(run_tlc('MigGraph', cfg, workers=8, timeout=3000), 'MigGraph.tla')
    report.add_tlc('MigGraph GLen=%d MaxDecl=%d (reference requirement sets)' % (MG.GLEN, maxdecl), res.stats())
    recs = res.records
    rng = random.Random(seed() * 503 + 9)
    strata = {}
    for r in recs:
        kinds = tuple(sorted(d[0] for d in r['decls']))
        live = sum(1 for x, y in r['req'] if x[0] != y[0] or x[1] != y[1])
        strata.setdefault((kinds, bool(r['unsat']), min(live, 2), bool(r.get('hollow'))), []).append(r)
    for k in strata:
        rng.shuffle(strata[k])
    limit = 70 if tier == 'quick' else 900
    chosen = []
    while len(chosen) < limit and any(strata.values()):
        for k in sorted(strata, key=repr):
            if strata[k] and len(chosen) < limit:
                chosen.append(strata[k].pop())
    with ThreadPoolExecutor(16) as ex:
        observations = list(ex.map(MG.run_config, chosen))
    herr = 0
    for rec, obs in zip(chosen, observations):
        report.coverage['evaluations'] += 1
        label = {'epending': rec['epending'], 'gapplied': rec['gapplied'], 'decls': rec['decls'],
                 'ordering_only': rec.get('hollow')}
        if 'setup_error' in obs:
            herr += 1
            if herr <= 3:
                report.notes.append('C09 part 3 setup problem: %s' % str(obs['setup_error'])[:200])
            continue
        report.coverage['traces_validated_against_impl'] += 1
        if rec['decls'] and any(x[0] != y[0] for x, y in rec['req']):
            nontrivial.add(json_key(label, 'mig'))
        for cls, info in MG.judge(rec, obs):
            fp = {'class': cls, 'part': 'migrations',
                  'decl_kinds': sorted(set(d[0] for d in rec['decls']))}
            if isinstance(info, dict) and info.get('kinds'):
                fp['kinds'] = info['kinds']
            if isinstance(info, dict) and info.get('by'):
                fp['by'] = info['by']
            report.fail(fp, dict(label, order=obs.get('order'), sql_order=obs.get('sql_order'), outcome=obs.get('outcome'),
                                 error=obs.get('error_msg'), info=info, unsat=rec['unsat'],
                                 requirements=rec['req']))
    if herr > len(chosen) // 5:
        from .common import machinery_failure
        machinery_failure('too many setup errors in C09 part 3 (%d of %d)' % (herr, len(chosen)))
    return len(chosen), len(recs)
