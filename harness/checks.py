"""One function per property: runs TLC, the conformance engine, writes evidence."""

from __future__ import annotations

from .common import Report


def c09(tier, replay=None):
    from . import djsetup
    djsetup.setup()
    from .engines import graph
    report = Report('C09', tier)
    report.coverage['rule'] = (
        'TLC enumerates every labelled digraph on N nodes (Graph.tla Init) and '
        'executes the transcribed get_ordered() step by step; every terminal '
        'state is replayed into the real DependencyGraph and judged by the '
        'topological-order / cycle oracle. Non-trivial = at least two edges; '
        'distinct = distinct (n, edge set).')
    report.assumptions += [
        'node identity = insertion index; keys are opaque strings',
        'any exception raised by get_ordered() counts as "reported as an error"',
    ]
    graph.run_core(report, tier)
    report.coverage['exhaustive'] = True
    return report.finish()


REGISTRY = {
    'C09': c09,
}
