"""One function per property: runs TLC, the conformance engine, writes evidence."""

from __future__ import annotations

from .common import Report


def c09(tier, replay=None):
    from . import djsetup
    djsetup.setup()
    from .engines import graph
    report = Report('C09', tier)
    report.coverage['rule'] = (
        'TLC enumerates every labelled digraph on N nodes (Graph.tla Init) and '
        'executes the transcribed get_ordered() step by step; every terminal '
        'state is replayed into the real DependencyGraph and judged by the '
        'topological-order / cycle oracle. Non-trivial = at least two edges; '
        'distinct = distinct (n, edge set).')
    report.assumptions += [
        'node identity = insertion index; keys are opaque strings',
        'any exception raised by get_ordered() counts as "reported as an error"',
    ]
    graph.run_core(report, tier)
    report.coverage['exhaustive'] = True
    return report.finish()


REGISTRY = {
    'C09': c09,
}


# ---------------------------------------------------------------------------
# C03 / C18: the optimiser and the rebuild plan (Optimizer.tla + mutseq engine)

MERGEABLE_DOC = '{"add_column", "change_column", "change_meta", "delete_column"}'


def _code_mergeable():
    """The tuple the code really uses, rendered as a TLA+ set (binding)."""
    from django_evolution.db.sqlite3 import EvolutionOperations
    return '{%s}' % ', '.join('"%s"' % t for t in EvolutionOperations.mergeable_ops)


def _optimizer_cfg(maxlen, start, alpha, mergeable, emit=True):
    from .tlc import write_cfg
    return write_cfg('MC_Optimizer_%d_%d_%d.cfg' % (maxlen, start, alpha), '''
SPECIFICATION Spec
CONSTANTS
  MaxLen = %d
  StartId = %d
  AlphaId = %d
  Mergeable = %s
  EmitRecords = %s
CONSTRAINT Constraint
''' % (maxlen, start, alpha, mergeable, 'TRUE' if emit else 'FALSE'))


def _optimizer_space(tier):
    """(maxlen, start, alpha) triples explored exhaustively by TLC."""
    if tier == 'quick':
        return [(2, 1, 1), (3, 3, 2), (2, 2, 3)]
    return [(3, 1, 1), (4, 3, 2), (3, 2, 3), (3, 2, 1)]


def _start_sig(start_id):
    """Start signature as TLC prints it (one tiny TLC evaluation, cached)."""
    from .tlc import run_tlc, require_ok, write_cfg
    global _START_CACHE
    try:
        return _START_CACHE[start_id]
    except (NameError, KeyError):
        pass
    cfg = write_cfg('MC_Optimizer_start_%d.cfg' % start_id, '''
SPECIFICATION Spec
CONSTANTS
  MaxLen = 0
  StartId = %d
  AlphaId = 9
  Mergeable = {}
  EmitRecords = TRUE
CONSTRAINT Constraint
''' % start_id)
    res = require_ok(run_tlc('Optimizer', cfg, workers=1), 'start signature')
    sig = res.records[0]['final']
    try:
        _START_CACHE[start_id] = sig
    except NameError:
        _START_CACHE = {start_id: sig}
    return sig


_START_CACHE = {}


def _explore_optimizer(report, tier, mergeable):
    from .tlc import run_tlc, require_ok
    out = []
    for maxlen, start, alpha in _optimizer_space(tier):
        cfg = _optimizer_cfg(maxlen, start, alpha, mergeable)
        res = require_ok(run_tlc('Optimizer', cfg, workers=16, timeout=5400),
                         'Optimizer.tla len<=%d start=%d alpha=%d' % (maxlen, start, alpha))
        report.add_tlc('Optimizer len<=%d start=%d alpha=%d' % (maxlen, start, alpha),
                       res.stats())
        if res.invariant_violated:
            report.notes.append('TLC: invariant %s violated in Optimizer.tla (start=%d alpha=%d)'
                                % (res.invariant_violated, start, alpha))
        start_sig = _start_sig(start)
        for rec in res.records:
            out.append((rec, start_sig))
    return out


def _pick(records, limit, rng):
    """All records when they fit, else every predicted-violation record plus a
    seeded sample stratified by length."""
    if len(records) <= limit:
        return list(records)
    hot = [r for r in records if r[0]['viol']]
    cold = [r for r in records if not r[0]['viol']]
    rng.shuffle(hot)
    rng.shuffle(cold)
    hot = hot[:limit // 2]
    return hot + cold[:max(0, limit - len(hot))]


def _mutseq_check(prop, tier, judge_name):
    import random
    from . import djsetup
    djsetup.setup()
    from .absmodel import ALT_NAMES, norm_mutation, short
    from .common import seed
    from .engines import mutseq
    report = Report(prop, tier)
    mergeable = _code_mergeable()
    report.notes.append('Mergeable bound to the code: %s' % mergeable)
    recs = _explore_optimizer(report, tier, mergeable)
    rng = random.Random(seed() * 1000003 + 11)
    limit = 1800 if tier == 'quick' else 40000
    chosen = _pick(recs, limit, rng)
    jobs = []
    for i, (rec, start_sig) in enumerate(chosen):
        names_idx = i % len(ALT_NAMES) if tier == 'thorough' else (i % 2)
        split = 'single' if i % 3 else 'each'
        jobs.append((rec, start_sig, names_idx, split, prop == 'C03'))
    observations = mutseq.observe_many(jobs)
    nontrivial = set()
    harness_errors = 0
    ref_failed = 0
    for (rec, start_sig, names_idx, split, _w), obs in zip(jobs, observations):
        report.coverage['evaluations'] += 1
        seq = [norm_mutation(m) for m in rec['seq']]
        key = json_key(seq, rec['start'])
        if len(seq) >= 2:
            nontrivial.add(key)
        if obs is None or obs.get('harness_error'):
            harness_errors += 1
            if harness_errors <= 3:
                report.notes.append('harness error: %s' % (obs or {}).get('harness_error'))
            continue
        report.coverage['traces_validated_against_impl'] += 1
        if not obs.get('ref', {}).get('ok'):
            ref_failed += 1
        label = [short(m) for m in seq]
        if prop == 'C03':
            fails = mutseq.c03_failures(rec, obs)
            for cls, detail in fails:
                clause = mutseq.C03_CLAUSE[cls]
                predicted = clause in rec['viol']
                if cls in mutseq.DB_LEVEL and not predicted:
                    # a predicted signature difference explains a schema difference
                    predicted = (('OptSameSig' if cls.startswith('opt-') else 'TwoPassSameSig')
                                 in rec['viol'])
                fp = {'class': cls, 'predicted_by_spec': predicted,
                      'level': 'db' if cls in mutseq.DB_LEVEL else 'sig',
                      'hazards': sorted(rec.get('hazards') or [])}
                if cls.startswith('opt-') and predicted and cls not in mutseq.DB_LEVEL:
                    fp['cause'] = rec.get('cause')
                report.fail(fp, {'sequence': label, 'start': rec['start'],
                                 'names': names_idx, 'split': split,
                                 'observed': detail, 'spec_viol': rec['viol'],
                                 'abstract_seq': seq})
            # binding: surviving list vs the transcription's prediction
            if obs.get('opt_list') is not None:
                want = [norm_mutation(m) for m in rec['optlist']]
                have = [norm_mutation(m) for m in obs['opt_list']]
                if want != have and rec['optOk']:
                    report.spec_drift('optimised list differs from Optimizer.tla for %s' % label,
                                      {'spec': [short(m) for m in want],
                                       'code': [short(m) for m in have]})
            # spec predicted a violation the code does not show -> drift, not alarm
            seen = set(mutseq.C03_CLAUSE[c] for c, _ in fails)
            for clause in rec['viol']:
                if clause in ('RebuildsNotWorse', 'OneRebuildPerMergeableRun'):
                    continue
                if clause in ('OptSameData', 'TwoPassSameData') and (
                        'opt-exec-failed' in [c for c, _ in fails] or
                        'pipeline-exec-failed' in [c for c, _ in fails]):
                    continue
                if clause not in seen and obs.get('ref', {}).get('ok'):
                    report.spec_drift('Optimizer.tla predicts %s for %s but the code satisfies it'
                                      % (clause, label))
        else:
            names = ALT_NAMES[names_idx]
            fails = mutseq.c18_failures(rec, obs, names)
            for cls, detail in fails:
                clause = ('RebuildsNotWorse' if cls == 'more-rebuilds-than-unbatched'
                          else 'OneRebuildPerMergeableRun')
                report.fail({'class': cls, 'predicted_by_spec': clause in rec['viol']},
                            {'sequence': label, 'start': rec['start'],
                             'observed': detail, 'abstract_seq': seq})
            # binding of the rebuild plan
            if obs.get('rebuilds_bat') is not None and rec['optOk']:
                want = {names.table(t): n for t, n in dict_or_empty(rec['rbOpt']).items()}
                if want != obs['rebuilds_bat']:
                    report.spec_drift('rebuild plan differs for %s' % label,
                                      {'spec': want, 'code': obs['rebuilds_bat']})
        report.sample({'sequence': label, 'start': rec['start'],
                       'spec_viol': rec['viol'],
                       'real': {k: obs.get(k) for k in ('ref', 'bat', 'evo',
                                                        'rebuilds_ref', 'rebuilds_bat')}})
    report.coverage['distinct_nontrivial'] = len(nontrivial)
    report.coverage['exhaustive'] = len(chosen) == len(recs) and harness_errors == 0
    report.coverage['rule'] = (
        'TLC enumerates every simulation-valid mutation sequence up to the length bound over '
        'the alphabets of Optimizer.tla (Extend enabled iff Sig!Sim accepts) and evaluates the '
        'transcribed optimiser on each; %d of %d sequences were replayed into the real code '
        'through three pipelines on identical databases. Non-trivial = length >= 2; distinct = '
        'distinct (start signature, sequence).' % (len(chosen), len(recs)))
    report.notes.append('reference (one-at-a-time) run failed on the real code for %d sequences '
                        '(outside this property; see C01)' % ref_failed)
    if harness_errors:
        report.notes.append('%d harness errors' % harness_errors)
        if harness_errors > len(jobs) // 10:
            from .common import machinery_failure
            machinery_failure('too many harness errors (%d of %d)' % (harness_errors, len(jobs)))
    report.assumptions += [
        'abstract names are concretised through order-preserving renamings',
        'SQLite 3.26+ (native RENAME COLUMN)',
        'a sequence is in scope only if the real one-at-a-time run accepts and executes it',
    ]
    return report.finish()


def dict_or_empty(x):
    return {} if x == [] or x is None else x


def json_key(seq, start):
    import json
    return json.dumps([start, seq], sort_keys=True)


def c03(tier, replay=None):
    return _mutseq_check('C03', tier, 'c03')


def c18(tier, replay=None):
    return _mutseq_check('C18', tier, 'c18')


REGISTRY.update({'C03': c03, 'C18': c18})
