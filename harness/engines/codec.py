"""C06 / C13: values of Codec.tla's grammar concretised, stored / rendered by
the real code, read back / executed, and compared."""

from __future__ import annotations

import json
import traceback
from collections import OrderedDict

PALETTE = ["s", "it's", 'dq"', 'back\\slash', 'ünï', '%s %%', '',
           # a sentence: whatever the layout of the evolution file (statements of any length), the
           # spaces inside a string literal are part of the value
           'a rather long sentence, with commas and many  words in it, that goes on for more than eighty columns']


def concretise(v, strs):
    """Abstract value (Codec!V record as JSON) -> Python value."""
    from django.db import models
    from django.db.models import F, Q, Value
    from django.db.models.expressions import CombinedExpression
    t = v['t']
    items = v.get('items') or []
    if t == 'none':
        return None
    if t == 'bool':
        return bool(v['b'])
    if t == 'int':
        return int(v['n'])
    if t == 'str':
        return strs.get(v['s'], v['s'])
    if t == 'list':
        return [concretise(x, strs) for x in items]
    if t == 'tuple':
        return tuple(concretise(x, strs) for x in items)
    if t == 'dict':
        d = OrderedDict() if v['s'] == 'odict' else {}
        for i in range(0, len(items), 2):
            d[concretise(items[i], {})] = concretise(items[i + 1], strs)
        return d
    if t == 'pair':
        # lookups name real fields of the model the value is attached to
        key = {'a': 'beta', 'b': 'alpha'}.get(v['s'], v['s'])
        val = concretise(items[0], strs)
        if isinstance(val, (list, tuple)):
            key += '__in'
        return (key, val)
    if t == 'q':
        children = [concretise(x, strs) for x in items]
        q = Q(*children)
        q.connector = v['s']
        q.negated = bool(v['b'])
        return q
    if t == 'f':
        return F({'a': 'beta', 'b': 'alpha'}.get(v['s'], v['s']))
    if t == 'value':
        return Value(concretise(items[0], strs))
    if t == 'comb':
        return CombinedExpression(concretise(items[0], strs), v['s'],
                                  concretise(items[1], strs))
    if t == 'enum':
        return getattr(models.Deferrable, v['s'])
    raise ValueError(t)


def position_of(v):
    t = v['t']
    if t == 'q':
        return 'condition'
    if t in ('f', 'value', 'comb'):
        return 'expression'
    if t == 'enum':
        return 'deferrable'
    if t in ('list', 'tuple'):
        flat = all(x['t'] == 'str' for x in (v.get('items') or []))
        return 'include' if flat else 'constraint_attr'
    if t == 'dict':
        return 'constraint_attr'
    return 'field_attr'


def build_signature(value, position, via='direct', model_name='Ab'):
    """A project signature that holds `value` at `position`; via='objects'
    builds the index / constraint signatures from real Django Index and
    constraint objects (IndexSignature.from_index, ConstraintSignature.
    from_constraint), the way signatures of installed models are built."""
    from django.db import models
    from django_evolution.signature import (AppSignature, ConstraintSignature,
                                            FieldSignature, IndexSignature,
                                            ModelSignature, ProjectSignature)
    ps = ProjectSignature()
    app_sig = AppSignature(app_id='vapp')
    ps.add_app_sig(app_sig)
    msig = ModelSignature(model_name=model_name, table_name='vapp_%s' % model_name.lower(), pk_column='id',
                          unique_together=[('alpha', 'beta')], unique_together_applied=True,
                          db_table_comment='what %s is for' % model_name)
    msig.add_field_sig(FieldSignature('id', models.AutoField, {'primary_key': True}))
    attrs = {'max_length': 10}
    if position == 'field_attr':
        attrs['db_column'] = value
    msig.add_field_sig(FieldSignature('alpha', models.CharField, attrs))
    msig.add_field_sig(FieldSignature('beta', models.IntegerField, {'null': True}))
    # relations: a foreign key with a column of its own, a many-to-many with a table of its own
    msig.add_field_sig(FieldSignature('owner', models.ForeignKey, {'db_column': 'owner_ref', 'null': True},
                                      related_model='vapp.%s' % model_name))
    msig.add_field_sig(FieldSignature('links', models.ManyToManyField, {'db_table': 'vapp_%s_links' % model_name.lower()},
                                      related_model='vapp.%s' % model_name))
    if via == 'objects':
        if position == 'condition':
            msig.add_index_sig(IndexSignature.from_index(
                models.Index(fields=['alpha'], name='ix_cond', condition=value)))
            msig.add_constraint_sig(ConstraintSignature.from_constraint(
                models.CheckConstraint(check=value, name='ck')))
        elif position == 'expression':
            msig.add_index_sig(IndexSignature.from_index(models.Index(value, name='ix_expr')))
            msig.add_index_sig(IndexSignature.from_index(
                models.Index(value, models.F('alpha'), name='ix_expr2')))
        elif position == 'deferrable':
            msig.add_constraint_sig(ConstraintSignature.from_constraint(
                models.UniqueConstraint(fields=('alpha',), name='uq', deferrable=value)))
        elif position == 'include':
            msig.add_index_sig(IndexSignature.from_index(
                models.Index(fields=['-alpha', 'beta'], name='ix_inc', include=value)))
            msig.add_constraint_sig(ConstraintSignature.from_constraint(
                models.UniqueConstraint(fields=('alpha',), name='uq2', include=value)))
        else:
            raise NotApplicable(position)
    elif position == 'condition':
        msig.add_index_sig(IndexSignature(fields=['alpha'], name='ix_cond',
                                          attrs={'condition': value}))
        msig.add_constraint_sig(ConstraintSignature('ck', models.CheckConstraint,
                                                    {'check': value}))
    elif position == 'expression':
        msig.add_index_sig(IndexSignature(fields=None, name='ix_expr',
                                          expressions=[value]))
    elif position == 'deferrable':
        msig.add_constraint_sig(ConstraintSignature('uq', models.UniqueConstraint,
                                                    {'fields': ('alpha',), 'deferrable': value}))
    elif position == 'include':
        msig.add_index_sig(IndexSignature(fields=['-alpha', 'beta'], name='ix_inc',
                                          attrs={'include': value, 'opclasses': value}))
    elif position == 'constraint_attr':
        msig.add_constraint_sig(ConstraintSignature('cx', models.UniqueConstraint,
                                                    {'fields': ('alpha',), 'extra': value}))
    app_sig.add_model_sig(msig)
    return ps


class NotApplicable(Exception):
    pass


def storage_round_trip(value, position, through_db, via='direct'):
    """Returns dict of observations for C06."""
    from django_evolution.diff import Diff
    from django_evolution.models import Version
    from django_evolution.signature import ProjectSignature
    obs = {}
    try:
        sig = build_signature(value, position, via)
        text1 = json.dumps(sig.serialize(), sort_keys=True)
    except NotApplicable:
        return None
    except (ValueError, TypeError) as e:
        if via == 'objects':
            return None         # Django itself refuses this index / constraint definition
        obs['write_error'] = '%s: %s' % (type(e).__name__, e)
        return obs
    except Exception as e:
        obs['write_error'] = '%s: %s' % (type(e).__name__, e)
        return obs
    try:
        if through_db:
            version = Version(signature=sig)
            version.save()
            back = Version.objects.get(pk=version.pk).signature
            # ... and the same Version written AGAIN after its signature was edited in place, the
            # way ChangeField / RenameField edit signatures (attribute dictionaries updated, no
            # object replaced): what is stored is the signature as it is now
            try:
                msig = sig.get_app_sig('vapp').get_model_sig('Ab')
                msig.get_field_sig('alpha').field_attrs['max_length'] = 11
                msig.get_field_sig('beta').field_attrs.update({'null': False, 'db_index': True})
                version.save()
                again = Version.objects.get(pk=version.pk).signature
                obs['resave_eq'] = bool(again == sig)
                obs['resave_same_text'] = (json.dumps(again.serialize(), sort_keys=True) ==
                                           json.dumps(sig.serialize(), sort_keys=True))
            finally:
                msig.get_field_sig('alpha').field_attrs['max_length'] = 10
                msig.get_field_sig('beta').field_attrs.pop('db_index', None)
                msig.get_field_sig('beta').field_attrs['null'] = True
            version.delete()
        else:
            back = ProjectSignature.deserialize(
                json.loads(json.dumps(sig.serialize()), object_pairs_hook=OrderedDict))
    except Exception as e:
        obs['read_error'] = '%s: %s' % (type(e).__name__, e)
        obs['tb'] = traceback.format_exc(limit=4)
        return obs
    try:
        obs['eq'] = bool(back == sig)
        d1, d2 = Diff(sig, back), Diff(back, sig)
        obs['diff_empty'] = d1.is_empty(ignore_apps=False) and d2.is_empty(ignore_apps=False)
        if not obs['diff_empty']:
            obs['diff'] = [str(d1), str(d2)]
        text2 = json.dumps(back.serialize(), sort_keys=True)
        obs['same_text'] = text1 == text2
        if not obs['same_text']:
            obs['texts'] = [text1[-300:], text2[-300:]]
    except Exception as e:
        obs['compare_error'] = '%s: %s' % (type(e).__name__, e)
    return obs


def pair_round_trip(first, second, position, via, through_db):
    """One project signature with `first` on model Ab and `second` on model Cd,
    stored and read back; the reloaded signature must re-serialise to the very
    text it was stored as (type-strict: True is not 1)."""
    from django_evolution.models import Version
    from django_evolution.signature import ProjectSignature
    try:
        sig = build_signature(first, position, via, 'Ab')
        other = build_signature(second, position, via, 'Cd')
        sig.get_app_sig('vapp').add_model_sig(other.get_app_sig('vapp').get_model_sig('Cd'))
        text1 = json.dumps(sig.serialize(), sort_keys=True)
    except NotApplicable:
        return None
    except (ValueError, TypeError):
        return None
    obs = {}
    try:
        if through_db:
            version = Version(signature=sig)
            version.save()
            back = Version.objects.get(pk=version.pk).signature
            # ... and the same Version written AGAIN after its signature was edited in place, the
            # way ChangeField / RenameField edit signatures (attribute dictionaries updated, no
            # object replaced): what is stored is the signature as it is now
            try:
                msig = sig.get_app_sig('vapp').get_model_sig('Ab')
                msig.get_field_sig('alpha').field_attrs['max_length'] = 11
                msig.get_field_sig('beta').field_attrs.update({'null': False, 'db_index': True})
                version.save()
                again = Version.objects.get(pk=version.pk).signature
                obs['resave_eq'] = bool(again == sig)
                obs['resave_same_text'] = (json.dumps(again.serialize(), sort_keys=True) ==
                                           json.dumps(sig.serialize(), sort_keys=True))
            finally:
                msig.get_field_sig('alpha').field_attrs['max_length'] = 10
                msig.get_field_sig('beta').field_attrs.pop('db_index', None)
                msig.get_field_sig('beta').field_attrs['null'] = True
            version.delete()
        else:
            back = ProjectSignature.deserialize(json.loads(text1, object_pairs_hook=OrderedDict))
        text2 = json.dumps(back.serialize(), sort_keys=True)
        obs['same_text'] = text1 == text2
        if text1 != text2:
            k = next((i for i, (a, b) in enumerate(zip(text1, text2)) if a != b), 0)
            obs['texts'] = [text1[max(0, k - 120):k + 60], text2[max(0, k - 120):k + 60]]
    except Exception as e:
        obs['error'] = '%s: %s' % (type(e).__name__, e)
    return obs


def v1_round_trip(value, position):
    """v2 -> v1 -> v2 for the v1-expressible subset (field attributes)."""
    from django_evolution.diff import Diff
    from django_evolution.signature import ProjectSignature
    sig = build_signature(value, position)
    try:
        v1 = sig.serialize(sig_version=1)
        back = ProjectSignature.deserialize(v1)
        d1, d2 = Diff(sig, back), Diff(back, sig)
        return {'diff_empty': d1.is_empty(ignore_apps=False) and d2.is_empty(ignore_apps=False),
                'diff': [str(d1), str(d2)]}
    except Exception as e:
        return {'error': '%s: %s' % (type(e).__name__, e)}


def v1_storage_round_trip(value, position):
    """A legacy (version 1) signature as an old installation stored it - pickle
    protocol 0, kept as text - written into the version table by raw SQL and read
    back through the model field."""
    import pickle
    from django.db import connection
    from django.utils import timezone
    from django_evolution.diff import Diff
    from django_evolution.models import Version
    sig = build_signature(value, position)
    out = {}
    try:
        v1 = sig.serialize(sig_version=1)
        text = pickle.dumps(v1, protocol=0).decode('latin1')
        with connection.cursor() as cur:
            cur.execute('INSERT INTO django_project_version (signature, "when") VALUES (%s, %s)',
                        [text, timezone.now()])
            pk = cur.lastrowid
        back = Version.objects.get(pk=pk).signature
        Version.objects.filter(pk=pk).delete()
        d1, d2 = Diff(sig, back), Diff(back, sig)
        out['diff_empty'] = d1.is_empty(ignore_apps=False) and d2.is_empty(ignore_apps=False)
        out['diff'] = [str(d1), str(d2)]
        out['eq'] = bool(back == sig)
    except Exception as e:
        out['error'] = '%s: %s' % (type(e).__name__, e)
    return out


# ---------------------------------------------------------------------------
# C13

def mutation_for(value, position):
    """A mutation that carries `value`, valid on the rig's start model."""
    from django.db import models
    from django_evolution.mutations import AddField, ChangeMeta
    if position == 'condition':
        return [ChangeMeta('Ab', 'indexes', [{'name': 'ix_cond', 'fields': ['alpha'],
                                              'condition': value}]),
                ChangeMeta('Ab', 'constraints', [{'name': 'ck', 'type': models.CheckConstraint,
                                                  'check': value}])]
    if position == 'expression':
        return [ChangeMeta('Ab', 'indexes', [{'name': 'ix_expr', 'expressions': [value]}])]
    if position == 'deferrable':
        return [ChangeMeta('Ab', 'constraints', [{'name': 'uq', 'type': models.UniqueConstraint,
                                                  'fields': ('alpha',), 'deferrable': value}])]
    if position == 'include':
        return [ChangeMeta('Ab', 'indexes', [{'name': 'ix_inc', 'fields': value or ['alpha']}])]
    if position == 'constraint_attr':
        return None          # only the renderer itself is exercised for these
    # primitives and strings: attribute values and initial values of an AddField
    # ... on a column that needs the initial value, and on a nullable one that does not
    if isinstance(value, str):
        return [AddField('Ab', 'gamma', models.CharField, max_length=30, initial=value,
                         db_column='col'),
                AddField('Ab', 'delta', models.CharField, max_length=30, initial=value, null=True)]
    if isinstance(value, bool):
        return [AddField('Ab', 'gamma', models.BooleanField, initial=value, db_index=value),
                AddField('Ab', 'delta', models.BooleanField, initial=value, null=True)]
    if isinstance(value, int):
        return [AddField('Ab', 'gamma', models.IntegerField, initial=value),
                AddField('Ab', 'delta', models.IntegerField, initial=value, null=True)]
    return [AddField('Ab', 'gamma', models.IntegerField, null=True, initial=value)]


def render_and_load(mutations, app_module, evolver_factory):
    """Hinted-evolution text for `mutations` through a real task, then exec()."""
    from django_evolution.evolve import EvolveAppTask
    obs = {}
    try:
        obs['hints'] = [str(m) for m in mutations]
    except Exception as e:
        obs['render_error'] = '%s: %s' % (type(e).__name__, e)
        return obs
    try:
        evolver = evolver_factory()
        task = EvolveAppTask(evolver, app=app_module,
                             evolutions=[{'label': 'h1', 'mutations': list(mutations)}])
        obs['stage'] = 'prepare'
        task.prepare(hinted=False)
        obs['stage'] = 'content'
        text = task.get_evolution_content()
        obs['text'] = text
    except Exception as e:
        obs['content_error'] = '%s: %s' % (type(e).__name__, e)
        obs['tb'] = traceback.format_exc(limit=5)
        return obs
    if not text:
        obs['content_error'] = 'no content'
        return obs
    ns = {}
    try:
        exec(compile(text, '<hinted evolution>', 'exec'), ns)
        loaded = ns['MUTATIONS']
        obs['loaded_hints'] = [str(m) for m in loaded]
        obs['loaded'] = loaded
    except Exception as e:
        obs['load_error'] = '%s: %s' % (type(e).__name__, e)
    return obs


def normalize(value):
    """Meaning-preserving normal form of a Q tree: Python's & and | flatten
    nested Q of the same connector and drop empty Q(); a non-negated Q with a
    single child is that child; double negation cancels."""
    from django.db.models import Q
    if not isinstance(value, Q):
        return value
    kids = []
    for c in value.children:
        k = normalize(c) if isinstance(c, Q) else ('leaf', c[0], repr(c[1]))
        if k is not None:
            kids.append(k)
    conn = value.connector
    flat = []
    for k in kids:
        if k[0] == 'q' and k[1] == conn and not k[2]:
            flat.extend(k[3])
        else:
            flat.append(k)
    if not flat:
        return None
    if len(flat) == 1:
        only = flat[0]
        if not value.negated:
            return only
        if only[0] == 'q' and only[2]:
            inner = only[3]
            return inner[0] if len(inner) == 1 else ('q', only[1], False, inner)
        if only[0] == 'q':
            return ('q', only[1], True, only[3])
        return ('q', 'AND', True, (only,))
    return ('q', conn, bool(value.negated), tuple(flat))


def has_empty_q(value):
    from django.db.models import Q
    if isinstance(value, Q):
        if not value.children:
            return True
        return any(has_empty_q(c) for c in value.children if isinstance(c, Q))
    return False


def eval_rendered(value):
    """Level 1 of C13: serialize_to_python(value) -> eval -> same value?"""
    from django.db import models
    from django_evolution.serialization import serialize_to_python
    obs = {}
    try:
        text = serialize_to_python(value)
        obs['text'] = text
    except Exception as e:
        obs['render_error'] = '%s: %s' % (type(e).__name__, e)
        return obs
    try:
        back = eval(text, {'models': models})
    except Exception as e:
        obs['load_error'] = '%s: %s' % (type(e).__name__, e)
        return obs
    try:
        from django.db.models import Q as _Q
        if isinstance(value, _Q):
            obs['same'] = isinstance(back, _Q) and normalize(back) == normalize(value)
            obs['strict_same'] = isinstance(back, _Q) and back == value
        else:
            obs['same'] = bool(back == value) and type(back) is type(value)
        if not obs['same']:
            obs['back'] = repr(back)
    except Exception as e:
        obs['compare_error'] = '%s: %s' % (type(e).__name__, e)
    return obs


def effects_equal(rig, original, loaded):
    """Same simulated signature and same generated SQL (C13 level 2)."""
    from django_evolution.db.state import DatabaseState
    from django_evolution.mutators import AppMutator
    from django_evolution.utils.sql import SQLExecutor
    out = []
    for muts in (original, loaded):
        sig = rig.stored_signature()
        state = DatabaseState('default')
        am = AppMutator(app_label=rig.names.app, project_sig=sig,
                        database_state=state, database='default')
        am.run_mutations(list(muts))
        sql = am.to_sql()
        with SQLExecutor(database='default') as ex:
            flat = ex.run_sql(sql, capture=True)
        out.append((sig, flat))
    (s1, q1), (s2, q2) = out
    return bool(s1 == s2), q1 == q2, q1, q2
