"""MoveToDjangoMigrations handover (Handover.tla, property C10)."""

from __future__ import annotations

from ..djproj import Project


def mig_name(n):
    return '0001_initial' if n == 1 else '%04d_m%d' % (n, n - 1)


def models_src(cols, with_tag=False):
    out = ['from django.db import models', '', '', 'class Item(models.Model):',
           '    name = models.CharField(max_length=20)']
    for c in cols:
        out.append('    %s = models.IntegerField(null=True)' % c)
    if with_tag:
        out += ['', '', 'class Tag(models.Model):', '    title = models.CharField(max_length=15)']
    return '\n'.join(out) + '\n'


def mig_initial(app, cols, with_tag=False):
    fl = ("('id', models.AutoField(auto_created=True, primary_key=True, serialize=False, "
          "verbose_name='ID')), ('name', models.CharField(max_length=20))")
    for c in cols:
        fl += ", (%r, models.IntegerField(null=True))" % c
    return '''from django.db import migrations, models


class Migration(migrations.Migration):
    initial = True
    dependencies = []
    operations = [migrations.CreateModel(name='Item', fields=[%s])%s]
''' % (fl, (", migrations.CreateModel(name='Tag', fields=[('id', models.AutoField(auto_created=True, "
                "primary_key=True, serialize=False, verbose_name='ID')), ('title', models.CharField(max_length=15))])")
               if with_tag else '')


def mig_add(app, prev, col):
    return '''from django.db import migrations, models


class Migration(migrations.Migration):
    dependencies = [(%r, %r)]
    operations = [migrations.AddField(model_name='item', name=%r,
                                      field=models.IntegerField(null=True))]
''' % (app, prev, col)


def shop_version(K, S, nevo, with_move, nmig, move_sql=False, declares=False, new_model=False):
    """(models source, evolutions, migrations) of shop with the first `nevo` pre-move
    evolutions, optionally the move, and a chain of `nmig` migrations."""
    pre = [('e%d' % i, ["AddField('Item', 'c%d', models.IntegerField, null=True)" % i], ['c%d' % i])
           for i in range(1, K + 1)]
    if S > 1:
        pre.append(('em', ["AddField('Item', 'm%d', models.IntegerField, null=True)" % i
                           for i in range(1, S)], ['m%d' % i for i in range(1, S)]))
    evos = [{'label': l, 'mutations_src': m} for l, m, _c in pre[:nevo]]
    cols = [c for _l, _m, cs in pre[:nevo] for c in cs]
    migs = None
    if with_move:
        move = {'label': 'e_move', 'mutations_src': [
            'MoveToDjangoMigrations(mark_applied=%r)' % [mig_name(n) for n in range(1, S + 1)]]}
        if move_sql:
            # the evolution that hands the app over also changes the schema itself
            move['mutations_src'].insert(0, "AddField('Item', 'x', models.IntegerField, null=True)")
        if declares:
            move['deps'] = {'AFTER_MIGRATIONS': [('mig', mig_name(2))]}
        evos.append(move)
        extra = ['x'] if move_sql else []
        migs = [(mig_name(1), mig_initial('shop', ['c%d' % i for i in range(1, K + 1)] + extra, new_model))]
        for n in range(2, nmig + 1):
            migs.append((mig_name(n), mig_add('shop', mig_name(n - 1), 'm%d' % (n - 1))))
        cols = sorted(set(['c%d' % i for i in range(1, K + 1)] + ['m%d' % (n - 1) for n in range(2, nmig + 1)]
                          + cols + extra))
    return models_src(cols, with_tag=bool(with_move and new_model)), evos, migs, len(pre)


def deploy_companions(project, companions, final):
    if 'blog' in companions:
        evos = [{'label': 'b1', 'mutations_src': ["AddField('Item', 'f1', models.IntegerField, null=True)"]}]
        project.deploy('blog', models_src(['f1'] if final else []), evos if final else [])
    if 'mig' in companions:
        migs = [(mig_name(1), mig_initial('mig', []))]
        if final:
            migs.append((mig_name(2), mig_add('mig', mig_name(1), 'm1')))
        project.deploy('mig', models_src(['m1'] if final else []), None, migrations=migs)


def observe(res, app='shop'):
    evo, mig = [], []
    for e in res['events']:
        if e['ev'] == 'applying_evolution' and e.get('app') == app:
            evo += list(e.get('labels') or [])
        if e['ev'] == 'applying_migration' and e.get('app') == app:
            mig.append(e.get('name'))
    post = res['post']['default']
    book = post['book']
    migrows = {}
    for a, n in book['migrations']:
        if a == app:
            migrows[n] = migrows.get(n, 0) + 1
    sig = (((res.get('signature') or {}).get('default') or {}).get('apps') or {}).get(app) or {}
    cols = sorted((post['db']['tables'].get('%s_item' % app) or {}).get('columns', {})) if post['db'] else []
    return {
        'outcome': res['outcome'], 'error': (res.get('error') or {}).get('msg'),
        'evo_executed': evo, 'mig_executed': mig,
        'evo_recorded': sorted(e[1] for e in book['evolutions'] if e[0] == app),
        'mig_rows': migrows,
        'columns': cols,
        'tag_table': bool(post['db'] and ('%s_tag' % app) in post['db']['tables']),
        'sig_method': sig.get('upgrade_method'),
        'sig_applied': sorted(sig.get('applied_migrations') or []),
        'statements': [e['sql'][:80] for e in res['events'] if e['ev'] == 'stmt'],
        # first statement that gives mig_item its column m1 / shop_item its column x
        'pos_mig_m1': next((i for i, e in enumerate(res['events'])
                            if e['ev'] == 'stmt' and 'mig_item' in e['sql'] and '"m1"' in e['sql']), None),
        'pos_shop_x': next((i for i, e in enumerate(res['events'])
                            if e['ev'] == 'stmt' and '"x"' in e['sql'] and
                            ('shop_item' in e['sql'] or 'TEMP_TABLE' in e['sql'])), None),
        'bookkeeping_writes': [e['sql'][:80] for e in res['events'] if e['ev'] == 'book'
                               and not e['sql'].lstrip().upper().startswith('SELECT')],
        'signals': [e['ev'] for e in res['events'] if e['ev'] in ('evolving', 'evolved', 'evolving_failed')],
        'all_signals': [[e['ev'], e.get('app'), e.get('name') or e.get('labels') or e.get('models')]
                        for e in res['events'] if e['ev'] not in ('stmt', 'stmt_fail', 'book', 'constructed')],
    }


def upgrade(project, driver, apps):
    if driver == 'api':
        return project.run({'action': 'evolve_api', 'app_prefixes': apps})
    if driver == 'migrate':
        return project.run({'action': 'command', 'name': 'migrate',
                            'options': {'interactive': False, 'verbosity': 0}, 'app_prefixes': apps})
    return project.run({'action': 'command', 'name': 'evolve',
                        'options': {'execute': True, 'interactive': False, 'verbosity': 0},
                        'app_prefixes': apps})


def replay(cfg, idx=0, M=3):
    """cfg: dict(K, S, start=[kind, n], companions=[...])."""
    K, S = cfg['K'], cfg['S']
    kind, n = cfg['start']
    companions = list(cfg['companions'])
    apps = ['shop'] + companions
    project = Project(apps, tag='handover')
    out = {'errors': []}
    try:
        # --- start state
        if kind == 'evo':
            src, evos, migs, _p = shop_version(K, S, n, False, 0)
            project.deploy('shop', src, evos)
            deploy_companions(project, companions, final=False)
            r = project.run({'action': 'evolve_api', 'app_prefixes': apps})
            if r['outcome'] != 'ok':
                out['errors'].append(('start', (r.get('error') or {}).get('msg')))
                return out
        elif kind == 'legacy':
            # the table as 0001_initial would create it, made by hand; nothing on record anywhere
            cols = ''.join(', "c%d" integer NULL' % i for i in range(1, K + 1))
            if cfg.get('moveSql'):
                cols += ', "x" integer NULL'
            r = project.run({'action': 'exec_sql', 'app_prefixes': apps, 'statements': [
                ['CREATE TABLE "shop_item" ("id" integer NOT NULL PRIMARY KEY AUTOINCREMENT, '
                 '"name" varchar(20) NOT NULL%s)' % cols, []],
                ['INSERT INTO "shop_item" ("name") VALUES (%s)', ['kept']]]})
            if r['outcome'] != 'ok':
                out['errors'].append(('start', (r.get('error') or {}).get('msg')))
                return out
        elif kind == 'onmig':
            P = K + (1 if S > 1 else 0)
            if K % 2:
                # reached by a handover from the evolutions
                src, evos, migs, _p = shop_version(K, S, 0, False, 0)
                project.deploy('shop', src, evos)
                deploy_companions(project, companions, final=False)
                r = project.run({'action': 'evolve_api', 'app_prefixes': apps})
            src, evos, migs, _p = shop_version(K, S, P, True, n, bool(cfg.get('moveSql')), False)
            project.deploy('shop', src, evos, migrations=migs)
            deploy_companions(project, companions, final=False)
            r = project.run({'action': 'evolve_api', 'app_prefixes': apps})
            if r['outcome'] != 'ok':
                out['errors'].append(('start', (r.get('error') or {}).get('msg')))
                return out
            out['start_obs'] = observe(r)
        # --- the version under test
        P = K + (1 if S > 1 else 0)
        src, evos, migs, _p = shop_version(K, S, P, True, M, bool(cfg.get('moveSql')), bool(cfg.get('declares')),
                                           bool(cfg.get('newModel')))
        project.deploy('shop', src, evos, migrations=migs)
        deploy_companions(project, companions, final=True)
        driver = ('cmd', 'api', 'migrate')[idx % 3]
        out['driver'] = driver
        if cfg.get('premarked'):
            # django_migrations already lists the migrations the handover is going to mark
            stmts = [["CREATE TABLE IF NOT EXISTS django_migrations (id integer NOT NULL PRIMARY KEY "
                      "AUTOINCREMENT, app varchar(255) NOT NULL, name varchar(255) NOT NULL, "
                      "applied datetime NOT NULL)", []]]
            for n_ in range(1, S + 1):
                stmts.append(["INSERT INTO django_migrations (app, name, applied) VALUES (%s, %s, %s)",
                              ['shop', mig_name(n_), '2020-01-01 00:00:00']])
            pm = project.run({'action': 'exec_sql', 'statements': stmts, 'app_prefixes': apps})
            if pm['outcome'] != 'ok':
                out['errors'].append(('premark', (pm.get('error') or {}).get('msg')))
                return out
        if cfg.get('failFirst'):
            # a first attempt that fails at the first evolution statement; it must leave no trace
            before = observe(project.run({'action': 'snapshot', 'app_prefixes': apps}))
            f = project.run({'action': 'command', 'name': 'evolve',
                             'options': {'execute': True, 'interactive': False, 'verbosity': 0},
                             'fault': {'at': 1, 'scope': 'batch'}, 'app_prefixes': apps})
            after = observe(f)
            out['failed_attempt'] = {
                'outcome': after['outcome'], 'fault_fired': bool(f.get('fault_fired')),
                'changed': {k: (before[k], after[k]) for k in ('mig_rows', 'evo_recorded', 'columns',
                                                               'sig_method', 'sig_applied')
                            if before[k] != after[k]}}
        res1 = upgrade(project, driver, apps)
        out['run1'] = observe(res1)
        out['run1']['companion'] = {a: observe(res1, a) for a in companions}
        # the further upgrade: through a command (which decides by itself whether anything is
        # required), and what a fresh Evolver says about it
        res2 = upgrade(project, ('migrate', 'cmd')[idx % 2], apps)
        out['run2'] = observe(res2)
        out['run2']['companion'] = {a: observe(res2, a) for a in companions}
        probe = project.run({'action': 'evolve_api', 'execute': False, 'app_prefixes': apps})
        out['run2']['required'] = probe.get('required')
        out['run2']['diff_empty'] = probe.get('diff_empty')
        return out
    finally:
        project.destroy()
