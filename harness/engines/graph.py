"""C09 part 1: replay every dependency graph TLC enumerated into the real
DependencyGraph and judge the real output with the property's own oracle."""

from __future__ import annotations

import os
import random
import sys

from ..common import REPO, seed
from ..tlc import run_tlc, require_ok, write_cfg


def _real_order(n, edges):
    """Feed a graph to the real DependencyGraph.  Returns (outcome, order)."""
    from django_evolution.utils.graph import DependencyGraph
    graph = DependencyGraph()
    for i in range(1, n + 1):
        graph.add_node('n%d' % i)
    for a, b in edges:
        graph.add_dependency('n%d' % a, 'n%d' % b)
    graph.finalize()
    try:
        nodes = graph.get_ordered()
    except Exception as e:  # any exception counts as "reported as an error"
        return 'error', [], '%s: %s' % (type(e).__name__, e)
    return 'done', [int(node.key[1:]) for node in nodes], None


def is_cyclic(n, edges):
    deps = {i: set() for i in range(1, n + 1)}
    for a, b in edges:
        deps[a].add(b)
    state = {}

    def visit(x):
        state[x] = 1
        for y in deps[x]:
            if state.get(y) == 1:
                return True
            if y not in state and visit(y):
                return True
        state[x] = 2
        return False
    return any(x not in state and visit(x) for x in range(1, n + 1))


def judge(n, edges, outcome, order):
    """The property's own oracle on a real output.  Returns None or a class."""
    cyclic = is_cyclic(n, edges)
    if outcome == 'error':
        return 'acyclic-rejected' if not cyclic else None
    if cyclic:
        return 'cycle-not-reported'
    if sorted(order) != list(range(1, n + 1)):
        return 'not-a-permutation'
    pos = {x: i for i, x in enumerate(order)}
    for a, b in edges:
        if pos[b] > pos[a]:
            return 'edge-violated'
    return None


def replay_records(report, records, source):
    nontrivial = set()
    for rec in records:
        n = rec['n']
        edges = [tuple(e) for e in rec['g']]
        outcome, order, err = _real_order(n, edges)
        report.coverage['evaluations'] += 1
        report.coverage['traces_validated_against_impl'] += 1
        if len(edges) >= 2:
            nontrivial.add((n, tuple(edges)))
        verdict = judge(n, edges, outcome, order)
        if verdict:
            report.fail({'class': verdict, 'part': 'ordering-core'},
                        {'n': n, 'edges': edges, 'real_outcome': outcome,
                         'real_order': order, 'spec_outcome': rec['outcome'],
                         'spec_order': rec['order'], 'source': source,
                         'replay': 'DependencyGraph: add_node n1..n%d, '
                                   'add_dependency for each edge, finalize(), '
                                   'get_ordered()' % n})
        elif outcome != rec['outcome'] or (outcome == 'done' and order != rec['order']):
            report.spec_drift(
                'Graph.tla predicts %s %s, code gives %s %s'
                % (rec['outcome'], rec['order'], outcome, order),
                {'n': n, 'edges': edges})
        report.sample({'graph_nodes': n, 'edges': edges, 'real': [outcome, order],
                       'spec': [rec['outcome'], rec['order']]})
    return nontrivial


def _cfg(n, emit=True, detect=True):
    return write_cfg('MC_Graph_n%d.cfg' % n, '''
SPECIFICATION Spec
CONSTANTS
  N = %d
  DetectCycles = %s
  EmitRecords = %s
CONSTRAINT Constraint
INVARIANT TypeOK
INVARIANT InvAcyclicOK
INVARIANT InvCyclicReported
INVARIANT InvErrorOnlyIfCyclic
INVARIANT InvVisitedProcessed
INVARIANT InvResultNoDup
INVARIANT InvResultSoFarTopological
INVARIANT InvBoundedSteps
''' % (n, 'TRUE' if detect else 'FALSE', 'TRUE' if emit else 'FALSE'))


def run_core(report, tier):
    """Exhaustive: all digraphs on <=4 nodes (quick) / <=5 nodes (thorough)."""
    sizes = [2, 3, 4] if tier == 'quick' else [2, 3, 4, 5]
    nontrivial = set()
    for n in sizes:
        res = require_ok(run_tlc('Graph', _cfg(n), workers=8 if n < 5 else 12,
                                 timeout=3000), 'Graph.tla N=%d' % n)
        report.add_tlc('Graph N=%d (DetectCycles)' % n, res.stats())
        if res.invariant_violated:
            report.fail({'class': 'design-invariant', 'part': 'ordering-core',
                         'invariant': res.invariant_violated},
                        {'tlc_output': res.output[-3000:]})
        expect = 2 ** (n * (n - 1))
        if len(res.records) != expect:
            from ..common import machinery_failure
            machinery_failure('Graph N=%d: %d records, expected %d'
                              % (n, len(res.records), expect))
        nontrivial |= replay_records(report, res.records, 'tlc-exhaustive-n%d' % n)
    # beyond the exhaustive bound: seeded random graphs on 6..8 nodes, judged by
    # the oracle only (TLC -simulate draws the same family; kept in Python for speed)
    rng = random.Random(seed() * 7919 + 17)
    count = 3000 if tier == 'quick' else 60000
    for _ in range(count):
        n = rng.randint(5 if tier == 'quick' else 6, 8)
        p = rng.choice([0.08, 0.15, 0.25])
        edges = [(a, b) for a in range(1, n + 1) for b in range(1, n + 1)
                 if a != b and rng.random() < p]
        outcome, order, err = _real_order(n, edges)
        report.coverage['evaluations'] += 1
        verdict = judge(n, edges, outcome, order)
        if len(edges) >= 2:
            nontrivial.add((n, tuple(edges)))
        if verdict:
            report.fail({'class': verdict, 'part': 'ordering-core'},
                        {'n': n, 'edges': edges, 'real_outcome': outcome,
                         'real_order': order, 'source': 'random'})
    report.coverage['distinct_nontrivial'] += len(nontrivial)
    return nontrivial
