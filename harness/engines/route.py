"""Two databases and a router (Route.tla, property C16)."""

from __future__ import annotations

from ..djproj import Project

ROUTER = '''
ROUTES = %r
CATCH_ALL = %r


class Router(object):
    def _db(self, model_name):
        return ROUTES.get(model_name.lower())

    def db_for_read(self, model, **hints):
        if model._meta.app_label == 'shop':
            # a model allowed on both databases is read and written on `default`
            db = self._db(model._meta.model_name)
            return 'default' if db == 'both' else db
        # no rule for this model (Django Evolution's own models among them)
        return 'default' if CATCH_ALL else None

    db_for_write = db_for_read

    def allow_migrate(self, db, app_label, model_name=None, **hints):
        if app_label == 'shop':
            return model_name is None or self._db(model_name) in (db, 'both')
        return True

    def allow_relation(self, a, b, **hints):
        return True
'''


def models_src(models):
    out = ['from django.db import models', '', '']
    for name in sorted(models):
        m = models[name]
        out.append('class %s(models.Model):' % name)
        out.append('    name = models.CharField(max_length=%d)' % m['maxlen'])
        if 'x' in m['fields']:
            out.append('    x = models.IntegerField(null=True)')
        out += ['', '']
    return '\n'.join(out)


def mutation_src(mu):
    if mu['k'] == 'add':
        return "AddField(%r, 'x', models.IntegerField, null=True)" % mu['m']
    if mu['k'] == 'chg':
        return "ChangeField(%r, 'name', max_length=30)" % mu['m']
    if mu['k'] == 'ren':
        return "RenameModel(%r, %r, db_table=%r)" % (mu['m'], mu['m'] + '2',
                                                     'shop_%s2' % mu['m'].lower())
    if mu['k'] == 'delapp':
        return 'DeleteApplication()'
    return 'DeleteModel(%r)' % mu['m']


def apply(models, mu):
    if mu['k'] == 'delapp':
        return {}
    models = {k: dict(v, fields=set(v['fields'])) for k, v in models.items()}
    if mu['k'] == 'add':
        models[mu['m']]['fields'].add('x')
    elif mu['k'] == 'chg':
        models[mu['m']]['maxlen'] = 30
    elif mu['k'] == 'ren':
        models[mu['m'] + '2'] = models.pop(mu['m'])
    else:
        del models[mu['m']]
    return models


def observe_db(post, alias):
    """{model table suffix: {'fields': [...], 'maxlen': n}} of the shop tables."""
    d = post[alias]['db']
    out = {}
    if not d:
        return out
    for t, info in d['tables'].items():
        if not t.startswith('shop_'):
            continue
        typ = info['columns'].get('name', {}).get('type', '')
        out[t[5:]] = {'fields': sorted(info['columns']),
                      'maxlen': 30 if '30' in typ else 20 if '20' in typ else typ}
    return out


def replay(rec, idx=0):
    route = dict(rec['route'])
    routes = {}
    for m, d in route.items():
        routes[m.lower()] = d
        routes[m.lower() + '2'] = d
    project = Project(['shop'], dbs=('default', 'other'), router=ROUTER % (routes, bool(rec.get('catchAll'))), tag='route')
    out = {'steps': [], 'errors': []}
    try:
        models = {m: {'fields': {'id', 'name'}, 'maxlen': 20} for m in ('A', 'B', 'C')}
        project.deploy('shop', models_src(models), [])
        for d in ('default', 'other'):
            r = project.run({'action': 'evolve_api', 'database': d})
            if r['outcome'] != 'ok':
                out['errors'].append(('install', d, (r.get('error') or {}).get('msg')))
                return out
        target = models
        for mu in rec['evo']:
            target = apply(target, mu)
        project.deploy('shop', models_src(target),
                       [{'label': 'e1', 'mutations_src': [mutation_src(mu) for mu in rec['evo']]}])
        before = project.run({'action': 'snapshot'})
        prev = {a: observe_db(before['post'], a) for a in ('default', 'other')}
        prev_book = {a: before['post'][a]['book'] for a in ('default', 'other')}
        if rec.get('oneProc'):
            # both databases in one process: only the state after both is observable
            res = project.run({'action': 'evolve_api_seq', 'databases': list(rec['order'])})
            now = {a: observe_db(res['post'], a) for a in ('default', 'other')}
            book = {a: res['post'][a]['book'] for a in ('default', 'other')}
            for entry in res.get('seq') or []:
                d = entry['db']
                s_ = ((res.get('signature') or {}).get(d) or {})
                out['steps'].append({
                    'db': d, 'driver': 'one-process', 'outcome': entry['outcome'], 'error': entry.get('error'),
                    'evolved': now[d],
                    'signature': sorted((((s_.get('apps') or {}).get('shop') or {}).get('models') or {}).keys()),
                    'recorded': sorted(tuple(e) for e in book[d].get('evolutions', [])
                                       if e and e[0] == 'shop') if isinstance(book[d], dict) else None,
                    'other_changed': False, 'other_before': None, 'other_after': None,
                    'statements': [(e['db'], e['sql'][:90]) for e in res['events'] if e['ev'] == 'stmt'],
                })
            if res['outcome'] != 'ok' and not out['steps']:
                out['errors'].append(('one-process run', (res.get('error') or {}).get('msg')))
            return out
        for i, d in enumerate(rec['order']):
            driver = 'cmd' if (i + idx) % 2 else 'api'
            if driver == 'cmd':
                res = project.run({'action': 'command', 'name': 'evolve',
                                   'options': {'execute': True, 'interactive': False,
                                               'database': d, 'verbosity': 0}})
            else:
                res = project.run({'action': 'evolve_api', 'database': d})
            now = {a: observe_db(res['post'], a) for a in ('default', 'other')}
            book = {a: res['post'][a]['book'] for a in ('default', 'other')}
            sig = {}
            for a in ('default', 'other'):
                s = ((res.get('signature') or {}).get(a) or {})
                sig[a] = sorted((((s.get('apps') or {}).get('shop') or {}).get('models') or {}).keys())
            other = 'other' if d == 'default' else 'default'
            out['steps'].append({
                'db': d, 'driver': driver, 'outcome': res['outcome'],
                'error': (res.get('error') or {}).get('msg'),
                'evolved': now[d], 'signature': sig[d],
                'recorded': sorted(tuple(e) for e in book[d].get('evolutions', [])
                                   if e and e[0] == 'shop') if isinstance(book[d], dict) else None,
                'other_changed': now[other] != prev[other] or book[other] != prev_book[other],
                'other_before': prev[other], 'other_after': now[other],
                'statements': [(e['db'], e['sql'][:90]) for e in res['events'] if e['ev'] == 'stmt'],
            })
            prev, prev_book = now, book
        return out
    finally:
        project.destroy()
