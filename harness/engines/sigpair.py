"""C05: signature pairs from Hint.tla replayed on real ProjectSignatures:
real Diff, real Diff.evolution(), real simulate(), real __eq__."""

from __future__ import annotations

from ..absmodel import (NONE, as_dict, field_class, norm_mutation, norm_sig,
                        project_mutation, short)


def build_project_sig(sig, names):
    """Abstract signature -> real ProjectSignature by direct construction (the
    only way to state a default explicitly)."""
    from django.db import models
    from django_evolution.signature import (AppSignature, FieldSignature,
                                            IndexSignature, ModelSignature,
                                            ProjectSignature)
    sig = norm_sig(sig)
    ps = ProjectSignature()
    app_sig = AppSignature(app_id=names.app)
    ps.add_app_sig(app_sig)
    for mn in sorted(sig):
        ms = sig[mn]
        msig = ModelSignature(
            model_name=names.model(mn),
            table_name=names.table(ms['table']) if ms['table'].startswith('t_') else ms['table'],
            pk_column='id',
            unique_together=[tuple(names.field(x) for x in t) for t in ms['ut']],
            unique_together_applied=bool(ms.get('uta', True)))
        for ix in ms.get('idx') or []:
            msig.add_index_sig(IndexSignature(
                fields=[names.field(x) for x in ix['fields']],
                name=None if ix.get('name', NONE) == NONE else ix['name']))
        for c in ms.get('cons') or []:
            from django_evolution.signature import ConstraintSignature
            from ..absmodel import concrete_constraint
            d = concrete_constraint(c, names)
            typ, cname = d.pop('type'), d.pop('name')
            msig.add_constraint_sig(ConstraintSignature(name=cname, constraint_type=typ, attrs=d))
        for fn, fs in ms['fields'].items():
            attrs = dict(as_dict(fs['attrs']))
            msig.add_field_sig(FieldSignature(
                field_name=names.field(fn), field_type=field_class(fs['ftype']),
                field_attrs=attrs,
                related_model=None if fs['rel'] == NONE else names.rel(fs['rel'])))
        app_sig.add_model_sig(msig)
    return ps


def observe(rec, names):
    from django_evolution.diff import Diff
    from .. import modelgen
    old = build_project_sig(rec['old'], names)
    new = build_project_sig(rec['new'], names)
    obs = {}
    # Diff.evolution() looks the new models up in the app registry for defaults
    try:
        modelgen.build_models(rec['new'], names)
    except Exception as e:
        obs['models_error'] = '%s: %s' % (type(e).__name__, e)
    try:
        diff = Diff(old, new)
        obs['diff_str'] = str(diff)
        obs['diff_empty'] = diff.is_empty(ignore_apps=False)
        obs['rdiff_empty'] = Diff(new, old).is_empty(ignore_apps=False)
        obs['eq'] = bool(old == new)
        obs['self_diff_empty'] = Diff(new, new).is_empty(ignore_apps=False)
        clone = new.clone()
        obs['clone_ok'] = (Diff(new, clone).is_empty(ignore_apps=False) and
                           Diff(clone, new).is_empty(ignore_apps=False) and clone == new)
        mutations = diff.evolution().get(names.app, [])
        obs['hint'] = [project_mutation(m, names) for m in mutations]
        obs['hint_str'] = [str(m) for m in mutations]
    except Exception as e:
        import traceback
        obs['diff_error'] = traceback.format_exc(limit=5)
        return obs
    sim = old.clone()
    obs['sim_ok'] = True
    for m in mutations:
        try:
            m.run_simulation(app_label=names.app, legacy_app_label=names.app,
                             project_sig=sim, database_state=None, database='default')
        except Exception as e:
            obs['sim_ok'] = False
            obs['sim_error'] = '%s: %s' % (type(e).__name__, e)
            break
    if obs['sim_ok']:
        r1 = Diff(sim, new)
        r2 = Diff(new, sim)
        obs['residual_empty'] = (r1.is_empty(ignore_apps=False) and r2.is_empty(ignore_apps=False))
        obs['residual'] = [str(r1), str(r2)]
    return obs
