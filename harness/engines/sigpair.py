"""C05: signature pairs from Hint.tla replayed on real ProjectSignatures:
real Diff, real Diff.evolution(), real simulate(), real __eq__."""

from __future__ import annotations

from ..absmodel import (NONE, as_dict, field_class, norm_mutation, norm_sig,
                        project_mutation, short)


def build_project_sig(sig, names):
    """Abstract signature -> real ProjectSignature by direct construction (the
    only way to state a default explicitly)."""
    from django.db import models
    from django_evolution.signature import (AppSignature, FieldSignature,
                                            IndexSignature, ModelSignature,
                                            ProjectSignature)
    sig = norm_sig(sig)
    ps = ProjectSignature()
    app_sig = AppSignature(app_id=names.app)
    ps.add_app_sig(app_sig)
    for mn in sorted(sig):
        ms = sig[mn]
        msig = ModelSignature(
            model_name=names.model(mn),
            table_name=names.table(ms['table']) if ms['table'].startswith('t_') else ms['table'],
            pk_column='id',
            unique_together=[tuple(names.field(x) for x in t) for t in ms['ut']],
            unique_together_applied=bool(ms.get('uta', True)),
            db_table_comment=ms.get('comment'),
            index_together=[tuple(names.field(x) for x in t) for t in (ms.get('it') or [])])
        for ix in ms.get('idx') or []:
            if ix.get('expr', NONE) not in (NONE, None):
                # an expression-only index has NO field list (fields is None)
                msig.add_index_sig(IndexSignature(fields=None, name=ix['name'],
                                                  expressions=[models.F(names.field(ix['expr']))]))
                continue
            msig.add_index_sig(IndexSignature(
                fields=[names.field(x) for x in ix['fields']],
                name=None if ix.get('name', NONE) == NONE else ix['name']))
        for c in ms.get('cons') or []:
            from django_evolution.signature import ConstraintSignature
            from ..absmodel import concrete_constraint
            d = concrete_constraint(c, names)
            typ, cname = d.pop('type'), d.pop('name')
            msig.add_constraint_sig(ConstraintSignature(name=cname, constraint_type=typ, attrs=d))
        for fn, fs in ms['fields'].items():
            attrs = dict(as_dict(fs['attrs']))
            msig.add_field_sig(FieldSignature(
                field_name=names.field(fn), field_type=field_class(fs['ftype']),
                field_attrs=attrs,
                related_model=None if fs['rel'] == NONE else names.rel(fs['rel'])))
        app_sig.add_model_sig(msig)
    return ps


def observe(rec, names):
    from django_evolution.diff import Diff
    from .. import modelgen
    old = build_project_sig(rec['old'], names)
    new = build_project_sig(rec['new'], names)
    obs = {}
    # Diff.evolution() looks the new models up in the app registry for defaults
    try:
        modelgen.build_models(rec['new'], names)
    except Exception as e:
        obs['models_error'] = '%s: %s' % (type(e).__name__, e)
    try:
        diff = Diff(old, new)
        obs['diff_str'] = str(diff)
        obs['diff_empty'] = diff.is_empty(ignore_apps=False)
        obs['rdiff_empty'] = Diff(new, old).is_empty(ignore_apps=False)
        obs['eq'] = bool(old == new)
        obs['self_diff_empty'] = Diff(new, new).is_empty(ignore_apps=False)
        clone = new.clone()
        obs['clone_ok'] = (Diff(new, clone).is_empty(ignore_apps=False) and
                           Diff(clone, new).is_empty(ignore_apps=False) and clone == new)
        mutations = diff.evolution().get(names.app, [])
        obs['hint'] = [project_mutation(m, names) for m in mutations]
        obs['hint_str'] = [str(m) for m in mutations]
    except Exception as e:
        import traceback
        obs['diff_error'] = traceback.format_exc(limit=5)
        return obs
    sim = old.clone()
    obs['sim_ok'] = True
    for m in mutations:
        try:
            m.run_simulation(app_label=names.app, legacy_app_label=names.app,
                             project_sig=sim, database_state=None, database='default')
        except Exception as e:
            obs['sim_ok'] = False
            obs['sim_error'] = '%s: %s' % (type(e).__name__, e)
            break
    if obs['sim_ok']:
        r1 = Diff(sim, new)
        r2 = Diff(new, sim)
        obs['residual_empty'] = (r1.is_empty(ignore_apps=False) and r2.is_empty(ignore_apps=False))
        obs['residual'] = [str(r1), str(r2)]
    return obs


def hint_write_roundtrip(rec, names_app='shop'):
    """The whole user workflow for one (old, new) model pair of Hint.tla: install the old
    models, deploy the new ones, `evolve --hint --write NAME`, list NAME in SEQUENCE,
    `evolve --execute`, then ask a fresh Evolver whether anything is left."""
    import os
    from ..absmodel import Names
    from ..djproj import Project, render_models
    names = Names(models={'A': 'Item', 'B': 'Tag', 'C': 'Zed'},
                  fields={'id': 'id', 'f': 'name', 'g': 'g', 'h': 'h', 'k': 'k'}, app=names_app)
    project = Project([names_app], tag='hintw')
    out = {}
    try:
        project.deploy(names_app, render_models(rec['old'], names, names_app), [])
        r0 = project.run({'action': 'evolve_api', 'project': False})
        if r0['outcome'] != 'ok':
            out['setup_error'] = (r0.get('error') or {}).get('msg')
            return out
        project.run({'action': 'insert_rows'})
        project.deploy(names_app, render_models(rec['new'], names, names_app), [])
        w = project.run({'action': 'command', 'name': 'evolve',
                         'options': {'hint': True, 'write_evolution_name': 'auto1',
                                     'interactive': False, 'verbosity': 1},
                         'project': False})
        out['write_outcome'] = w['outcome']
        out['write_error'] = (w.get('error') or {}).get('msg')
        path = os.path.join(project.root, names_app, 'evolutions', 'auto1.py')
        out['written'] = os.path.exists(path)
        if not out['written']:
            out['stdout'] = w.get('cmd_stdout', '')[-300:]
            return out
        with open(path) as fp:
            out['text'] = fp.read()
        with open(os.path.join(project.root, names_app, 'evolutions', '__init__.py'), 'w') as fp:
            fp.write("SEQUENCE = ['auto1']\n")
        x = project.run({'action': 'command', 'name': 'evolve',
                         'options': {'execute': True, 'interactive': False, 'verbosity': 0},
                         'project': False})
        out['exec_outcome'] = x['outcome']
        out['exec_error'] = (x.get('error') or {}).get('msg')
        out['exec_error_type'] = (x.get('error') or {}).get('type')
        a = project.run({'action': 'evolve_api', 'execute': False, 'project': False})
        out['after_required'] = a.get('required')
        out['after_diff_empty'] = a.get('diff_empty')
        out['after_error'] = (a.get('error') or {}).get('msg')
        return out
    finally:
        project.destroy()
