"""C09 part 2: projects with dependency declarations (EvoGraph.tla).

Each configuration (TLC-enumerated or sampled and evaluated by TLC) becomes a
real project: apps with applied / pending evolutions, new models, app-level
and per-evolution AFTER_/BEFORE_EVOLUTIONS.  The order of the creating_models /
applying_evolution signals of a real Evolver.evolve() is judged against the
requirements in force among pending units.
"""

from __future__ import annotations

import itertools
import json
import os

from ..djproj import Project, EVOLUTION_HEADER
from ..common import scratch_dir


def app_name(a):
    return 'app%d' % a


def models_src(a, nfields, with_tag):
    lines = ['from django.db import models', '', '',
             'class Item%d(models.Model):' % a,
             '    name = models.CharField(max_length=20)']
    for i in range(1, nfields + 1):
        lines.append('    f%d = models.IntegerField(null=True)' % i)
    lines += ['', '']
    if with_tag:
        lines += ['class Tag%d(models.Model):' % a,
                  '    title = models.CharField(max_length=15)', '', '']
    return '\n'.join(lines)


def deploy(project, a, version, with_tag, app_deps=None, evo_deps=None):
    evos = []
    for i in range(1, version + 1):
        evos.append({'label': 'e%d' % i,
                     'mutations_src': ["AddField('Item%d', 'f%d', models.IntegerField, null=True)" % (a, i)],
                     'deps': (evo_deps or {}).get(i)})
    project.deploy(app_name(a), models_src(a, version, with_tag), evos,
                   app_deps=app_deps)


def requirements(cfg):
    """The requirements in force among pending units (independent of the spec):
    set of (x, y) meaning x must be executed after y; units are tuples."""
    n = cfg['napps']
    applied = {a: cfg['applied'][a - 1] for a in range(1, n + 1)}
    pending = {a: cfg['pending'][a - 1] for a in range(1, n + 1)}
    newm = {a: cfg['newm'][a - 1] or (applied[a] == 0 and pending[a] == 0)
            for a in range(1, n + 1)}
    units = {}
    for a in range(1, n + 1):
        us = []
        if newm[a]:
            us.append(('model', a))
        for i in range(applied[a] + 1, applied[a] + pending[a] + 1):
            us.append(('evo', a, i))
        units[a] = us
    req = set()
    for a, us in units.items():
        for i in range(len(us)):
            for j in range(i + 1, len(us)):
                req.add((us[j], us[i]))
    for a, b in cfg['after']:
        for x in units[a]:
            for y in units[b]:
                req.add((x, y))
    for a, b in cfg['before']:
        for x in units[b]:
            for y in units[a]:
                req.add((x, y))
    for ent in cfg['eafter']:
        a, (b, i) = ent[0], ent[1]
        k = ent[2] if len(ent) > 2 else 1
        # the declaring evolution (the k-th pending one) and every later one of its app
        sources = [x for x in units[a] if x[0] == 'evo' and x[2] >= applied[a] + k]
        if i == 0:
            targets = list(units[b])            # a bare app label: everything of that app
        elif i > applied[b]:
            targets = [('evo', b, i)]
        else:
            targets = []
        for x in sources:
            for y in targets:
                req.add((x, y))
    allunits = [u for us in units.values() for u in us]
    return allunits, req


def unsatisfiable(allunits, req):
    deps = {u: set() for u in allunits}
    for x, y in req:
        deps[x].add(y)
    state = {}

    def visit(u):
        state[u] = 1
        for v in deps[u]:
            if state.get(v) == 1:
                return True
            if v not in state and visit(v):
                return True
        state[u] = 2
        return False
    return any(u not in state and visit(u) for u in allunits)


def run_config(cfg):
    """Build the project for one configuration and run the upgrade."""
    n = cfg['napps']
    applied = {a: cfg['applied'][a - 1] for a in range(1, n + 1)}
    pending = {a: cfg['pending'][a - 1] for a in range(1, n + 1)}
    newm = {a: cfg['newm'][a - 1] or (applied[a] == 0 and pending[a] == 0)
            for a in range(1, n + 1)}
    project = Project([app_name(a) for a in range(1, n + 1)], tag='c09')
    try:
        # step 1: everything that already exists
        existing = [a for a in range(1, n + 1) if applied[a] > 0 or pending[a] > 0]
        for a in existing:
            deploy(project, a, applied[a], with_tag=False)
        project.set_installed([app_name(a) for a in existing])
        if existing:
            r1 = project.run({'action': 'evolve_api', 'project': False, 'want_signature': False})
            if r1['outcome'] != 'ok':
                return {'setup_error': r1.get('error') or r1}
        # step 2: the deployment under test
        for a in range(1, n + 1):
            app_deps = {}
            aft = [app_name(b) for (x, b) in cfg['after'] if x == a]
            bef = [app_name(b) for (x, b) in cfg['before'] if x == a]
            if aft:
                app_deps['AFTER_EVOLUTIONS'] = aft
            if bef:
                app_deps['BEFORE_EVOLUTIONS'] = bef
            evo_deps = {}
            for ent in cfg['eafter']:
                x, (b, i) = ent[0], ent[1]
                k = ent[2] if len(ent) > 2 else 1
                if x == a:
                    dep = app_name(b) if i == 0 else (app_name(b), 'e%d' % i)
                    evo_deps.setdefault(applied[a] + k, {'AFTER_EVOLUTIONS': []})['AFTER_EVOLUTIONS'].append(dep)
            deploy(project, a, applied[a] + pending[a], with_tag=newm[a],
                   app_deps=app_deps or None, evo_deps=evo_deps)
        project.set_installed([app_name(a) for a in range(1, n + 1)])
        res = project.run({'action': 'evolve_api', 'project': False, 'want_signature': False})
        order = []
        for e in res['events']:
            if e['ev'] == 'creating_models' and e.get('app', '').startswith('app'):
                order.append(('model', int(e['app'][3:])))
            elif e['ev'] == 'applying_evolution' and e.get('app', '').startswith('app'):
                for lab in e['labels']:
                    order.append(('evo', int(e['app'][3:]), int(lab[1:])))
        batches = res.get('batches')
        # rebuilds of each app's Item table (a rebuild drops the old table)
        rebuilds = {}
        for e in res['events']:
            if e['ev'] == 'stmt':
                for a in range(1, n + 1):
                    if (e.get('sql') or '').startswith('DROP TABLE "app%d_item%d"' % (a, a)):
                        rebuilds[a] = rebuilds.get(a, 0) + 1
        return {'outcome': res['outcome'], 'rebuilds': rebuilds,
                'error_type': (res.get('error') or {}).get('type'),
                'error_msg': ((res.get('error') or {}).get('msg') or '')[:300],
                'order': order, 'batches': batches,
                'book': res['post']['default']['book']['evolutions']}
    finally:
        project.destroy()


def judge(cfg, obs):
    """C09 oracle on the real executed order.  Returns list of (class, detail)."""
    out = []
    allunits, req = requirements(cfg)
    unsat = unsatisfiable(allunits, req)
    if obs['outcome'] != 'ok':
        if not unsat:
            out.append(('satisfiable-rejected', obs['error_msg']))
        return out, unsat
    if unsat:
        out.append(('unsatisfiable-not-reported', None))
        return out, unsat
    order = obs['order']
    if sorted(order) != sorted(allunits):
        missing = sorted(set(allunits) - set(order))
        twice = sorted(set(u for u in order if order.count(u) > 1))
        extra = sorted(set(order) - set(allunits))
        out.append(('unit-not-executed-exactly-once',
                    {'missing': missing, 'twice': twice, 'extra': extra}))
        return out, unsat
    pos = {u: i for i, u in enumerate(order)}
    broken = sorted((x, y) for (x, y) in req if pos[x] < pos[y])
    if broken:
        kinds = sorted(set('%s-after-%s' % (x[0], y[0]) for x, y in broken))
        out.append(('requirement-broken', {'broken': broken[:6], 'kinds': kinds}))
    return out, unsat


def spread_failures(cfg, obs):
    """C18 across evolutions and apps: every evolution of the family adds one nullable column to the
    app's Item table, so all pending evolutions of an app are mergeable: the table is rebuilt ONCE
    when the app's evolutions are not interleaved with another app's, and never more often than the
    app has pending evolutions.  Returns list of (class, detail)."""
    out = []
    if obs['outcome'] != 'ok':
        return out
    n = cfg['napps']
    evos = [u for u in obs['order'] if u[0] == 'evo']
    for a in range(1, n + 1):
        pend = cfg['pending'][a - 1]
        if pend == 0:
            continue
        got = obs['rebuilds'].get(a, 0)
        idx = [i for i, u in enumerate(evos) if u[1] == a]
        contiguous = bool(idx) and all(evos[i][1] == a for i in range(idx[0], idx[-1] + 1))
        if got > pend:
            out.append(('more-rebuilds-than-one-at-a-time', {'app': a, 'rebuilds': got, 'pending': pend}))
        elif contiguous and got != 1:
            out.append(('mergeable-evolutions-rebuilt-more-than-once',
                        {'app': a, 'rebuilds': got, 'pending': pend}))
    return out


def interleave_configs():
    """Hand-shaped projects (evaluated by TLC like the sampled ones): an interleaved order that is
    split into several batches, followed by a model creation and further evolutions of the apps the
    split concerns."""
    out = []
    # app1: e1, e2 (after app2.e1), e3 (after the brand-new app3); app2: e1
    out.append({'napps': 3, 'applied': [0, 0, 0], 'pending': [3, 1, 0], 'newm': [False, False, True],
                'after': [], 'before': [], 'eafter': [[1, [2, 1], 2], [1, [3, 0], 3]]})
    # the same with evolutions already applied
    out.append({'napps': 3, 'applied': [1, 1, 0], 'pending': [3, 1, 0], 'newm': [False, False, True],
                'after': [], 'before': [], 'eafter': [[1, [2, 2], 2], [1, [3, 0], 3]]})
    # two interleaves in a row, then a new model of app2 itself
    out.append({'napps': 3, 'applied': [1, 1, 1], 'pending': [3, 2, 1], 'newm': [False, True, False],
                'after': [], 'before': [], 'eafter': [[1, [2, 2], 2], [2, [3, 2], 2]]})
    # interleave, then an app-level dependency brings a new app's models before the last evolution
    out.append({'napps': 3, 'applied': [0, 1, 0], 'pending': [2, 2, 0], 'newm': [True, False, True],
                'after': [], 'before': [], 'eafter': [[2, [1, 1], 2], [1, [3, 0], 2]]})
    # a split, then a model creation, then an evolution of a THIRD app that has to wait for the
    # evolution the split moved into the later batch
    out.append({'napps': 3, 'applied': [0, 0, 1], 'pending': [2, 1, 1], 'newm': [False, False, True],
                'after': [], 'before': [], 'eafter': [[1, [2, 1], 2], [3, [1, 2], 1]]})
    out.append({'napps': 3, 'applied': [1, 1, 1], 'pending': [2, 1, 1], 'newm': [False, False, True],
                'after': [], 'before': [], 'eafter': [[1, [2, 2], 2], [3, [1, 3], 1]]})
    # declarations inside the app's OWN sequence: redundant (earlier target) ...
    out.append({'napps': 3, 'applied': [1, 0, 0], 'pending': [3, 1, 0], 'newm': [False, False, True],
                'after': [], 'before': [], 'eafter': [[1, [1, 2], 2], [1, [1, 1], 3]]})
    # ... contradicting the SEQUENCE (a later target; the bare own label)
    out.append({'napps': 3, 'applied': [0, 0, 0], 'pending': [2, 1, 0], 'newm': [False, False, True],
                'after': [], 'before': [], 'eafter': [[1, [1, 2], 1]]})
    out.append({'napps': 3, 'applied': [1, 1, 0], 'pending': [3, 1, 0], 'newm': [False, False, True],
                'after': [], 'before': [], 'eafter': [[1, [1, 4], 2]]})
    out.append({'napps': 3, 'applied': [1, 1, 0], 'pending': [2, 1, 0], 'newm': [True, False, True],
                'after': [], 'before': [], 'eafter': [[1, [1, 0], 1]]})
    return out


def sample_configs(rng, napps, count, maxpending=3):
    """Seeded random configurations for NApps beyond the exhaustive bound (TLC
    evaluates the transcription on exactly these)."""
    out = []
    apps = list(range(1, napps + 1))
    pairs = [(a, b) for a in apps for b in apps if a != b]
    while len(out) < count:
        applied = [rng.randint(0, 1) for _ in apps]
        pending = [rng.randint(0, maxpending) for _ in apps]
        newm = [rng.random() < 0.4 for _ in apps]
        for i in range(napps):
            if applied[i] == 0 and pending[i] == 0:
                newm[i] = True
        k = rng.randint(0, 3)
        deps = rng.sample(pairs, min(k, len(pairs)))
        after, before = [], []
        for d in deps:
            (after if rng.random() < 0.6 else before).append(list(d))
        eafter = []
        # per-evolution declarations: up to two, on ANY pending evolution, naming an evolution of
        # another app or the app as a whole
        for _n in range(rng.choice([0, 0, 1, 1, 2])):
            cands = [a for a in apps if pending[a - 1] > 0]
            if cands:
                a = rng.choice(cands)
                # one in four names the app's OWN evolutions (redundant when earlier in SEQUENCE,
                # contradictory - to be reported - when later, or when it is the bare own label)
                b = a if rng.random() < 0.25 else rng.choice([x for x in apps if x != a])
                tot = applied[b - 1] + pending[b - 1]
                kk = rng.randint(1, pending[a - 1])
                if rng.random() < 0.3:
                    ent = [a, [b, 0], kk]
                elif tot > 0:
                    ent = [a, [b, rng.randint(1, tot)], kk]
                else:
                    continue
                if b == a and ent[1][1] == applied[a - 1] + kk:
                    continue        # an evolution naming itself: not a requirement between two units
                if ent not in eafter:
                    eafter.append(ent)
        out.append({'napps': napps, 'applied': applied, 'pending': pending, 'newm': newm,
                    'after': after, 'before': before, 'eafter': eafter})
    return out
