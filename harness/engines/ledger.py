"""Upgrade runs interleaved with mark-evolution-applied / wipe-evolution
(Ledger.tla, property C08)."""

from __future__ import annotations

import json

from ..djproj import Project
from ..histories import chain_history

APP = {'a1': 'shop', 'a2': 'blog'}


def key_of(hist):
    return json.dumps(hist, sort_keys=True)


def replay(rec, expected):
    hists = {'a1': chain_history('shop', 2, variant=0), 'a2': chain_history('blog', 2, variant=1)}
    project = Project(['shop', 'blog'], tag='ledger')
    project.set_installed([])
    installed = []
    out = {'steps': [], 'errors': []}
    try:
        execs = {a: {} for a in APP}
        prev_rows = []
        deployed = {}           # app -> deployed version
        seen = set()            # apps a completed run has dealt with
        for i, op in enumerate(rec['hist']):
            exp = expected.get(key_of(rec['hist'][:i + 1]))
            st = {'index': i, 'op': op, 'expected': exp}
            if op['op'] == 'deploy':
                a = op['app']
                if APP[a] not in installed:
                    installed.append(APP[a])
                    installed.sort(key=lambda x: ['shop', 'blog'].index(x))
                    project.set_installed(installed)
                hists[a].deploy(project, op['v'])
                deployed[a] = op['v']
                continue
            if op['op'] in ('run', 'runonly', 'runfail', 'runhint'):
                st['fresh'] = {a: v for a, v in deployed.items() if a not in seen}
                if op['op'] == 'runhint':
                    res = project.run({'action': 'command', 'name': 'evolve',
                                       'options': {'hint': True, 'execute': True, 'interactive': False,
                                                   'verbosity': 0}})
                elif op['op'] == 'runfail':
                    res = project.run({'action': 'command', 'name': 'evolve',
                                       'options': {'execute': True, 'interactive': False, 'verbosity': 0},
                                       'fault': {'at': 1, 'scope': 'batch'}})
                    st['fault_fired'] = bool(res.get('fault_fired'))
                elif op['op'] == 'run':
                    res = project.run({'action': 'command', 'name': 'evolve',
                                       'options': {'execute': True, 'interactive': False, 'verbosity': 0}})
                else:
                    # limited to one app: only the API can do that (the command refuses app labels
                    # together with --execute); like the command, evolve only if required and only
                    # if the simulation resolves every change
                    res = project.run({'action': 'evolve_api', 'apps': [APP[a] for a in op['apps']],
                                       'only_if_required': True, 'only_if_resolved': True})
                sigs = [e['ev'] for e in res['events']]
                executed = {a: [] for a in APP}
                for e in res['events']:
                    if e['ev'] == 'applying_evolution':
                        a = [k for k, v in APP.items() if v == e.get('app')][0]
                        executed[a] += [int(l[1:]) for l in e.get('labels') or [] if l[1:].isdigit()]
                ours = any(e['ev'] in ('creating_models', 'applying_evolution') and e.get('app') in APP.values()
                           for e in res['events'])
                now = sorted(tuple(r[:2]) for r in res['post']['default']['book']['evolutions']
                             if r[0] in APP.values())
                if res['outcome'] == 'ok' and 'evolved' in sigs and (ours or now != prev_rows):
                    st['outcome'] = 'executed'
                elif res['outcome'] == 'ok':
                    st['outcome'] = 'nothing'
                elif 'evolving' not in sigs:
                    st['outcome'] = 'rejected'
                else:
                    st['outcome'] = 'failed'
                if op['op'] == 'runfail':
                    # announced, not completed: only applied_evolution counts as an execution
                    executed = {a: [] for a in APP}
                    for e in res['events']:
                        if e['ev'] == 'applied_evolution':
                            a = [k for k, v in APP.items() if v == e.get('app')][0]
                            executed[a] += [int(l[1:]) for l in e.get('labels') or []]
                st['executed'] = {a: sorted(v) for a, v in executed.items()}
                if st['outcome'] in ('executed', 'nothing'):
                    seen |= set(deployed) if op['op'] != 'runonly' else set(op['apps'])
                for a, ls in executed.items():
                    for l in ls:
                        execs[a][l] = execs[a].get(l, 0) + 1
                st['error'] = (res.get('error') or {}).get('msg')
            else:
                if op['op'] == 'mark':
                    req = {'action': 'command', 'name': 'mark-evolution-applied',
                           'args': ['e%d' % op['label']],
                           'options': {'app_label': APP[op['app']], 'interactive': False}}
                elif op['op'] == 'markall':
                    req = {'action': 'command', 'name': 'mark-evolution-applied',
                           'options': {'app_label': APP[op['app']], 'interactive': False,
                                       'apply_all': True}}
                else:
                    opts = {'interactive': False}
                    if op['scoped']:
                        opts['app_label'] = APP[op['app']]
                    req = {'action': 'command', 'name': 'wipe-evolution',
                           'args': ['e%d' % op['label']], 'options': opts}
                res = project.run(req)
                st['ok'] = res['outcome'] == 'ok'
                st['error'] = (res.get('error') or {}).get('msg')
            rows = {a: {} for a in APP}
            for app_label, label, _v in res['post']['default']['book']['evolutions']:
                for a, real in APP.items():
                    if app_label == real:
                        n = int(label[1:])
                        rows[a][n] = rows[a].get(n, 0) + 1
            st['rows'] = rows
            st['execs'] = {a: dict(v) for a, v in execs.items()}
            out['steps'].append(st)
            prev_rows = sorted(tuple(r[:2]) for r in res['post']['default']['book']['evolutions']
                               if r[0] in APP.values())
        # what the user is told: list-evolutions must list exactly the recorded rows
        if out['steps'] and installed:
            ls = project.run({'action': 'command', 'name': 'list-evolutions'})
            listed = {a: {} for a in APP}
            cur = None
            for line in (ls.get('stdout') or '').splitlines():
                if line.startswith('Applied evolutions for '):
                    name = line.split("'")[1]
                    cur = [k for k, v in APP.items() if v == name]
                    cur = cur[0] if cur else None
                elif line.startswith('    ') and cur:
                    lab = line.strip()
                    if lab.startswith('e') and lab[1:].isdigit():
                        listed[cur][int(lab[1:])] = listed[cur].get(int(lab[1:]), 0) + 1
            out['listed'] = listed
            out['list_outcome'] = ls['outcome']
        return out
    finally:
        project.destroy()
