"""Preview vs execution and hash-seed determinism (Preview.tla, property C14).

A pending upgrade is realised as a synthetic project at version v whose
database is at version i < v.  `evolve --sql` and `evolve --execute` run in
separate interpreters under several PYTHONHASHSEED values, always on copies of
the same database files.
"""

from __future__ import annotations

import re

from ..absmodel import NONE, Names
from ..histories import AppHistory, fld, model, mu

PALETTES = [
    {'str': 'init', 'int': 7},
    {'str': "it's 100% \"q\"", 'int': -3},
]


def set_history(app, variant=0):
    """Item(name, g, h, k): evolutions whose lowering iterates over SETS of
    unique_together / index_together entries with two or more members (the
    hazard HasMultiEntrySet of Preview.tla), next to plain field changes."""
    names = Names(models={'A': 'Item', 'B': 'Tag', 'C': 'Zed'},
                  fields={'id': 'id', 'f': 'name', 'g': 'g', 'h': 'h', 'k': 'k',
                          'f1': 'f1', 'f2': 'f2', 'f3': 'f3', 'f4': 'f4',
                          't': 'title'}, app=app)
    base = {'A': model('A', {'f': fld('Char', max_length=20), 'g': fld('Int'),
                             'h': fld('Int'), 'k': fld('Int', null=True)})}
    uts = [[['f', 'g'], ['g', 'h'], ['h', 'k']],
           [['f', 'k']],
           [['f', 'g'], ['f', 'h'], ['g', 'k'], ['h', 'k']],
           []]
    its = [[['f', 'h'], ['g', 'k'], ['f', 'k']],
           [],
           [['g', 'h'], ['h', 'k'], ['f', 'g']],
           [['f', 'g']]]
    evolutions = []
    for i in range(1, 5):
        muts = []
        if variant in (0, 2, 3):
            muts.append(mu(k='Meta', m='A', prop='unique_together', val=uts[i - 1]))
        if variant in (1, 2, 3):
            muts.append(mu(k='Meta', m='A', prop='index_together', val=its[i - 1]))
        if i % 2 == 0 and variant == 3:
            # hintable without user input
            muts.append(mu(k='Add', m='A', f='f%d' % i, ftype='Int',
                           attrs={'null': True}, init=NONE))
        elif i % 2 == 0:
            muts.append(mu(k='Add', m='A', f='f%d' % i, ftype='Char',
                           attrs={'max_length': 30}, init='i'))
        elif variant in (0, 1):
            # a boolean parameter (the `param` steps of Preview.tla): True in e1, False in e3 - what
            # the statement shows and binds is the database's own value, 1 / 0
            muts.append(mu(k='Add', m='A', f='f%d' % i, ftype='Bool', attrs={},
                           init='i' if i == 1 else 'z'))
        evolutions.append({'label': 'e%d' % i, 'mutations': muts})
    return AppHistory(app, names, base, evolutions)


def rename_index_history(app):
    """Item(name, g): the model is renamed to a new table, and only then indexes are
    added on the renamed table by operations that are not part of a table rebuild (they
    consult the tracked database state, which the preview computes on a clone)."""
    names = Names(models={'A': 'Item', 'B': 'Tag', 'C': 'Zed'},
                  fields={'id': 'id', 'f': 'name', 'g': 'g', 'f1': 'f1', 't': 'title'}, app=app)
    base = {'A': model('A', {'f': fld('Char', max_length=20), 'g': fld('Int', null=True)})}
    evolutions = [
        {'label': 'e1', 'mutations': [mu(k='Add', m='A', f='f1', ftype='Int', attrs={'null': True}, init=NONE)]},
        {'label': 'e2', 'mutations': [mu(k='RenM', m='A', om='A', nm='C', dbtable='t_C')]},
        {'label': 'e3', 'mutations': [mu(k='Chg', m='C', f='g', attrs={'db_index': True})]},
        {'label': 'e4', 'mutations': [mu(k='Meta', m='C', prop='unique_together', val=[['f', 'f1']])]},
    ]
    return AppHistory(app, names, base, evolutions)


def duplicate_index_history(app):
    """Item(name, g, h): columns that carry TWO indexes over the same column list
    (db_index=True next to a Meta.indexes / index_together entry), and evolutions that
    drop one of them by looking the index up by its columns (the `lookup` steps of
    Preview.tla)."""
    names = Names(models={'A': 'Item', 'B': 'Tag', 'C': 'Zed'},
                  fields={'id': 'id', 'f': 'name', 'g': 'g', 'h': 'h', 't': 'title'}, app=app)
    a = model('A', {'f': fld('Char', max_length=20, db_index=True),
                    'g': fld('Int', db_index=True),
                    'h': fld('Int', db_index=True)})
    a['idx'] = [{'name': 'item_name_idx', 'fields': ['f'], 'cond': NONE},
                {'name': NONE, 'fields': ['h'], 'cond': NONE}]
    a['it'] = [['g']]
    base = {'A': a}
    evolutions = [
        {'label': 'e1', 'mutations': [mu(k='Chg', m='A', f='f', attrs={'db_index': False})]},
        {'label': 'e2', 'mutations': [mu(k='Meta', m='A', prop='index_together', val=[])]},
        {'label': 'e3', 'mutations': [mu(k='Chg', m='A', f='h', attrs={'db_index': False})]},
        {'label': 'e4', 'mutations': [mu(k='Meta', m='A', prop='indexes', ival=[])]},
    ]
    return AppHistory(app, names, base, evolutions)


# ---------------------------------------------------------------------------
# the documented substitution rule (utils/sql.py run_sql(capture=True),
# db/common.py quote_sql_param), restated independently

def render_statement(sql, params):
    if not params:
        return sql

    def q(p):
        if isinstance(p, str):
            return "'%s'" % p.replace("'", "\\'")
        return p
    return sql % tuple(q(p) for p in params)


def preview_statements(stdout):
    """Statements (in order) of an `evolve --sql` output, per app."""
    out = []
    for line in stdout.splitlines():
        s = line.strip()
        if not s or s.startswith('--'):
            continue
        out.append(s)
    return out


def executed_statements(events):
    """Statements executed between applying_evolution and applied_evolution."""
    out = []
    inside = False
    for e in events:
        if e['ev'] == 'applying_evolution':
            inside = True
        elif e['ev'] == 'applied_evolution':
            inside = False
        elif e['ev'] == 'stmt' and inside:
            out.append(render_statement(e['sql'], e.get('params')))
    return out


def norm_stmt(s):
    return re.sub(r';\s*$', '', s.strip())


# ---------------------------------------------------------------------------
# scenarios

def scenarios(tier):
    """(name, {app: history}, {app: start version}, {app: target version}, palette)"""
    from .runs import make_histories
    out = []
    nset = 4
    for variant in (0, 1, 2, 3):
        h = set_history('shop', variant)
        for i in range(0, nset):
            for v in range(i + 1, nset + 1):
                if tier == 'quick' and v - i > 2 and (i + v + variant) % 2:
                    continue
                out.append(('set%d:%d->%d' % (variant, i, v), {'a1': h}, {'a1': i},
                            {'a1': v}, PALETTES[(i + v) % 2]))
    h = rename_index_history('shop')
    for i in range(0, 4):
        for v in range(max(i + 1, 3), 5):
            out.append(('renidx:%d->%d' % (i, v), {'a1': h}, {'a1': i}, {'a1': v}, PALETTES[0]))
    h = duplicate_index_history('shop')
    for i in range(0, 4):
        for v in range(i + 1, 5):
            if tier == 'quick' and v - i > 2:
                continue
            out.append(('dupidx:%d->%d' % (i, v), {'a1': h}, {'a1': i}, {'a1': v}, PALETTES[0]))
    maxver = 3 if tier == 'quick' else 4
    for variant in ((0, 1, 'rename') if tier == 'quick' else (0, 1, 2, 'rename')):
        if variant == 'rename':
            # app a2 renames its model to a new table and then changes an index on it
            hs = make_histories(maxver, variant=0, groups=True, a2_variant=3)
            variant = 3
        else:
            hs = make_histories(maxver, variant=variant, groups=True)
        for i1 in range(0, maxver):
            for i2 in range(0, maxver + 1):
                if tier == 'quick' and (i1 + i2 + variant) % 2:
                    continue
                out.append(('chain%d:%d,%d->%d' % (variant, i1, i2, maxver), hs,
                            {'a1': i1, 'a2': i2}, {'a1': maxver, 'a2': maxver},
                            PALETTES[(i1 + i2) % 2]))
    return out


def run_scenario(sc, seeds, start_modes=('fresh',)):
    """Returns a list of observation dicts (one per start mode)."""
    from ..djproj import Project
    name, hs, start, target, palette = sc
    out = []
    for mode in start_modes:
        p = Project([h.app for h in hs.values()], tag='c14')
        obs = {'scenario': name, 'start_mode': mode, 'seeds': {}, 'errors': []}
        try:
            if mode == 'stepwise':
                for a, h in hs.items():
                    h.deploy(p, 0, palette=palette)
                r = p.run({'action': 'evolve_api'})
                if r['outcome'] != 'ok':
                    obs['errors'].append(('install', r.get('error') or r))
            for a, h in hs.items():
                h.deploy(p, start[a], palette=palette)
            r = p.run({'action': 'evolve_api'})
            if r['outcome'] != 'ok':
                obs['errors'].append(('start', r.get('error') or r))
                out.append(obs)
                continue
            snap = p.copy_dbs('start')
            # hints: the models of the target version, the evolutions of the start version
            for seed in seeds:
                so = {}
                for a, h in hs.items():
                    h.deploy(p, target[a], palette=palette)
                p.restore_dbs(snap)
                r = p.run({'action': 'command', 'name': 'evolve',
                           'options': {'compile_sql': True, 'interactive': False},
                           'fault_anywhere': False, 'project': False,
                           'want_signature': False}, hashseed=seed)
                so['preview_outcome'] = r['outcome']
                so['preview_error'] = (r.get('error') or {}).get('msg') if r['outcome'] != 'ok' else None
                so['preview_stdout'] = r.get('cmd_stdout', '')
                so['preview_wrote'] = [e['sql'][:120] for e in r.get('events', [])
                                       if e['ev'] == 'stmt']
                p.restore_dbs(snap)
                r = p.run({'action': 'command', 'name': 'evolve',
                           'options': {'execute': True, 'interactive': False},
                           'fault_anywhere': False, 'sql_limit': 1000000,
                           'project': False, 'want_signature': False}, hashseed=seed)
                so['exec_outcome'] = r['outcome']
                so['exec_error'] = (r.get('error') or {}).get('msg') if r['outcome'] != 'ok' else None
                so['executed'] = executed_statements(r.get('events', []))
                so['all_executed'] = [render_statement(e['sql'], e.get('params'))
                                      for e in r.get('events', []) if e['ev'] == 'stmt']
                # hint output: target models with only the start version's evolutions
                from ..djproj import render_models
                for a, h in hs.items():
                    h.deploy(p, start[a], palette=palette)
                    with open('%s/%s/models.py' % (p.root, h.app), 'w') as fp:
                        fp.write(render_models(h.versions[target[a]], h.names, h.app))
                p.restore_dbs(snap)
                r = p.run({'action': 'command', 'name': 'evolve',
                           'options': {'hint': True, 'interactive': False},
                           'fault_anywhere': False, 'project': False,
                           'want_signature': False}, hashseed=seed)
                so['hint_outcome'] = r['outcome']
                so['hint_stdout'] = r.get('cmd_stdout', '')
                r = p.run({'action': 'command', 'name': 'evolve',
                           'options': {'hint': True, 'compile_sql': True,
                                       'interactive': False},
                           'fault_anywhere': False, 'project': False,
                           'want_signature': False}, hashseed=seed)
                so['hint_sql_outcome'] = r['outcome']
                so['hint_sql_stdout'] = r.get('cmd_stdout', '')
                obs['seeds'][seed] = so
        finally:
            p.destroy()
        out.append(obs)
    return out


# ---------------------------------------------------------------------------
# split tasks: an app's pending evolutions spread over several batches because a migration
# (or another app's evolution) has to run in-between (the `cut` of Preview.tla)

SPLIT_CONFIGS = [
    # e3 of app 1 must come after migration (3, 2): batches [e2] [mig] [e3, other app]
    {'epending': {1: 2, 2: 1}, 'gapplied': {3: 1, 4: 2}, 'decls': [('eam', 1, 3, 3, 2)]},
    # e2 before the migration, e3 after it
    {'epending': {1: 2, 2: 0}, 'gapplied': {3: 1, 4: 2}, 'decls': [('ebm', 1, 2, 3, 2), ('eam', 1, 3, 3, 2)]},
    # both apps split around migrations of both migration apps
    {'epending': {1: 2, 2: 2}, 'gapplied': {3: 1, 4: 1}, 'decls': [('eam', 1, 3, 3, 2), ('eam', 2, 3, 4, 2)]},
    # no split (control): app-level declaration only
    {'epending': {1: 2, 2: 1}, 'gapplied': {3: 1, 4: 2}, 'decls': [('aam', 1, 0, 3, 2)]},
]


def run_split_scenario(idx, seeds):
    from . import miggraph as M
    from ..djproj import Project
    cfg = SPLIT_CONFIGS[idx]
    ep, ga, decls = cfg['epending'], cfg['gapplied'], cfg['decls']
    apps = [M.eapp(1), M.eapp(2), M.gapp(3), M.gapp(4)]
    obs = {'scenario': 'split:%d' % idx, 'start_mode': 'fresh', 'seeds': {}, 'errors': []}
    p = Project(apps, tag='c14s')
    try:
        for a in (1, 2):
            M.deploy_e(p, a, 1, decls, False)
        for g in (3, 4):
            if ga[g] > 0:
                M.deploy_g(p, g, ga[g], decls, ga)
        p.set_installed([M.eapp(1), M.eapp(2)] + [M.gapp(g) for g in (3, 4) if ga[g] > 0])
        r = p.run({'action': 'evolve_api', 'project': False, 'want_signature': False})
        if r['outcome'] != 'ok':
            obs['errors'].append(('start', (r.get('error') or {}).get('msg')))
            return [obs]
        for a in (1, 2):
            M.deploy_e(p, a, 1 + ep[a], decls, True)
        for g in (3, 4):
            M.deploy_g(p, g, M.GLEN, decls, {3: M.GLEN, 4: M.GLEN})
        p.set_installed(apps)
        snap = p.copy_dbs('start')
        for seed in seeds:
            so = {}
            p.restore_dbs(snap)
            r = p.run({'action': 'command', 'name': 'evolve',
                       'options': {'compile_sql': True, 'interactive': False},
                       'fault_anywhere': False, 'project': False, 'want_signature': False}, hashseed=seed)
            so['preview_outcome'] = r['outcome']
            so['preview_error'] = (r.get('error') or {}).get('msg') if r['outcome'] != 'ok' else None
            so['preview_stdout'] = r.get('cmd_stdout', '')
            so['preview_wrote'] = [e['sql'][:120] for e in r.get('events', []) if e['ev'] == 'stmt']
            p.restore_dbs(snap)
            r = p.run({'action': 'command', 'name': 'evolve',
                       'options': {'execute': True, 'interactive': False},
                       'fault_anywhere': False, 'sql_limit': 1000000,
                       'project': False, 'want_signature': False}, hashseed=seed)
            so['exec_outcome'] = r['outcome']
            so['exec_error'] = (r.get('error') or {}).get('msg') if r['outcome'] != 'ok' else None
            so['executed'] = executed_statements(r.get('events', []))
            so['all_executed'] = [render_statement(e['sql'], e.get('params'))
                                  for e in r.get('events', []) if e['ev'] == 'stmt']
            so['hint_outcome'] = so['hint_sql_outcome'] = 'n/a'
            so['hint_stdout'] = so['hint_sql_stdout'] = ''
            obs['seeds'][seed] = so
    finally:
        p.destroy()
    return [obs]
