"""C09 part 3: evolutions and Django migrations in one upgrade (MigGraph.tla).

Every configuration TLC enumerates becomes a real project: two evolution apps,
two migration apps with (partly applied) migration chains, and ordering
declarations between them.  The order of applying_evolution /
applying_migration signals of the real upgrade is judged against the
requirement set the specification computed."""

from __future__ import annotations

from ..djproj import Project

GLEN = 2


def eapp(a):
    return 'eapp%d' % a


def gapp(g):
    return 'gapp%d' % g


def mig_name(n):
    return '0001_initial' if n == 1 else '%04d_m%d' % (n, n - 1)


def e_models(a, version, hollow=()):
    lines = ['from django.db import models', '', '', 'class Item%d(models.Model):' % a,
             '    name = models.CharField(max_length=20)']
    for i in range(1, version + 1):
        if ('evo', a, i) in hollow:
            continue
        lines.append('    f%d = models.IntegerField(null=True)' % i)
    return '\n'.join(lines) + '\n'


def g_models(g, nmig):
    lines = ['from django.db import models', '', '', 'class Thing%d(models.Model):' % g,
             '    name = models.CharField(max_length=20)']
    for n in range(2, nmig + 1):
        lines.append('    m%d = models.IntegerField(null=True)' % (n - 1))
    return '\n'.join(lines) + '\n'


def g_migration(g, n, extra_deps):
    deps = list(extra_deps)
    if n > 1:
        deps.insert(0, (gapp(g), mig_name(n - 1)))
    if n == 1:
        ops = ("migrations.CreateModel(name='Thing%d', fields=[('id', models.AutoField(auto_created=True, "
               "primary_key=True, serialize=False, verbose_name='ID')), "
               "('name', models.CharField(max_length=20))])" % g)
        head = '    initial = True\n'
    else:
        ops = ("migrations.AddField(model_name='thing%d', name='m%d', "
               "field=models.IntegerField(null=True))" % (g, n - 1))
        head = ''
    return ('from django.db import migrations, models\n\n\nclass Migration(migrations.Migration):\n'
            '%s    dependencies = %r\n    operations = [%s]\n' % (head, deps, ops))


def deploy_e(project, a, version, decls, with_decls, hollow=()):
    evos = []
    app_deps = {}
    for i in range(1, version + 1):
        deps = {}
        if with_decls:
            for d in decls:
                if d[0] in ('eam', 'ebm') and d[1] == a and d[2] == i:
                    key = 'AFTER_MIGRATIONS' if d[0] == 'eam' else 'BEFORE_MIGRATIONS'
                    deps.setdefault(key, []).append((gapp(d[3]), mig_name(d[4])))
                if d[0] == 'eae' and d[1] == a and d[2] == i:
                    deps.setdefault('AFTER_EVOLUTIONS', []).append((eapp(d[3]), 'e%d' % d[4]))
        evos.append({'label': 'e%d' % i,
                     'mutations_src': [] if ('evo', a, i) in hollow else
                     ["AddField('Item%d', 'f%d', models.IntegerField, null=True)" % (a, i)],
                     'deps': deps or None})
    if with_decls:
        for d in decls:
            if d[0] in ('aam', 'abm') and d[1] == a:
                key = 'AFTER_MIGRATIONS' if d[0] == 'aam' else 'BEFORE_MIGRATIONS'
                app_deps.setdefault(key, []).append((gapp(d[3]), mig_name(d[4])))
    project.deploy(eapp(a), e_models(a, version, hollow), evos, app_deps=app_deps or None)


def deploy_g(project, g, nmig, decls, available):
    """available: {h: number of migrations of app h present on disk}"""
    migs = []
    for n in range(1, nmig + 1):
        extra = []
        for d in decls:
            if d[0] == 'md' and d[1] == g and d[2] == n and available.get(d[3], 0) >= d[4]:
                extra.append((gapp(d[3]), mig_name(d[4])))
        migs.append((mig_name(n), g_migration(g, n, extra)))
    project.deploy(gapp(g), g_models(g, nmig), None, migrations=migs)


def run_config(rec):
    ep = {int(k): v for k, v in rec['epending'].items()} if isinstance(rec['epending'], dict) \
        else {i + 1: v for i, v in enumerate(rec['epending'])}
    ga = {int(k): v for k, v in rec['gapplied'].items()} if isinstance(rec['gapplied'], dict) \
        else {i + 3: v for i, v in enumerate(rec['gapplied'])}
    decls = [tuple(d) for d in rec['decls']]
    hollow = set(tuple(u) for u in rec.get('hollow') or [])
    apps = [eapp(1), eapp(2), gapp(3), gapp(4)]
    project = Project(apps, tag='c09m')
    try:
        # step 1: what already exists
        step1 = [eapp(1), eapp(2)] + [gapp(g) for g in (3, 4) if ga[g] > 0]
        for a in (1, 2):
            deploy_e(project, a, 1, decls, with_decls=False)
        for g in (3, 4):
            if ga[g] > 0:
                deploy_g(project, g, ga[g], decls, {h: ga[h] for h in (3, 4)})
        project.set_installed(step1)
        r1 = project.run({'action': 'evolve_api', 'project': False, 'want_signature': False})
        if r1['outcome'] != 'ok':
            return {'setup_error': (r1.get('error') or {}).get('msg') or str(r1)[:300]}
        # step 2: the deployment under test
        for a in (1, 2):
            deploy_e(project, a, 1 + ep[a], decls, with_decls=True, hollow=hollow)
        for g in (3, 4):
            deploy_g(project, g, GLEN, decls, {3: GLEN, 4: GLEN})
        project.set_installed(apps)
        res = project.run({'action': 'evolve_api', 'project': False, 'want_signature': False})
        order = []
        for e in res['events']:
            app = e.get('app') or ''
            if e['ev'] == 'applying_evolution' and app.startswith('eapp'):
                for lab in e['labels']:
                    order.append(('evo', int(app[4:]), int(lab[1:])))
            elif e['ev'] == 'applying_migration' and app.startswith('gapp'):
                name = e.get('name')
                n = 1 if name == '0001_initial' else int(name[:4])
                order.append(('mig', int(app[4:]), n))
        # what the statements themselves did: a rebuild of an evolution app's table whose
        # new table has columns the old one is not read for = those evolutions' SQL; a
        # statement between applying/applied_migration = that migration's SQL
        import re
        sql_order = []
        cur_mig = None
        pending_create = None
        for e in res['events']:
            if e['ev'] == 'applying_migration' and (e.get('app') or '').startswith('gapp'):
                name = e.get('name')
                cur_mig = ('mig', int(e['app'][4:]), 1 if name == '0001_initial' else int(name[:4]))
            elif e['ev'] == 'applied_migration':
                cur_mig = None
            elif e['ev'] == 'stmt':
                sql = e['sql']
                if cur_mig is not None and cur_mig not in sql_order:
                    sql_order.append(cur_mig)
                m = re.match(r'CREATE TABLE "TEMP_TABLE" \((.*)', sql)
                if m:
                    pending_create = set(int(x) for x in re.findall(r'"f(\d+)" ', m.group(1)))
                m = re.match(r'INSERT INTO "TEMP_TABLE" \((.*?)\) SELECT (.*?) FROM "eapp(\d+)_item', sql)
                if m and pending_create is not None:
                    src = set(int(x) for x in re.findall(r'"f(\d+)"', m.group(2)))
                    for i in sorted(pending_create - src):
                        sql_order.append(('evo', int(m.group(3)), i))
                    pending_create = None
        return {'outcome': res['outcome'],
                'error_type': (res.get('error') or {}).get('type'),
                'error_msg': ((res.get('error') or {}).get('msg') or '')[:300],
                'order': order, 'sql_order': sql_order,
                'migrations': [m for m in res['post']['default']['book']['migrations']
                               if m[0].startswith('gapp')],
                'evolutions': [e[:2] for e in res['post']['default']['book']['evolutions']
                               if e[0].startswith('eapp')]}
    finally:
        project.destroy()


def judge(rec, obs):
    out = []
    units = [tuple(u) for u in rec['units']]
    req = set((tuple(x), tuple(y)) for x, y in rec['req'])
    unsat = bool(rec['unsat'])
    if obs['outcome'] != 'ok':
        if not unsat:
            out.append(('satisfiable-rejected', obs['error_msg']))
        return out
    if unsat:
        out.append(('unsatisfiable-not-reported', None))
        return out
    hollow = set(tuple(u) for u in rec.get('hollow') or [])
    # an ordering-only evolution has no SQL and therefore no signal: it only has to be recorded
    visible = [u for u in units if u not in hollow]
    for what, order in (('signals', [u for u in obs['order'] if tuple(u) not in hollow]),
                        ('statements', obs.get('sql_order') or [])):
        order = [tuple(u) for u in order]
        if sorted(order) != sorted(visible):
            out.append(('unit-not-executed-exactly-once',
                        {'by': what, 'missing': sorted(set(visible) - set(order)),
                         'twice': sorted(set(u for u in order if order.count(u) > 1)),
                         'extra': sorted(set(order) - set(visible))}))
            continue
        pos = {u: i for i, u in enumerate(order)}
        broken = sorted((x, y) for (x, y) in req if x in pos and y in pos and pos[x] < pos[y])
        if broken:
            kinds = sorted(set('%s-after-%s' % (x[0], y[0]) for x, y in broken))
            out.append(('requirement-broken', {'by': what, 'broken': broken[:6], 'kinds': kinds}))
    recorded = set(('evo', int(a[4:]), int(l[1:])) for a, l in obs.get('evolutions') or [])
    if not set(u for u in units if u[0] == 'evo') <= recorded:
        out.append(('pending-evolution-not-recorded',
                    {'missing': sorted(set(u for u in units if u[0] == 'evo') - recorded)}))
    return out
