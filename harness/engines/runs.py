"""Run histories (Evolver.tla): TLC-generated histories replayed on a real
synthetic project, traces projected to Evolver's vocabulary and validated by
TLC against EvolverTrace, plus the properties' own oracles.
"""

from __future__ import annotations

import copy
import json
import os
import re
import threading
from concurrent.futures import ThreadPoolExecutor

from ..absmodel import resolve_col, Names
from ..common import scratch_dir
from ..dbproj import diff_schema, schema_of
from ..djproj import Project
from ..histories import chain_history
from ..tlc import run_tlc, require_ok, write_cfg

APP_NAMES = {'a1': 'shop', 'a2': 'blog'}


def make_histories(maxver, variant=0, groups=True, a2_variant=None):
    """a1 gains model Tag at version 1 (new model, no evolution); its evolution 2
    targets only that model (IntroA1 / GrpA1 of the specification)."""
    return {
        'a1': chain_history('shop', maxver, variant=variant,
                            intro_at=1 if groups else None,
                            g2_evolutions=(2,) if groups else ()),
        'a2': chain_history('blog', maxver,
                            variant=variant + 1 if a2_variant is None else a2_variant),
    }


# ---------------------------------------------------------------------------
# oracles: what a fresh installation of version v looks like

class OracleInstallFailed(Exception):
    """A plain fresh install of one version of a history failed."""

    def __init__(self, app, version, error):
        Exception.__init__(self, 'fresh install of %s at version %d failed: %s'
                           % (app, version, (error or {}).get('msg') if isinstance(error, dict) else error))
        self.app, self.version, self.error = app, version, error


class Oracles(object):
    """Schema and stored app signature of a fresh install of each version."""

    def __init__(self, histories):
        self.histories = histories
        self.schema = {}      # (a, v) -> schema_of projection of the app's tables
        self.appsig = {}      # (a, v) -> serialized app signature
        self.lock = threading.Lock()

    def compute(self):
        jobs = []
        for a, h in self.histories.items():
            for v in range(0, h.n + 1):
                jobs.append((a, v))

        def one(job):
            a, v = job
            h = self.histories[a]
            p = Project([h.app], tag='oracle')
            try:
                h.deploy(p, v)
                r = p.run({'action': 'evolve_api'})
                if r['outcome'] != 'ok':
                    raise OracleInstallFailed(h.app, v, r.get('error') or {'msg': repr(r)[:500]})
                db = r['post']['default']['db']
                sig = (r['signature']['default'] or {}).get('apps', {}).get(h.app)
                return job, schema_of(db), sig, db
            finally:
                p.destroy()
        with ThreadPoolExecutor(8) as ex:
            for job, sch, sig, db in ex.map(one, jobs):
                self.schema[job] = sch
                self.appsig[job] = sig

    def tab_version(self, a, db_proj):
        """Which version's fresh schema the app's current tables equal
        (-1: no tables, -2: none of them)."""
        h = self.histories[a]
        prefix = h.app + '_'
        sch = {t: s for t, s in schema_of(db_proj).items() if t.startswith(prefix)}
        if not sch:
            return -1
        for v in range(0, h.n + 1):
            if self.schema[(a, v)] == sch:
                return v
        return -2

    def group_state(self, a, db_proj):
        """(tab, g2) when the app's tables equal no single version: G2's table
        exists while G1's table is still at a version before G2 was introduced."""
        h = self.histories[a]
        prefix = h.app + '_'
        sch = {t: s for t, s in schema_of(db_proj).items() if t.startswith(prefix)}
        g1 = h.names.table('t_A')
        if g1 not in sch or len(sch) < 2:
            return None
        for v in range(0, h.n + 1):
            ref = self.schema[(a, v)]
            if len(ref) == 1 and ref.get(g1) == sch[g1]:
                return v
        return None

    def stored_version(self, a, signature):
        h = self.histories[a]
        if not signature or 'apps' not in signature:
            return -1
        sig = signature['apps'].get(h.app)
        if sig is None:
            return -1
        for v in range(0, h.n + 1):
            if self.appsig[(a, v)] == sig:
                return v
        return -2


# ---------------------------------------------------------------------------
# executing one history

def label_index(label):
    m = re.match(r'e(\d+)$', label)
    return int(m.group(1)) if m else -1


def observed_state(res, histories, oracles, alias='default'):
    post = res['post'][alias]
    book = post['book']
    rapps = {h.app: a for a, h in histories.items()}
    state = {'tab': {}, 'stored': {}, 'part': {}}
    for a in histories:
        tv = oracles.tab_version(a, post['db']) if post['db'] is not None else -1
        state['tab'][a] = tv
        state['part'][a] = 1 if tv == -2 else 0
        state.setdefault('g2', {})[a] = False
        state.setdefault('g1tab', {})[a] = tv
        if tv == -2:
            u = oracles.group_state(a, post['db'])
            if u is not None:
                state['g2'][a] = True
                state['g1tab'][a] = u
                state['part'][a] = 0
        state['stored'][a] = oracles.stored_version(a, (res.get('signature') or {}).get(alias))
    state['nver'] = len(book['versions'])
    state['evo'] = [[rapps[r[0]], label_index(r[1]), r[2]]
                    for r in book['evolutions'] if r[0] in rapps]
    return state


def attribute_statements(events, apps):
    """(phase, app, position-in-phase) for every ddl/dml statement event."""
    out = []
    phase = None
    app = None
    counts = {}
    for e in events:
        ev = e['ev']
        if ev == 'creating_models' and e.get('app') in apps:
            phase = 'create'
        elif ev == 'created_models':
            phase = None
        elif ev == 'applying_evolution' and e.get('app') in apps:
            phase, app = 'evolve', e['app']
        elif ev == 'applied_evolution':
            phase, app = None, None
        elif ev in ('stmt', 'stmt_fail'):
            a = app
            if phase == 'create':
                m = re.search(r'"(\w+?)_', e['sql'])
                a = m.group(1) if m else None
            key = (phase, a)
            counts[key] = counts.get(key, 0) + 1
            out.append({'index': e['index'], 'phase': phase, 'app': a,
                        'pos': counts[key], 'ev': ev})
    return out


def project_trace(res, histories, pre, post, drv, code):
    """Real event list -> the abstract event list EvolverTrace understands."""
    rapps = {h.app: a for a, h in histories.items()}
    apps = set(rapps)
    events = []
    raw = res['events']
    # everything before 'constructed' is Evolver.__init__ (baseline install)
    start = 0
    for i, e in enumerate(raw):
        if e['ev'] == 'constructed':
            start = i
            break
    phase = None
    cur_app = None
    evo_seen = 0
    create_apps_done = []
    pending_create = {}
    i = start
    seen_prepared = False
    save_rows = None
    while i < len(raw):
        e = raw[i]
        ev = e['ev']
        if ev == 'constructed':
            events.append({'ev': 'constructed', 'new_db': bool(e['new_db'])})
        elif ev == 'prepared':
            seen_prepared = True
            events.append({
                'ev': 'prepared', 'rejected': False,
                'create': sorted(rapps[a] for a in e['create'] if a in rapps),
                'todo': {rapps[a]: [label_index(x) for x in labels]
                         for a, labels in e['todo'].items() if a in rapps and labels},
                'rec': {rapps[a]: sorted(label_index(x) for x in labels)
                        for a, labels in e['rec'].items() if a in rapps and labels},
            })
        elif ev == 'prepare_failed':
            seen_prepared = True
            events.append({'ev': 'prepared', 'rejected': True, 'create': [],
                           'todo': {}, 'rec': {}})
        elif ev == 'evolving':
            events.append({'ev': 'evolving'})
        elif ev == 'creating_models':
            if e.get('app') in apps:
                group = []
                while i < len(raw) and raw[i]['ev'] == 'creating_models':
                    if raw[i].get('app') in apps:
                        group.append(rapps[raw[i]['app']])
                    i += 1
                events.append({'ev': 'creating_models', 'apps': group})
                phase = 'create'
                pending_create = {a: 0 for a in group}
                continue
        elif ev == 'created_models':
            if e.get('app') in apps and phase == 'create':
                # all statements of the phase went through
                for a in sorted(pending_create, key=lambda x: list(histories).index(x)):
                    events.append({'ev': 'create_stmt', 'app': a})
                while i < len(raw) and raw[i]['ev'] == 'created_models':
                    i += 1
                events.append({'ev': 'created_models'})
                phase = None
                continue
        elif ev == 'applying_evolution':
            if e.get('app') in apps:
                phase, cur_app, evo_seen = 'evolve', rapps[e['app']], 0
                events.append({'ev': 'applying_evolution', 'app': cur_app,
                               'labels': [label_index(x) for x in e['labels']]})
        elif ev == 'applied_evolution':
            if e.get('app') in apps:
                # abstract statement 2 = "all remaining statements"
                if evo_seen >= 1:
                    events.append({'ev': 'evo_stmt', 'app': cur_app})
                events.append({'ev': 'applied_evolution', 'app': cur_app,
                               'labels': [label_index(x) for x in e['labels']]})
                phase, cur_app = None, None
        elif ev == 'stmt':
            if phase == 'evolve':
                evo_seen += 1
                if evo_seen == 1:
                    events.append({'ev': 'evo_stmt', 'app': cur_app})
            elif phase == 'create':
                pass
        elif ev == 'stmt_fail':
            if phase == 'evolve':
                if evo_seen >= 1:
                    # first abstract statement done; the failure is in "the rest"
                    pass
                events.append({'ev': 'stmt_fail', 'app': cur_app})
            elif phase == 'create':
                m = re.search(r'"(\w+?)_', e['sql'])
                a = rapps.get(m.group(1)) if m else None
                # apps whose statements all ran before the failing one
                order = [x for x in histories if x in pending_create]
                for x in order:
                    if x == a:
                        break
                    events.append({'ev': 'create_stmt', 'app': x})
                events.append({'ev': 'stmt_fail', 'app': a or (order[0] if order else 'a1')})
            phase = None
        elif ev in ('commit', 'rollback'):
            if seen_prepared or events:
                events.append({'ev': ev})
        elif ev == 'book':
            sql = e['sql']
            if 'django_project_version' in sql and sql.lstrip().upper().startswith('INSERT'):
                save_rows = 0
                events.append({'ev': 'save_signature', 'nrows': None})
            elif 'django_project_version' in sql and sql.lstrip().upper().startswith('UPDATE'):
                # the baseline-installing run saves its existing Version row
                events.append({'ev': 'save_signature', 'nrows': None})
        elif ev == 'evolved':
            events.append({'ev': 'evolved'})
        elif ev == 'evolving_failed':
            events.append({'ev': 'evolving_failed'})
        i += 1
    # number of Evolution rows of generated apps the run added
    added = len(post['evo']) - len(pre['evo'])
    for e in events:
        if e['ev'] == 'save_signature':
            e['nrows'] = added
    # only the first save_signature of a run is the model's SaveSignature
    seen = False
    filtered = []
    for e in events:
        if e['ev'] == 'save_signature':
            if seen:
                continue
            seen = True
        filtered.append(e)
    events = filtered
    if drv == 'cmd' and not any(e['ev'] == 'evolving' for e in events):
        for e in events:
            if e['ev'] == 'prepared' and not e['rejected']:
                events.append({'ev': 'nothing_required'})
                break
    events.append({'ev': 'end', 'outcome': res['outcome'],
                   'post': {'tab': post['tab'], 'stored': post['stored'],
                            'nver': post['nver'], 'evo': post['evo']}})
    return {'drv': drv,
            'pre': {'code': code,
                    'tab': {a: (pre.get('g1tab', pre['tab'])[a] if pre.get('g2', {}).get(a) else pre['tab'][a])
                            for a in pre['tab']},
                    'g2': {a: bool(pre.get('g2', {}).get(a)) for a in pre['tab']},
                    'part': pre['part'],
                    'stored': pre['stored'], 'nver': pre['nver'],
                    'evo': pre['evo']},
            'events': events}


EMPTY_STATE = {'tab': {'a1': -1, 'a2': -1}, 'stored': {'a1': -1, 'a2': -1},
               'part': {'a1': 0, 'a2': 0}, 'g2': {'a1': False, 'a2': False},
               'g1tab': {'a1': -1, 'a2': -1}, 'nver': 0, 'evo': []}


def rows_lost(before, after):
    """Values that changed or vanished between two database projections: for every
    table in both, every row (by primary key) and column in both."""
    out = []
    if not before or not after:
        return out
    for t, tb in before['tables'].items():
        ta = after['tables'].get(t)
        if ta is None:
            continue
        rb = {r.get('id'): r for r in (tb.get('rows') or [])}
        ra = {r.get('id'): r for r in (ta.get('rows') or [])}
        for pk, row in rb.items():
            if pk not in ra:
                out.append({'table': t, 'pk': pk, 'what': 'row lost'})
                continue
            for c, v in row.items():
                if c in ra[pk] and ra[pk][c] != v:
                    out.append({'table': t, 'pk': pk, 'column': c, 'before': v, 'after': ra[pk][c]})
        if set(ra) - set(rb) and rb:
            out.append({'table': t, 'what': 'rows appeared', 'pks': sorted(set(ra) - set(rb))[:5]})
    return out


def rows_vs_reference(history, v0, v1, db_before, db_after):
    """The rows an app's tables held before a run (at version v0) against what they hold
    after it (at version v1), judged by the reference data-flow of the evolutions
    v0+1..v1 applied ONE AT A TIME (mutseq.expected_rows): whichever path brought the
    database here, surviving cells are unchanged, a deleted-and-re-added column starts
    over, added columns hold their initial value.  Returns a list of differences."""
    from ..absmodel import as_dict
    from .mutseq import expected_rows, rows_vs_expected
    if not db_before or not db_after or v0 < 0 or v1 <= v0:
        return []
    names = history.names
    start_sig = history.versions[v0]
    start_rows = {}
    for mn, ms in start_sig.items():
        table = names.table(ms['table']) if ms['table'].startswith('t_') else ms['table']
        rows = []
        for r in (db_before['tables'].get(table) or {}).get('rows') or []:
            row = {}
            for fn, fs in ms['fields'].items():
                if fs['ftype'] == 'M2M':
                    continue
                col = resolve_col(as_dict(fs['attrs']).get('db_column'), names) or (
                    names.field(fn) + ('_id' if fs['ftype'] in ('FK', 'O2O') else ''))
                row[fn] = r.get(col)
            rows.append(row)
        start_rows[mn] = rows
    exp, final_sig = start_rows, start_sig
    try:
        for i in range(v0 + 1, v1 + 1):
            exp, final_sig = expected_rows(final_sig, history.evolutions[i]['mutations'], names, exp)
            # models that appear at version i as NEW models (no evolution creates them) exist,
            # empty, from that version on; evolutions of later versions may target them
            for mn, ms in (history.intro.get(i) or {}).items():
                final_sig = dict(final_sig)
                final_sig[mn] = ms
                exp = dict(exp)
                exp[mn] = []
    except Exception as e:
        import traceback
        return [{'kind': 'reference-error', 'error': '%s: %s' % (type(e).__name__, e),
                 'tb': traceback.format_exc(limit=3)}]
    # only rows that existed before the run (tables that were empty then have nothing to keep)
    return rows_vs_expected(db_after, exp, final_sig, names)


def _as_created(history, i, mn):
    """Signature of model `mn` as it was when it appeared (before evolution i's own changes to
    it): the version-i signature minus the fields evolution i adds to it."""
    import copy as _copy
    ms = _copy.deepcopy(history.versions[i][mn])
    for mu in history.evolutions[i]['mutations']:
        if mu['k'] == 'Add' and mu['m'] == mn:
            ms['fields'].pop(mu['f'], None)
    return ms


def readded_columns(history, v0, v1):
    """(table, column) pairs deleted by the evolutions v0+1..v1: such a column may be back
    under the same name with other values."""
    out = set()
    if v0 < 0:
        return out
    names = history.names
    for i in range(v0 + 1, v1 + 1):
        for mu in history.evolutions[i]['mutations']:
            if mu['k'] == 'Del':
                for v in range(0, len(history.versions)):
                    ms = history.versions[v].get(mu['m'])
                    if ms:
                        out.add((names.table(ms['table']) if ms['table'].startswith('t_') else ms['table'],
                                 names.field(mu['f'])))
    return out


def execute_history(hist, histories, oracles, keep_results=False, with_rows=False):
    """Replay one TLC history on a real project.  Returns a list of run
    records: dict(request, result, pre, post, code, trace, fault)."""
    project = Project([h.app for h in histories.values()], tag='hist')
    code = {a: -1 for a in histories}
    out = []
    try:
        project.set_installed([])
        state = copy.deepcopy(EMPTY_STATE)
        rows_before = None
        i = 0
        ops = list(hist)
        while i < len(ops):
            op = ops[i]
            if op['op'] == 'deploy':
                a = op['app']
                code[a] = op['ver']
                histories[a].deploy(project, op['ver'])
                project.set_installed([histories[x].app for x in histories
                                       if code[x] >= 0])
                i += 1
                continue
            if op['op'] == 'run':
                fault = None
                if i + 1 < len(ops) and ops[i + 1]['op'] == 'fault':
                    fault = ops[i + 1]
                    i += 1
                i += 1
                drv = op['drv']
                if drv == 'api':
                    request = {'action': 'evolve_api'}
                elif with_rows and len(out) % 2 == 1:
                    # C04: every other command run goes through the replaced `migrate`
                    request = {'action': 'command', 'name': 'migrate',
                               'options': {'interactive': False, 'verbosity': 0}}
                else:
                    request = {'action': 'command', 'name': 'evolve',
                               'options': {'execute': True, 'interactive': False,
                                           'verbosity': 0}}
                request['emit_prepared'] = True
                fault_at = None
                if fault is not None:
                    snap = project.copy_dbs('dry')
                    dry = project.run(request)
                    project.restore_dbs(snap)
                    apps = set(h.app for h in histories.values())
                    attributed = attribute_statements(dry['events'], apps)
                    want_app = histories[fault['app']].app
                    cands = [s for s in attributed
                             if s['phase'] == fault['phase'] and s['app'] == want_app]
                    if fault['phase'] == 'evolve':
                        if fault['stmt'] == 1:
                            cands = cands[:1]
                        else:
                            cands = cands[1:2]
                    else:
                        cands = cands[:1]
                    if not cands:
                        # the abstract fault point has no concrete statement
                        out.append({'skipped_fault': fault, 'code': dict(code)})
                        fault = None
                    else:
                        fault_at = cands[0]['index']
                        request['fault'] = {'at': fault_at}
                res = project.run(request)
                rec = {'request': request, 'code': dict(code), 'fault': fault,
                       'drv': drv, 'pre': state,
                       'pre_db': out[-1].get('db') if out and isinstance(out[-1], dict) else None}
                if res.get('outcome') == 'runner-crash':
                    rec['crash'] = res
                    out.append(rec)
                    break
                post = observed_state(res, histories, oracles)
                rec['post'] = post
                rec['trace'] = project_trace(res, histories, state, post, drv,
                                             dict(code))
                rec['summary'] = {
                    'outcome': res['outcome'],
                    'error': (res.get('error') or {}).get('type'),
                    'error_msg': (res.get('error') or {}).get('msg'),
                    'last_sql': (res.get('error') or {}).get('last_sql_statement'),
                    'fault_fired': res.get('fault_fired'),
                    'required': res.get('required'),
                    'lock': res.get('lock'),
                    'signals': [e['ev'] for e in res['events']
                                if e['ev'] in ('evolving', 'evolved', 'evolving_failed')],
                    'writes': [e['sql'][:80] for e in res['events']
                               if e['ev'] in ('stmt', 'book')],
                    'cmd_stdout': res.get('cmd_stdout', '')[-300:],
                }
                if keep_results:
                    rec['result'] = res
                rec['events'] = res['events']
                rec['db'] = res['post']['default']['db']
                # what post_migrate listeners wrote about the project's models
                rec['contenttypes'] = res['post']['default']['book'].get('contenttypes')
                rec['pre_contenttypes'] = next((o_.get('contenttypes') for o_ in reversed(out)
                                                if isinstance(o_, dict) and 'contenttypes' in o_), None)
                if with_rows:
                    # rows present before this run must have survived it; then give every
                    # still-empty table its rows for the runs to come
                    skip = set()
                    for a_, h_ in histories.items():
                        skip |= readded_columns(h_, state['tab'].get(a_, -1), code[a_])
                    rec['rows_lost'] = [x for x in (rows_lost(rows_before, rec['db']) if rows_before else [])
                                        if (x.get('table'), x.get('column')) not in skip]
                    rec['rows_diff'] = []
                    if res['outcome'] == 'ok' and rows_before:
                        for a_, h_ in histories.items():
                            v0_ = state['tab'].get(a_, -1)
                            if v0_ >= 0 and post['tab'].get(a_) == code[a_] and code[a_] > v0_:
                                rec['rows_diff'] += [dict(d, app=a_) for d in
                                                     rows_vs_reference(h_, v0_, code[a_], rows_before, rec['db'])]
                    if res['outcome'] == 'ok':
                        project.run({'action': 'insert_rows'})
                        snap = project.run({'action': 'snapshot'})
                        rows_before = snap['post']['default']['db']
                    else:
                        rows_before = rec['db']
                out.append(rec)
                state = post
                continue
            i += 1
    finally:
        project.destroy()
    return out


# ---------------------------------------------------------------------------
# TLC: histories out, traces in

def generate_histories(report, maxver, maxruns, faults=True, name='EvolverGen', groups=True):
    cfg = write_cfg('MC_EvolverGen_%d_%d.cfg' % (maxver, maxruns), '''
SPECIFICATION GSpec
VIEW GView
CONSTANTS
  Apps <- TwoApps
  MaxVer = %d
  MaxRuns = %d
  NStmt = 2
  InjectFaults = %s
  AllowDeviations = FALSE
  Intro <- %s
  Grp <- %s
  EmitHistories = TRUE
CONSTRAINT GConstraint
INVARIANT TypeOK
INVARIANT Converged
INVARIANT RerunIsNoop
INVARIANT FailedRunIsInvisible
INVARIANT RejectTouchesNothing
INVARIANT ExecuteOnlyIfSimulatesToTarget
INVARIANT ExecutedAtMostOnce
INVARIANT RecordedAtMostOnce
INVARIANT RecordedOnlyWithTables
INVARIANT RecordedWithinVersions
INVARIANT FreshRecordsWithoutExecuting
INVARIANT EvolvingAtMostOnce
INVARIANT EvolvingBeforeAnyChange
INVARIANT ExactlyOneTerminalSignal
INVARIANT EvolvedIffSaved
INVARIANT PairedUnlessFailed
INVARIANT EndSignalsTruthful
INVARIANT NoTerminalWithoutEvolving
INVARIANT NoPartialAtRest
''' % (maxver, maxruns, 'TRUE' if faults else 'FALSE',
       'IntroA1' if groups else 'NoIntro', 'GrpA1' if groups else 'AllG1'))
    res = require_ok(run_tlc('EvolverGen', cfg, workers=8, timeout=3000),
                     'EvolverGen maxver=%d maxruns=%d' % (maxver, maxruns))
    report.add_tlc('Evolver design (MaxVer=%d, MaxRuns=%d, faults=%s): all invariants'
                   % (maxver, maxruns, faults), res.stats())
    if res.invariant_violated:
        report.fail({'class': 'design-invariant', 'invariant': res.invariant_violated},
                    {'tlc': res.output[-3000:]})
    seen = set()
    out = []
    for rec in res.records:
        hist = rec['hist']
        if not hist or hist[-1]['op'] == 'deploy':
            continue
        key = json.dumps(hist, sort_keys=True)
        if key in seen:
            continue
        seen.add(key)
        out.append(rec)
    return out


def validate_traces(report, traces, maxver, name='traces', groups=True):
    """Batch trace validation.  Returns per-trace dict(reached, length, viol)."""
    if not traces:
        return []
    path = os.path.join(scratch_dir(), '%s-%d.json' % (name, len(traces)))
    with open(path, 'w') as fp:
        json.dump(traces, fp)
    cfg = write_cfg('MC_EvolverTrace_%s.cfg' % name, '''
SPECIFICATION TraceSpec
CONSTANTS
  Apps <- TwoApps
  MaxVer = %d
  MaxRuns = 1000
  NStmt = 2
  InjectFaults = FALSE
  AllowDeviations = TRUE
  Intro <- %s
  Grp <- %s
CONSTRAINT TraceConstraint
''' % (maxver, 'IntroA1' if groups else 'NoIntro', 'GrpA1' if groups else 'AllG1'))
    res = require_ok(run_tlc('MC_EvolverTrace', cfg, workers=4, timeout=3000,
                             env={'TRACE_FILE': path}),
                     'EvolverTrace on %d traces' % len(traces))
    report.add_tlc('EvolverTrace (%d traces)' % len(traces), res.stats())
    out = [{'reached': 0, 'length': len(t['events']), 'viol': {}, 'pcs': {}}
           for t in traces]
    for rec in res.records:
        t = out[rec['tid'] - 1]
        pos = rec['l'] - 1          # events consumed
        t['reached'] = max(t['reached'], pos)
        if rec['viol']:
            t['viol'].setdefault(pos, set()).update(rec['viol'])
        t['pcs'][pos] = rec['pc']
    try:
        os.remove(path)
    except OSError:
        pass
    return out


# ---------------------------------------------------------------------------
# C12: perturbed evolutions through the evolve command

def execute_perturbation(rec, start_sig, names_idx=0):
    """V0 = start signature (fresh install), V1 = the models the valid evolution
    leads to, evolution e1 = the PERTURBED mutation list; then
    `evolve --execute --noinput`."""
    from ..absmodel import ALT_NAMES, Names, norm_mutation, norm_sig
    from ..djproj import render_models, render_mutation
    from .mutseq import abstract_sim
    base = ALT_NAMES[names_idx]
    names = Names(models=base.models, fields=base.fields, app='shop')
    project = Project(['shop'], tag='pert')
    out = {}
    try:
        start = norm_sig(start_sig)
        final = norm_sig(rec['final'])
        project.deploy('shop', render_models(start, names, 'shop'), [])
        r0 = project.run({'action': 'evolve_api'})
        if r0['outcome'] != 'ok':
            out['setup_error'] = r0.get('error') or r0
            return out
        # a couple of rows, so that "data untouched" is observable
        r_rows = project.run({'action': 'insert_rows'})
        pert = [norm_mutation(m) for m in rec['pert']]
        befores = abstract_sim(pert, start)
        srcs = []
        for mu, before in zip(pert, befores):
            mu = dict(mu)
            if mu['k'] == 'Chg':
                try:
                    mu['init_type'] = before[mu['m']]['fields'][mu['f']]['ftype']
                except (KeyError, TypeError):
                    mu['init_type'] = 'Int'
            srcs.append(render_mutation(mu, names))
        project.deploy('shop', render_models(final, names, 'shop'),
                       [{'label': 'e1', 'mutations_src': srcs}])
        pre = project.run({'action': 'snapshot'})
        res = project.run({'action': 'command', 'name': 'evolve',
                           'options': {'execute': True, 'interactive': False,
                                       'verbosity': 0}})
        after = project.run({'action': 'evolve_api', 'execute': False})
        out.update({
            'outcome': res['outcome'],
            'error_type': (res.get('error') or {}).get('type'),
            'error_msg': ((res.get('error') or {}).get('msg') or '')[:400],
            'writes': [e['sql'][:120] for e in res['events'] if e['ev'] in ('stmt', 'book')],
            'signals': [e['ev'] for e in res['events']
                        if e['ev'] in ('evolving', 'evolved', 'evolving_failed')],
            'pre': pre['post']['default'], 'post': res['post']['default'],
            'after_required': after.get('required'),
            'after_diff_empty': after.get('diff_empty'),
            'after_outcome': after.get('outcome'),
            'after_error': ((after.get('error') or {}).get('msg') or '')[:300],
            'sources': srcs,
        })
        if res['outcome'] == 'ok' and any(e['ev'] == 'stmt' for e in res['events']):
            # an oracle that does not ask the code's own diff: what the executed evolution left in
            # the database against what creating the current models from scratch gives
            from ..dbproj import diff_schema, schema_of
            fresh = Project(['shop'], tag='pertf')
            try:
                fresh.deploy('shop', render_models(final, names, 'shop'), [])
                rf = fresh.run({'action': 'evolve_api'})
                if rf['outcome'] == 'ok':
                    want = {t: x for t, x in schema_of(rf['post']['default']['db']).items() if t.startswith('shop_')}
                    have = {t: x for t, x in schema_of(res['post']['default']['db']).items() if t.startswith('shop_')}
                    out['schema_vs_fresh'] = diff_schema(want, have)
            finally:
                fresh.destroy()
        return out
    finally:
        project.destroy()


# ---------------------------------------------------------------------------
# rich family: a TLC-enumerated mutation sequence as ONE stored evolution of a
# real project (models with relations / unique_together), with a fault at
# every statement of the upgrade

def _sequence_project(rec, start_sig, names_idx=0, split=False):
    from ..absmodel import ALT_NAMES, Names, norm_mutation, norm_sig
    from ..djproj import render_models, render_mutation
    from .mutseq import abstract_sim
    base = ALT_NAMES[names_idx]
    names = Names(models=base.models, fields=base.fields, app='shop')
    project = Project(['shop'], tag='seq')
    start = norm_sig(start_sig)
    final = norm_sig(rec['final'])
    seq = [norm_mutation(m) for m in rec['seq']]
    befores = abstract_sim(seq, start)
    srcs = []
    for mu, before in zip(seq, befores):
        mu = dict(mu)
        if mu['k'] == 'Chg':
            try:
                mu['init_type'] = before[mu['m']]['fields'][mu['f']]['ftype']
            except (KeyError, TypeError):
                mu['init_type'] = 'Int'
        srcs.append(render_mutation(mu, names))
    if split and len(srcs) > 1:
        evolutions = [{'label': 'e%d' % (i + 1), 'mutations_src': [s]}
                      for i, s in enumerate(srcs)]
    else:
        evolutions = [{'label': 'e1', 'mutations_src': srcs}]
    return project, names, start, final, evolutions


def execute_upgrade_with_faults(rec, start_sig, names_idx=0, max_k=None):
    """Returns dict(setup_error | runs=[...]) for one sequence: the
    uninterrupted upgrade and, for every statement k, the faulted run and the
    fault-free retry."""
    project, names, start, final, evolutions = _sequence_project(rec, start_sig, names_idx)
    from ..djproj import render_models
    out = {'runs': []}
    try:
        project.deploy('shop', render_models(start, names, 'shop'), [])
        r0 = project.run({'action': 'evolve_api'})
        if r0['outcome'] != 'ok':
            out['setup_error'] = r0.get('error') or r0
            return out
        project.run({'action': 'insert_rows'})
        project.deploy('shop', render_models(final, names, 'shop'), evolutions)
        base = project.copy_dbs('base')
        pre = project.run({'action': 'snapshot'})
        req = {'action': 'evolve_api'}
        clean = project.run(req)
        out['clean'] = {'outcome': clean['outcome'],
                        'error': ((clean.get('error') or {}).get('msg') or '')[:300],
                        'n': clean.get('batch_statements', 0)}
        if clean['outcome'] != 'ok':
            return out
        n = clean.get('batch_statements', 0)
        ks = list(range(1, n + 1))
        if max_k and len(ks) > max_k:
            step = len(ks) / float(max_k)
            ks = sorted(set(ks[int(i * step)] for i in range(max_k)))
        for k in ks:
            project.restore_dbs(base)
            drv_req = dict(req, fault={'at': k})
            res = project.run(drv_req)
            retry = project.run(req)
            out['runs'].append({
                'k': k, 'n': n,
                'outcome': res['outcome'],
                'error_type': (res.get('error') or {}).get('type'),
                'error_msg': ((res.get('error') or {}).get('msg') or '')[:300],
                'last_sql': (res.get('error') or {}).get('last_sql_statement'),
                'fired': res.get('fault_fired'),
                'unchanged': (res['post']['default']['db'] == pre['post']['default']['db'] and
                              res['post']['default']['book'] == pre['post']['default']['book']),
                'schema_unchanged': schema_of(res['post']['default']['db']) ==
                schema_of(pre['post']['default']['db']),
                'book_unchanged': res['post']['default']['book'] == pre['post']['default']['book'],
                'signals': [e['ev'] for e in res['events']
                            if e['ev'] in ('evolving', 'evolved', 'evolving_failed')],
                'retry_outcome': retry['outcome'],
                'retry_error': ((retry.get('error') or {}).get('msg') or '')[:300],
                'retry_equals_clean': (
                    retry['outcome'] == 'ok' and
                    retry['post']['default']['db'] == clean['post']['default']['db'] and
                    [r[:2] for r in retry['post']['default']['book']['evolutions']] ==
                    [r[:2] for r in clean['post']['default']['book']['evolutions']]),
            })
        return out
    finally:
        project.destroy()
