"""C11: signature-level replay of Refs.tla behaviours into the real simulate()
methods, with a walk of the real ProjectSignature after every step."""

from __future__ import annotations

APPS = {'p': 'vapp', 'q': 'vapp2', 'r': 'vapp_new'}
MODELS = {'A': 'Ab', 'B': 'Abc', 'C': 'Zed', 'D': 'Abcd'}
FIELDS = {'id': 'id', 'r': 'ref', 'm': 'many', 's': 'ref2', 'key': 'key'}
RAPPS = {v: k for k, v in APPS.items()}
RMODELS = {v: k for k, v in MODELS.items()}
RFIELDS = {v: k for k, v in FIELDS.items()}


def rel_str(rel):
    return '%s.%s' % (APPS[rel[0]], MODELS[rel[1]])


def build_sig(psig0):
    from django.db import models
    from django_evolution.signature import (AppSignature, FieldSignature,
                                            ModelSignature, ProjectSignature)
    ps = ProjectSignature()
    for a, ms in psig0.items():
        app_sig = AppSignature(app_id=APPS[a])
        ps.add_app_sig(app_sig)
        for m, fs in (ms or {}).items():
            msig = ModelSignature(model_name=MODELS[m],
                                  table_name='%s_%s' % (APPS[a], MODELS[m].lower()),
                                  pk_column='id')
            for f, info in fs.items():
                if info['kind'] == 'pk':
                    msig.add_field_sig(FieldSignature(FIELDS[f], models.AutoField,
                                                      {'primary_key': True}))
                elif info['kind'] == 'FK':
                    msig.add_field_sig(FieldSignature(FIELDS[f], models.ForeignKey, {},
                                                      related_model=rel_str(info['rel'])))
                else:
                    msig.add_field_sig(FieldSignature(FIELDS[f], models.ManyToManyField, {},
                                                      related_model=rel_str(info['rel'])))
            app_sig.add_model_sig(msig)
    return ps


def real_mutation(step):
    from django_evolution.mutations import (DeleteApplication, DeleteField,
                                            DeleteModel, RenameAppLabel,
                                            RenameField, RenameModel)
    k = step['k']
    app = APPS[step['app']]
    if k == 'RenM':
        return app, RenameModel(MODELS[step['m']], MODELS[step['n']],
                                db_table='%s_%s' % (app, MODELS[step['n']].lower()))
    if k == 'RenApp':
        return app, RenameAppLabel(app, APPS[step['n']], legacy_app_label=app)
    if k == 'RenF':
        return app, RenameField(MODELS[step['m']], FIELDS[step['f']], FIELDS[step['n']])
    if k == 'DelF':
        return app, DeleteField(MODELS[step['m']], FIELDS[step['f']])
    if k == 'DelM':
        return app, DeleteModel(MODELS[step['m']])
    if k == 'DelApp':
        return app, DeleteApplication()
    raise ValueError(k)


def expected_names(psig0, seq):
    """App label -> set of model names after each step, by what the mutations NAME (independent of
    how the code looks its targets up)."""
    cur = {a: set(ms or {}) for a, ms in psig0.items()}
    out = []
    for st in seq:
        k, a = st['k'], st['app']
        cur = {x: set(v) for x, v in cur.items()}
        if k == 'RenM':
            cur[a].discard(st['m'])
            cur[a].add(st['n'])
        elif k == 'RenApp':
            cur[st['n']] = cur.pop(a)
        elif k == 'DelM':
            cur[a].discard(st['m'])
        elif k == 'DelApp':
            cur.pop(a, None)
        out.append({x: sorted(v) for x, v in cur.items()})
    return out


def walk(ps, deleted):
    """Every relation of the real signature that names a model which does not
    exist (and was not explicitly deleted)."""
    out = []
    for app_sig in ps.app_sigs:
        for msig in app_sig.model_sigs:
            for fsig in msig.field_sigs:
                rel = fsig.related_model
                if not rel:
                    continue
                app, model = rel.split('.', 1)
                # "under its current app label": no fallback to legacy labels
                target_app = None
                for cand in ps.app_sigs:
                    if cand.app_id == app:
                        target_app = cand
                ok = target_app is not None and target_app.get_model_sig(model) is not None
                if not ok and rel not in deleted:
                    out.append([app_sig.app_id, msig.model_name, fsig.field_name, rel])
    return sorted(out)


def project(ps):
    out = {}
    for app_sig in ps.app_sigs:
        a = RAPPS.get(app_sig.app_id, app_sig.app_id)
        out[a] = {}
        for msig in app_sig.model_sigs:
            m = RMODELS.get(msig.model_name, msig.model_name)
            out[a][m] = {}
            for fsig in msig.field_sigs:
                rel = fsig.related_model
                if rel:
                    ra, rm = rel.split('.', 1)
                    rel = [RAPPS.get(ra, ra), RMODELS.get(rm, rm)]
                out[a][m][RFIELDS.get(fsig.field_name, fsig.field_name)] = rel or []
    return out


def spec_projection(psig):
    out = {}
    if not isinstance(psig, dict):      # TLC prints the empty function as []
        return out
    for a, ms in psig.items():
        out[a] = {}
        for m, fs in (ms or {}).items() if isinstance(ms, dict) else []:
            out[a][m] = {f: list(info['rel']) if info['rel'] else [] for f, info in fs.items()}
    return out


def replay(rec):
    """Returns dict(error | dangling (after each step), final projection)."""
    ps = build_sig(rec['psig0'])
    deleted = set()
    steps = []
    for step in rec['seq']:
        app_label, mutation = real_mutation(step)
        # explicit deletions, tracked under later label renames like the spec does
        if step['k'] == 'DelM':
            deleted.add('%s.%s' % (app_label, MODELS[step['m']]))
        if step['k'] == 'DelApp':
            app_sig = ps.get_app_sig(app_label)
            if app_sig is not None:
                for msig in app_sig.model_sigs:
                    deleted.add('%s.%s' % (app_label, msig.model_name))
        if step['k'] == 'RenApp':
            new = APPS[step['n']]
            deleted |= set('%s.%s' % (new, d.split('.', 1)[1]) for d in deleted
                           if d.split('.', 1)[0] == app_label)
        try:
            mutation.run_simulation(app_label=app_label, legacy_app_label=app_label,
                                    project_sig=ps, database_state=None,
                                    database='default')
        except Exception as e:
            return {'error': '%s: %s' % (type(e).__name__, e), 'at': step, 'steps': steps}
        names_now = {a: sorted(ms) for a, ms in project(ps).items()}
        steps.append({'step': step, 'dangling': walk(ps, deleted), 'names': names_now})
    return {'steps': steps, 'final': project(ps)}
