"""Replay of TLC-enumerated mutation sequences (Optimizer.tla / Schema.tla)
into the real code through three pipelines on identical databases:

  (i)   one AppMutator per mutation, in order      -- the reference
  (ii)  one AppMutator for the whole sequence       -- the optimised run
  (iii) Evolver + EvolveAppTask(evolutions=[...])   -- prepare() then batches

Observations are plain dicts; per-property judges turn them into verdicts.
"""

from __future__ import annotations

import json
import multiprocessing
import os
import sys
import traceback
import warnings

from ..absmodel import (ALT_NAMES, DEFAULT_NAMES, NONE, as_dict, make_mutation,
                        norm_mutation, norm_sig, project_mutation, project_sig,
                        short, sig_equal_abstract)
from ..common import scratch_dir
from ..dbproj import diff_schema, schema_of

_rigs = {}


def _get_rig(start_sig, names_idx):
    from .. import rig as R
    key = (json.dumps(start_sig, sort_keys=True), names_idx)
    rig = _rigs.get(key)
    if rig is None:
        rig = R.Rig(ALT_NAMES[names_idx])
        rig.prepare(start_sig)
        _rigs[key] = rig
    else:
        rig.restore_models()
    return rig


def abstract_sim(seq, start):
    """Abstract signature before each mutation, following Sig!Sim just far
    enough to pick initial values of the right Python type."""
    sig = json.loads(json.dumps(norm_sig(start)))
    out = []
    for mu in seq:
        out.append(json.loads(json.dumps(sig)))
        k = mu['k']
        try:
            if k == 'Add':
                sig[mu['m']]['fields'][mu['f']] = {
                    'ftype': mu['ftype'], 'attrs': dict(as_dict(mu['attrs'])),
                    'rel': as_dict(mu['attrs']).get('related_model', NONE)}
            elif k == 'Chg' and mu['ftype'] != NONE:
                sig[mu['m']]['fields'][mu['f']]['ftype'] = mu['ftype']
            elif k == 'Del':
                del sig[mu['m']]['fields'][mu['f']]
            elif k == 'RenF':
                sig[mu['m']]['fields'][mu['nf']] = sig[mu['m']]['fields'].pop(mu['of'])
            elif k == 'RenM':
                sig[mu['nm']] = sig.pop(mu['om'])
            elif k == 'DelM':
                del sig[mu['m']]
        except KeyError:
            pass
    return out


def _real_muts(seq, names, start):
    befores = abstract_sim(seq, start)
    return [make_mutation(mu, names, cur_sig=befores[i])
            for i, mu in enumerate(seq)]


def _rows(snap):
    return {t: info['rows'] for t, info in snap['tables'].items()}


def _sig_diff(a, b):
    from django_evolution.diff import Diff
    try:
        d1 = Diff(a, b)
        d2 = Diff(b, a)
        return (d1.is_empty(ignore_apps=False) and d2.is_empty(ignore_apps=False),
                str(d1), str(d2))
    except Exception as e:
        return False, 'diff-error: %s' % e, ''


def observe(rec, start_sig, names_idx=0, split='single', with_evolver=True):
    """Run one abstract sequence through the pipelines; return observations."""
    from .. import rig as R
    rig = _get_rig(start_sig, names_idx)
    names = rig.names
    seq = [norm_mutation(m) for m in rec['seq']]
    obs = {'n': len(seq), 'names': names_idx, 'split': split}
    paths = []
    try:
        # (i) reference
        p = rig.fresh_copy('ref')
        paths.append(p)
        st_ref = []
        muts = _real_muts(seq, names, start_sig)
        ref = R.run_individually(rig, muts, statements=st_ref)
        obs['ref'] = {k: ref.get(k) for k in ('ok', 'stage', 'step', 'error')}
        obs['ref_str_changed'] = False
        if ref['ok']:
            ref_sig = ref['sig']
            obs['final_ref'] = project_sig(ref_sig, names)
            snap_ref = rig.snapshot(p)
            obs['ref_fk_check'] = snap_ref['fk_check']
            obs['ref_integrity'] = snap_ref['integrity']
            obs['rebuilds_ref'] = R.rebuilds_per_table(st_ref)
        # (ii) batched
        p = rig.fresh_copy('bat')
        paths.append(p)
        st_bat = []
        muts = _real_muts(seq, names, start_sig)
        before = [str(m) for m in muts]
        opt = []
        bat = R.run_batched(rig, muts, statements=st_bat, capture_opt=opt)
        after = [str(m) for m in muts]
        obs['bat'] = {k: bat.get(k) for k in ('ok', 'stage', 'error')}
        obs['bat_str_changed'] = [[b, a] for b, a in zip(before, after) if a != b]
        obs['opt_list'] = [project_mutation(m, names) for m in opt[0]] if opt else None
        if bat['ok'] and ref['ok']:
            obs['bat_sig_eq'] = bool(ref_sig == bat['sig'])
            ok, d1, d2 = _sig_diff(ref_sig, bat['sig'])
            obs['bat_diff_empty'] = ok
            if not ok or not obs['bat_sig_eq']:
                obs['bat_diff'] = [d1, d2, project_sig(bat['sig'], names)]
            snap = rig.snapshot(p)
            sd = diff_schema(schema_of(snap_ref), schema_of(snap))
            obs['bat_schema_diff'] = sd
            obs['bat_rows_eq'] = _rows(snap_ref) == _rows(snap) if not sd else None
            obs['rebuilds_bat'] = R.rebuilds_per_table(st_bat)
        # (iii) the real task pipeline
        if with_evolver:
            p = rig.fresh_copy('evo')
            paths.append(p)
            muts = _real_muts(seq, names, start_sig)
            before = [str(m) for m in muts]
            if split == 'single' or len(muts) < 2:
                evolutions = [{'label': 'e1', 'mutations': muts}]
            else:
                evolutions = [{'label': 'e%d' % (i + 1), 'mutations': [m]}
                              for i, m in enumerate(muts)]
            st_evo = []
            evo = R.run_evolver(rig, evolutions, statements=st_evo)
            after = [str(m) for m in muts]
            obs['evo'] = {k: evo.get(k) for k in ('ok', 'stage', 'error')}
            obs['evo_str_changed'] = [[b, a] for b, a in zip(before, after) if a != b]
            if evo['ok'] and ref['ok']:
                obs['evo_sig_eq'] = bool(ref_sig == evo['sig'])
                ok, d1, d2 = _sig_diff(ref_sig, evo['sig'])
                obs['evo_diff_empty'] = ok
                if not ok or not obs['evo_sig_eq']:
                    obs['evo_diff'] = [d1, d2, project_sig(evo['sig'], names)]
                snap = rig.snapshot(p)
                sd = diff_schema(schema_of(snap_ref), schema_of(snap))
                obs['evo_schema_diff'] = sd
                obs['evo_rows_eq'] = _rows(snap_ref) == _rows(snap) if not sd else None
                obs['rebuilds_evo'] = R.rebuilds_per_table(
                    [s for s in st_evo if 'TEMP_TABLE' in s[0]])
    except Exception as e:
        obs['harness_error'] = traceback.format_exc(limit=10)
    finally:
        R.close_db()
        for p in paths:
            try:
                os.remove(p)
            except OSError:
                pass
    return obs


# ---------------------------------------------------------------------------
# parallel driver

def _worker(job):
    idx, rec, start_sig, names_idx, split, with_evolver = job
    with warnings.catch_warnings():
        warnings.simplefilter('ignore')
        return idx, observe(rec, start_sig, names_idx, split, with_evolver)


def _init_worker():
    import logging
    logging.disable(logging.CRITICAL)


def observe_many(jobs, procs=14):
    """jobs: list of (rec, start_sig, names_idx, split, with_evolver)."""
    from .. import rig as R
    R.close_db()
    indexed = [(i,) + tuple(j) for i, j in enumerate(jobs)]
    out = [None] * len(jobs)
    if procs <= 1 or len(jobs) < 8:
        _init_worker()
        for job in indexed:
            i, obs = _worker(job)
            out[i] = obs
        return out
    ctx = multiprocessing.get_context('fork')
    with ctx.Pool(procs, initializer=_init_worker) as pool:
        for i, obs in pool.imap_unordered(_worker, indexed, chunksize=8):
            out[i] = obs
    return out


# ---------------------------------------------------------------------------
# judges

C03_CLAUSE = {
    'opt-rejected': 'OptAccepted',
    'opt-sig-differs': 'OptSameSig',
    'opt-schema-differs': 'OptSameSig',
    'opt-rows-differ': 'OptSameData',
    'opt-exec-failed': 'OptSameSig',
    'definition-rewritten': 'OptLeavesDefsIntact',
    'pipeline-rejected': 'TwoPassAccepted',
    'pipeline-sig-differs': 'TwoPassSameSig',
    'pipeline-schema-differs': 'TwoPassSameSig',
    'pipeline-rows-differ': 'TwoPassSameData',
    'pipeline-exec-failed': 'TwoPassSameSig',
}
DB_LEVEL = ('opt-schema-differs', 'opt-rows-differ', 'opt-exec-failed',
            'pipeline-schema-differs', 'pipeline-rows-differ',
            'pipeline-exec-failed')


def c03_failures(rec, obs):
    """C03 verdicts for one observation: list of (class, detail)."""
    out = []
    if not obs.get('ref', {}).get('ok'):
        return out          # not valid one at a time on the real code: outside C03
    bat = obs.get('bat', {})
    if not bat.get('ok'):
        cls = 'opt-rejected' if bat.get('stage') == 'simulate' else 'opt-exec-failed'
        out.append((cls, bat.get('error')))
    else:
        if not obs.get('bat_sig_eq') or not obs.get('bat_diff_empty'):
            out.append(('opt-sig-differs', obs.get('bat_diff')))
        if obs.get('bat_schema_diff'):
            out.append(('opt-schema-differs', obs['bat_schema_diff']))
        elif obs.get('bat_rows_eq') is False:
            out.append(('opt-rows-differ', None))
    if obs.get('bat_str_changed'):
        out.append(('definition-rewritten', obs['bat_str_changed']))
    evo = obs.get('evo')
    if evo is not None:
        if not evo.get('ok'):
            err = evo.get('error') or ''
            if err.startswith('EvolutionExecutionError'):
                out.append(('pipeline-exec-failed', err))
            else:
                out.append(('pipeline-rejected', err))
        else:
            if not obs.get('evo_sig_eq') or not obs.get('evo_diff_empty'):
                out.append(('pipeline-sig-differs', obs.get('evo_diff')))
            if obs.get('evo_schema_diff'):
                out.append(('pipeline-schema-differs', obs['evo_schema_diff']))
            elif obs.get('evo_rows_eq') is False:
                out.append(('pipeline-rows-differ', None))
    return out


def table_classes(seq, names):
    """Tables linked by a RenameModel of the sequence count as one table."""
    parent = {}

    def find(x):
        parent.setdefault(x, x)
        while parent[x] != x:
            parent[x] = parent[parent[x]]
            x = parent[x]
        return x
    for mu in seq:
        if mu['k'] == 'RenM':
            a = names.table('t_' + mu['om'])
            b = names.table(mu['dbtable'])
            parent[find(a)] = find(b)
    return find


def c18_failures(rec, obs, names):
    out = []
    if not obs.get('ref', {}).get('ok') or not obs.get('bat', {}).get('ok'):
        return out
    seq = [norm_mutation(m) for m in rec['seq']]
    find = table_classes(seq, names)
    for which in ('bat', 'evo'):
        rb = obs.get('rebuilds_' + which)
        if rb is None:
            continue
        ref = obs.get('rebuilds_ref', {})
        tot_opt, tot_ref = {}, {}
        for t, n in rb.items():
            tot_opt[find(t)] = tot_opt.get(find(t), 0) + n
        for t, n in ref.items():
            tot_ref[find(t)] = tot_ref.get(find(t), 0) + n
        for c, n in tot_opt.items():
            if n > tot_ref.get(c, 0):
                out.append(('more-rebuilds-than-unbatched',
                            {'pipeline': which, 'table': c, 'optimised': n,
                             'individually': tot_ref.get(c, 0)}))
        # a run of mergeable changes on one model: a single rebuild
        kinds_ok = all(
            mu['k'] in ('Add', 'Del', 'Meta') or
            (mu['k'] == 'Chg' and mu['ftype'] == NONE and
             'db_column' not in as_dict(mu['attrs']))
            for mu in seq)
        one_model = len(set(mu['m'] for mu in seq)) == 1
        m2m = any(mu['k'] == 'Add' and mu['ftype'] == 'M2M' for mu in seq)
        if seq and kinds_ok and one_model and not m2m and sum(rb.values()) > 1:
            out.append(('mergeable-run-rebuilt-twice',
                        {'pipeline': which, 'rebuilds': rb}))
    return out
