"""Replay of TLC-enumerated mutation sequences (Optimizer.tla / Schema.tla)
into the real code through three pipelines on identical databases:

  (i)   one AppMutator per mutation, in order      -- the reference
  (ii)  one AppMutator for the whole sequence       -- the optimised run
  (iii) Evolver + EvolveAppTask(evolutions=[...])   -- prepare() then batches

Observations are plain dicts; per-property judges turn them into verdicts.
"""

from __future__ import annotations

import json
import multiprocessing
import os
import sys
import traceback
import warnings

from ..absmodel import (resolve_col, ALT_NAMES, DEFAULT_NAMES, NONE, as_dict, make_mutation,
                        norm_mutation, norm_sig, project_mutation, project_sig,
                        short, sig_equal_abstract)
from ..common import scratch_dir
from ..dbproj import diff_schema, schema_of

_rigs = {}


def _get_rig(start_sig, names_idx):
    from .. import rig as R
    key = (json.dumps(start_sig, sort_keys=True), names_idx)
    rig = _rigs.get(key)
    if rig is None:
        rig = R.Rig(ALT_NAMES[names_idx])
        rig.prepare(start_sig)
        _rigs[key] = rig
    else:
        rig.restore_models()
    return rig


def abstract_sim(seq, start):
    """Abstract signature before each mutation, following Sig!Sim just far
    enough to pick initial values of the right Python type."""
    sig = json.loads(json.dumps(norm_sig(start)))
    out = []
    for mu in seq:
        out.append(json.loads(json.dumps(sig)))
        k = mu['k']
        try:
            if k == 'Add':
                sig[mu['m']]['fields'][mu['f']] = {
                    'ftype': mu['ftype'], 'attrs': dict(as_dict(mu['attrs'])),
                    'rel': as_dict(mu['attrs']).get('related_model', NONE)}
            elif k == 'Chg' and mu['ftype'] != NONE:
                sig[mu['m']]['fields'][mu['f']]['ftype'] = mu['ftype']
            elif k == 'Del':
                del sig[mu['m']]['fields'][mu['f']]
            elif k == 'RenF':
                sig[mu['m']]['fields'][mu['nf']] = sig[mu['m']]['fields'].pop(mu['of'])
            elif k == 'RenM':
                sig[mu['nm']] = sig.pop(mu['om'])
            elif k == 'DelM':
                del sig[mu['m']]
        except KeyError:
            pass
    return out


def _real_muts(seq, names, start):
    befores = abstract_sim(seq, start)
    return [make_mutation(mu, names, cur_sig=befores[i])
            for i, mu in enumerate(seq)]


def _rows(snap):
    return {t: info['rows'] for t, info in snap['tables'].items()}


def _sig_diff(a, b):
    from django_evolution.diff import Diff
    try:
        d1 = Diff(a, b)
        d2 = Diff(b, a)
        return (d1.is_empty(ignore_apps=False) and d2.is_empty(ignore_apps=False),
                str(d1), str(d2))
    except Exception as e:
        return False, 'diff-error: %s' % e, ''


def fresh_oracle(rig, final_sig):
    """Create the models of `final_sig` from scratch with Django's own schema
    editor in a new database; returns (schema projection, available, why)."""
    from django.db import connection
    from .. import modelgen, rig as R
    from ..dbproj import project_db
    from django_evolution.signature import ModelSignature
    names = rig.names
    path = R._newpath('fresh')
    try:
        models = modelgen.build_models(final_sig, names)
    except Exception as e:
        rig.restore_models()
        return None, False, 'models not renderable: %s: %s' % (type(e).__name__, e)
    try:
        R.use_db(path)
        try:
            with connection.schema_editor() as editor:
                for mn in sorted(models):
                    editor.create_model(models[mn])
        except Exception as e:
            return None, False, 'django cannot create the models: %s: %s' % (type(e).__name__, e)
        sigs = {mn: ModelSignature.from_model(m) for mn, m in models.items()}
        R.close_db()
        proj = project_db(path, include=rig.app_tables)
        return {'proj': proj, 'sigs': sigs}, True, ''
    finally:
        R.close_db()
        try:
            os.remove(path)
        except OSError:
            pass
        rig.restore_models()


def expected_rows(start_sig, seq, names, start_rows):
    """Reference data-flow of a sequence on the rows present before it (C02):
    which source cell must land in which target cell, what added columns hold,
    which NULLs get replaced.  Works on abstract names; returns
    {abstract table: [row dict keyed by abstract field]} or None when a step is
    outside the reference (type changes that alter values are skipped)."""
    from ..absmodel import initial_for
    sig = json.loads(json.dumps(norm_sig(start_sig)))
    rows = {mn: [dict(r) for r in start_rows.get(mn, [])] for mn in sig}
    for mu in seq:
        k = mu['k']
        if k == 'Add':
            if mu['ftype'] == 'M2M':
                continue
            init = initial_for(mu['ftype'], mu['init'])
            for r in rows[mu['m']]:
                r[mu['f']] = init
            sig[mu['m']]['fields'][mu['f']] = {'ftype': mu['ftype'], 'attrs': dict(as_dict(mu['attrs'])), 'rel': NONE}
        elif k == 'Del':
            for r in rows[mu['m']]:
                r.pop(mu['f'], None)
            sig[mu['m']]['fields'].pop(mu['f'], None)
        elif k == 'RenF':
            for r in rows[mu['m']]:
                if mu['of'] in r:
                    r[mu['nf']] = r.pop(mu['of'])
            sig[mu['m']]['fields'][mu['nf']] = sig[mu['m']]['fields'].pop(mu['of'])
        elif k == 'Chg':
            f = sig[mu['m']]['fields'][mu['f']]
            attrs = as_dict(mu['attrs'])
            was_null = bool(f['attrs'].get('null', False))
            if mu['ftype'] != NONE and mu['ftype'] != f['ftype']:
                f['ftype'] = mu['ftype']
                f['attrs'] = dict(attrs)
            else:
                f['attrs'].update(attrs)
            if attrs.get('null') is False and was_null and mu['init'] != NONE:
                init = initial_for(f['ftype'], mu['init'])
                for r in rows[mu['m']]:
                    if r.get(mu['f']) is None:
                        r[mu['f']] = init
        elif k == 'RenM':
            rows[mu['nm']] = rows.pop(mu['om'])
            sig[mu['nm']] = sig.pop(mu['om'])
            if mu.get('dbtable') not in (None, NONE):
                sig[mu['nm']]['table'] = mu['dbtable']
        elif k == 'DelM':
            rows.pop(mu['m'], None)
            sig.pop(mu['m'], None)
    return rows, sig


def _cell_equal(a, b):
    if a is None or b is None:
        return a is None and b is None
    if isinstance(a, bool):
        a = int(a)
    if isinstance(b, bool):
        b = int(b)
    if a == b:
        return True
    return str(a) == str(b)          # retyped columns: compare modulo affinity


def rows_vs_expected(snap, expected, final_sig, names):
    """Compare real rows with the reference; returns list of differences."""
    from ..absmodel import norm_sig as _ns
    out = []
    final = _ns(final_sig)
    for mn, rows in expected.items():
        if mn not in final:
            continue
        table = names.table(final[mn]['table']) if final[mn]['table'].startswith('t_') else final[mn]['table']
        real = (snap['tables'].get(table) or {}).get('rows')
        if real is None:
            out.append({'table': table, 'kind': 'table-missing'})
            continue
        if len(real) != len(rows):
            out.append({'table': table, 'kind': 'row-count', 'expected': len(rows), 'real': len(real)})
            continue
        # rows are matched through the model's primary key, whatever it is called by now
        pkf = next((fn for fn, fs in final[mn]['fields'].items()
                    if as_dict(fs['attrs']).get('primary_key')), 'id')
        pkc = resolve_col(as_dict(final[mn]['fields'].get(pkf, {}).get('attrs', {})).get('db_column'), names) or names.field(pkf)
        real_by_id = {r.get(pkc): r for r in real}
        for r in rows:
            rr = real_by_id.get(r.get(pkf))
            if rr is None:
                out.append({'table': table, 'kind': 'row-lost', 'id': r.get(pkf)})
                continue
            for fn, v in r.items():
                fs = final[mn]['fields'].get(fn)
                if fs is None or fs['ftype'] == 'M2M':
                    continue
                col = resolve_col(as_dict(fs['attrs']).get('db_column'), names) or (
                    names.field(fn) + ('_id' if fs['ftype'] in ('FK', 'O2O') else ''))
                if col not in rr:
                    out.append({'table': table, 'kind': 'column-missing', 'column': col})
                    break
                if not _cell_equal(rr[col], v):
                    out.append({'table': table, 'kind': 'cell', 'column': col, 'id': r.get(pkf),
                                'expected': v, 'real': rr[col]})
    return out


def start_rows_of(rig):
    """Rows of the template database keyed by abstract model/field names."""
    snap = rig.snapshot(rig.template)
    names = rig.names
    out = {}
    for mn, ms in rig.start_sig.items():
        table = names.table(ms['table'])
        rows = []
        for r in (snap['tables'].get(table) or {}).get('rows') or []:
            row = {}
            for fn, fs in ms['fields'].items():
                if fs['ftype'] == 'M2M':
                    continue
                col = resolve_col(as_dict(fs['attrs']).get('db_column'), names) or (
                    names.field(fn) + ('_id' if fs['ftype'] in ('FK', 'O2O') else ''))
                row[fn] = r.get(col)
            rows.append(row)
        out[mn] = rows
    return out


def observe(rec, start_sig, names_idx=0, split='single', with_evolver=True,
            with_fresh=False):
    """Run one abstract sequence through the pipelines; return observations."""
    from .. import rig as R
    rig = _get_rig(start_sig, names_idx)
    names = rig.names
    seq = [norm_mutation(m) for m in rec['seq']]
    obs = {'n': len(seq), 'names': names_idx, 'split': split}
    paths = []
    snaps = {}
    try:
        # (i) reference
        p = rig.fresh_copy('ref')
        paths.append(p)
        st_ref = []
        muts = _real_muts(seq, names, start_sig)
        ref = R.run_individually(rig, muts, statements=st_ref)
        obs['ref'] = {k: ref.get(k) for k in ('ok', 'stage', 'step', 'error')}
        obs['ref_str_changed'] = False
        if ref['ok']:
            ref_sig = ref['sig']
            obs['final_ref'] = project_sig(ref_sig, names)
            snap_ref = rig.snapshot(p)
            snaps['ref'] = snap_ref
            obs['ref_fk_check'] = snap_ref['fk_check']
            obs['ref_integrity'] = snap_ref['integrity']
            obs['rebuilds_ref'] = R.rebuilds_per_table(st_ref)
        # (ii) batched
        p = rig.fresh_copy('bat')
        paths.append(p)
        st_bat = []
        muts = _real_muts(seq, names, start_sig)
        before = [str(m) for m in muts]
        opt = []
        bat = R.run_batched(rig, muts, statements=st_bat, capture_opt=opt)
        after = [str(m) for m in muts]
        obs['bat'] = {k: bat.get(k) for k in ('ok', 'stage', 'error')}
        obs['bat_str_changed'] = [[b, a] for b, a in zip(before, after) if a != b]
        obs['opt_list'] = [project_mutation(m, names) for m in opt[0]] if opt else None
        if bat['ok'] and ref['ok']:
            obs['bat_sig_eq'] = bool(ref_sig == bat['sig'])
            ok, d1, d2 = _sig_diff(ref_sig, bat['sig'])
            obs['bat_diff_empty'] = ok
            if not ok or not obs['bat_sig_eq']:
                obs['bat_diff'] = [d1, d2, project_sig(bat['sig'], names)]
            snap = rig.snapshot(p)
            snaps['bat'] = snap
            sd = diff_schema(schema_of(snap_ref), schema_of(snap))
            obs['bat_schema_diff'] = sd
            obs['bat_rows_eq'] = _rows(snap_ref) == _rows(snap) if not sd else None
            obs['rebuilds_bat'] = R.rebuilds_per_table(st_bat)
        # (iii) the real task pipeline
        if with_evolver:
            p = rig.fresh_copy('evo')
            paths.append(p)
            muts = _real_muts(seq, names, start_sig)
            before = [str(m) for m in muts]
            if split == 'single' or len(muts) < 2:
                evolutions = [{'label': 'e1', 'mutations': muts}]
            else:
                evolutions = [{'label': 'e%d' % (i + 1), 'mutations': [m]}
                              for i, m in enumerate(muts)]
            st_evo = []
            evo = R.run_evolver(rig, evolutions, statements=st_evo)
            after = [str(m) for m in muts]
            obs['evo'] = {k: evo.get(k) for k in ('ok', 'stage', 'error')}
            obs['evo_str_changed'] = [[b, a] for b, a in zip(before, after) if a != b]
            if evo['ok'] and ref['ok']:
                obs['evo_sig_eq'] = bool(ref_sig == evo['sig'])
                ok, d1, d2 = _sig_diff(ref_sig, evo['sig'])
                obs['evo_diff_empty'] = ok
                if not ok or not obs['evo_sig_eq']:
                    obs['evo_diff'] = [d1, d2, project_sig(evo['sig'], names)]
                snap = rig.snapshot(p)
                snaps['evo'] = snap
                sd = diff_schema(schema_of(snap_ref), schema_of(snap))
                obs['evo_schema_diff'] = sd
                obs['evo_rows_eq'] = _rows(snap_ref) == _rows(snap) if not sd else None
                obs['rebuilds_evo'] = R.rebuilds_per_table(
                    [s for s in st_evo if 'TEMP_TABLE' in s[0]])
        if with_fresh:
            # batched run when the reference run was rejected but batched accepted
            if 'bat' not in snaps and obs.get('bat', {}).get('ok'):
                snaps['bat'] = rig.snapshot(paths[1])
            final_sig = rec.get('final')
            fresh, available, why = fresh_oracle(rig, final_sig)
            obs['oracle_available'] = available
            obs['oracle_why'] = why
            if available:
                fs = schema_of(fresh['proj'])
                for which, snap in snaps.items():
                    obs['fresh_diff_' + which] = diff_schema(fs, schema_of(snap))
                    obs['fk_check_' + which] = snap['fk_check']
                    obs['integrity_' + which] = snap['integrity']
                # the real final signature must describe the same models
                try:
                    real_sig = None
                    if obs.get('bat', {}).get('ok'):
                        real_sig = bat['sig']
                    elif ref.get('ok'):
                        real_sig = ref['sig']
                    if real_sig is not None:
                        app_sig = real_sig.get_app_sig(names.app)
                        mismatch = []
                        for mn, msig in fresh['sigs'].items():
                            rs = app_sig.get_model_sig(names.model(mn))
                            if rs is None or rs.diff(msig) or msig.diff(rs):
                                mismatch.append(mn)
                        obs['sig_vs_models_mismatch'] = mismatch
                except Exception as e:
                    obs['sig_vs_models_mismatch'] = ['error: %s' % e]
            # rows (C02)
            try:
                srows = start_rows_of(rig)
                exp, _sig = expected_rows(start_sig, seq, names, srows)
                for which, snap in snaps.items():
                    obs['rows_diff_' + which] = rows_vs_expected(snap, exp, final_sig, names)
            except Exception as e:
                obs['rows_error'] = traceback.format_exc(limit=4)
    except Exception as e:
        obs['harness_error'] = traceback.format_exc(limit=10)
    finally:
        R.close_db()
        for p in paths:
            try:
                os.remove(p)
            except OSError:
                pass
    return obs


# ---------------------------------------------------------------------------
# parallel driver

def _worker(job):
    idx, rec, start_sig, names_idx, split, with_evolver = job[:6]
    with_fresh = job[6] if len(job) > 6 else False
    with warnings.catch_warnings():
        warnings.simplefilter('ignore')
        return idx, observe(rec, start_sig, names_idx, split, with_evolver, with_fresh)


def _init_worker():
    import logging
    logging.disable(logging.CRITICAL)


def observe_many(jobs, procs=14):
    """jobs: list of (rec, start_sig, names_idx, split, with_evolver)."""
    from .. import rig as R
    R.close_db()
    indexed = [(i,) + tuple(j) for i, j in enumerate(jobs)]
    out = [None] * len(jobs)
    if procs <= 1 or len(jobs) < 8:
        _init_worker()
        for job in indexed:
            i, obs = _worker(job)
            out[i] = obs
        return out
    ctx = multiprocessing.get_context('fork')
    with ctx.Pool(procs, initializer=_init_worker) as pool:
        for i, obs in pool.imap_unordered(_worker, indexed, chunksize=8):
            out[i] = obs
    return out


# ---------------------------------------------------------------------------
# judges

C03_CLAUSE = {
    'opt-rejected': 'OptAccepted',
    'opt-sig-differs': 'OptSameSig',
    'opt-schema-differs': 'OptSameSig',
    'opt-rows-differ': 'OptSameData',
    'opt-exec-failed': 'OptSameSig',
    'definition-rewritten': 'OptLeavesDefsIntact',
    'pipeline-rejected': 'TwoPassAccepted',
    'pipeline-sig-differs': 'TwoPassSameSig',
    'pipeline-schema-differs': 'TwoPassSameSig',
    'pipeline-rows-differ': 'TwoPassSameData',
    'pipeline-exec-failed': 'TwoPassSameSig',
}
DB_LEVEL = ('opt-schema-differs', 'opt-rows-differ', 'opt-exec-failed',
            'pipeline-schema-differs', 'pipeline-rows-differ',
            'pipeline-exec-failed')


def c03_failures(rec, obs):
    """C03 verdicts for one observation: list of (class, detail)."""
    out = []
    if not obs.get('ref', {}).get('ok'):
        return out          # not valid one at a time on the real code: outside C03
    bat = obs.get('bat', {})
    if not bat.get('ok'):
        cls = 'opt-rejected' if bat.get('stage') in ('simulate', 'generate') else 'opt-exec-failed'
        out.append((cls, bat.get('error')))
    else:
        if not obs.get('bat_sig_eq') or not obs.get('bat_diff_empty'):
            out.append(('opt-sig-differs', obs.get('bat_diff')))
        if obs.get('bat_schema_diff'):
            out.append(('opt-schema-differs', obs['bat_schema_diff']))
        elif obs.get('bat_rows_eq') is False:
            out.append(('opt-rows-differ', None))
    if obs.get('bat_str_changed'):
        out.append(('definition-rewritten', obs['bat_str_changed']))
    evo = obs.get('evo')
    if evo is not None:
        if not evo.get('ok'):
            err = evo.get('error') or ''
            if err.startswith('EvolutionExecutionError'):
                out.append(('pipeline-exec-failed', err))
            else:
                out.append(('pipeline-rejected', err))
        else:
            if not obs.get('evo_sig_eq') or not obs.get('evo_diff_empty'):
                out.append(('pipeline-sig-differs', obs.get('evo_diff')))
            if obs.get('evo_schema_diff'):
                out.append(('pipeline-schema-differs', obs['evo_schema_diff']))
            elif obs.get('evo_rows_eq') is False:
                out.append(('pipeline-rows-differ', None))
    return out


def table_classes(seq, names):
    """Tables linked by a RenameModel of the sequence count as one table."""
    parent = {}

    def find(x):
        parent.setdefault(x, x)
        while parent[x] != x:
            parent[x] = parent[parent[x]]
            x = parent[x]
        return x
    for mu in seq:
        if mu['k'] == 'RenM':
            a = names.table('t_' + mu['om'])
            b = names.table(mu['dbtable'])
            parent[find(a)] = find(b)
    return find


def c18_failures(rec, obs, names, start_sig=None):
    out = []
    if not obs.get('ref', {}).get('ok') or not obs.get('bat', {}).get('ok'):
        return out
    seq = [norm_mutation(m) for m in rec['seq']]
    find = table_classes(seq, names)
    for which in ('bat', 'evo'):
        rb = obs.get('rebuilds_' + which)
        if rb is None:
            continue
        ref = obs.get('rebuilds_ref', {})
        tot_opt, tot_ref = {}, {}
        for t, n in rb.items():
            tot_opt[find(t)] = tot_opt.get(find(t), 0) + n
        for t, n in ref.items():
            tot_ref[find(t)] = tot_ref.get(find(t), 0) + n
        for c, n in tot_opt.items():
            if n > tot_ref.get(c, 0):
                out.append(('more-rebuilds-than-unbatched',
                            {'pipeline': which, 'table': c, 'optimised': n,
                             'individually': tot_ref.get(c, 0)}))
        # every maximal run of consecutive mergeable changes on one model (as the sequence is
        # written): a single rebuild of its table; a change that is not mergeable (type change,
        # column rename through ChangeField) may cost one more
        befores = abstract_sim(seq, start_sig) if start_sig is not None else [None] * len(seq)

        def mergeable(mu, before=None):
            if mu['k'] in ('Add', 'Del', 'Meta'):
                return True
            if mu['k'] != 'Chg' or 'db_column' in as_dict(mu['attrs']):
                return False
            if mu['ftype'] == NONE:
                return True
            # a ChangeField that restates the type the field already has is an attribute change
            try:
                return before[mu['m']]['fields'][mu['f']]['ftype'] == mu['ftype']
            except (KeyError, TypeError):
                return False
        bound = {}
        prev_model = None
        tables = dict((mn, names.table('t_' + mn)) for mn in ('A', 'B', 'C'))
        for mu, before_ in zip(seq, befores):
            if mu['k'] == 'RenM':
                tables[mu['nm']] = names.table(mu['dbtable']) if str(mu['dbtable']).startswith('t_') else mu['dbtable']
                prev_model = None
                continue
            t = tables.get(mu['m'])
            if mergeable(mu, before_):
                if mu['m'] != prev_model and t:
                    bound[find(t)] = bound.get(find(t), 0) + 1
                prev_model = mu['m']
            else:
                if mu['k'] == 'Chg' and t:
                    bound[find(t)] = bound.get(find(t), 0) + 1
                prev_model = None
        for c, n in tot_opt.items():
            if n > bound.get(c, 0) and n > 0 and bound.get(c, 0) > 0:
                out.append(('mergeable-run-rebuilt-twice',
                            {'pipeline': which, 'table': c, 'rebuilds': n, 'runs': bound.get(c, 0)}))
    return out


# ---------------------------------------------------------------------------
# C01 / C02 judges (Schema.tla records, with_fresh observations)

def abstract_fresh_vs_real(spec_fresh, fresh_proj, names):
    """Binding of Schema!Fresh: the abstract schema TLC computed for the final
    signature vs what Django really created.  Returns list of differences."""
    out = []
    real = schema_of(fresh_proj)
    want_tables = {}
    for t, info in as_dict(spec_fresh).items():
        want_tables[names.table(t) if t.startswith('t_') else t] = info

    def col(c):
        # abstract column names are abstract field names (+ "_id"); "@f" = the default column of f
        if isinstance(c, str) and c.startswith('@'):
            return names.field(c[1:])
        base, suffix = (c[:-3], '_id') if c.endswith('_id') and c[:-3] in names.fields else (c, '')
        return names.fields.get(base, base) + suffix
    for t, info in want_tables.items():
        if t not in real:
            out.append({'table': t, 'kind': 'table-missing-in-django'})
            continue
        rc = real[t]['columns']
        wc = {col(c['n']): c for c in info['cols']}
        if set(wc) != set(rc):
            out.append({'table': t, 'kind': 'columns', 'spec': sorted(wc), 'django': sorted(rc)})
            continue
        for name, c in wc.items():
            if bool(c['null']) == rc[name]['notnull'] and not rc[name]['pk']:
                out.append({'table': t, 'kind': 'null', 'column': name})
            if bool(c['pk']) != rc[name]['pk']:
                out.append({'table': t, 'kind': 'pk', 'column': name})
        widx = sorted([[col(x) for x in ix[0]], bool(ix[1])] for ix in info['idx'])
        ridx = sorted([[x.split(' ')[0] for x in ix[0]], bool(ix[1])] for ix in real[t]['indexes'])
        # Schema.tla keeps a SET of indexes: an index declared twice (hazard index-declared-twice)
        # is one element there and two indexes in Django's own creation
        ridx = [x for i, x in enumerate(ridx) if i == 0 or ridx[i - 1] != x]
        if widx != ridx:
            out.append({'table': t, 'kind': 'indexes', 'spec': widx, 'django': ridx})
        wfk = sorted([col(x[0]), names.table(x[1]) if x[1].startswith('t_') else x[1], col(x[2])]
                     for x in info['fks'])
        rfk = sorted([c, v[0], v[1]] for c, v in real[t]['fks'].items())
        if wfk != rfk:
            out.append({'table': t, 'kind': 'fks', 'spec': wfk, 'django': rfk})
    for t in real:
        if t not in want_tables:
            out.append({'table': t, 'kind': 'table-extra-in-django'})
    return out


GENERATION_ERRORS = ('AttributeError', 'KeyError', 'TypeError', 'IndexError', 'ValueError',
                     'FieldDoesNotExist', 'DatabaseStateError', 'MissingSignatureError',
                     'AssertionError', 'NameError', 'LookupError')


def c01_failures(rec, obs):
    out = []
    if not obs.get('oracle_available') or obs.get('sig_vs_models_mismatch'):
        return out, False
    for which in ('ref', 'bat', 'evo'):
        run = obs.get(which)
        if not run:
            continue
        if not run.get('ok'):
            if run.get('stage') in ('execute',) or (
                    which == 'evo' and (run.get('error') or '').startswith('EvolutionExecutionError')):
                out.append(('accepted-evolution-failed-to-execute', which, run.get('error'), []))
            elif run.get('stage') == 'generate' or (
                    which == 'evo' and (run.get('error') or '').split(':')[0] in GENERATION_ERRORS):
                out.append(('accepted-evolution-failed-to-generate-sql', which, run.get('error'),
                            [(run.get('error') or '').split(':')[0]]))
            continue
        diff = obs.get('fresh_diff_' + which)
        if diff:
            kinds = sorted(set(d['kind'] for d in diff))
            out.append(('schema-differs-from-fresh', which, diff, kinds))
        if obs.get('fk_check_' + which):
            out.append(('foreign-key-check-failed', which, obs['fk_check_' + which], []))
        integ = obs.get('integrity_' + which)
        if integ and integ != ['ok']:
            out.append(('integrity-check-failed', which, integ, []))
    return out, True


def c02_failures(rec, obs):
    out = []
    for which in ('ref', 'bat', 'evo'):
        run = obs.get(which)
        if not run or not run.get('ok'):
            continue
        diff = obs.get('rows_diff_' + which)
        if diff:
            kinds = sorted(set(d['kind'] for d in diff))
            out.append(('rows-differ-from-reference', which, diff[:6], kinds))
    return out
