"""C01 across two apps (CrossApp.tla): relation fields between alpha.Tag, alpha.Item
and beta.Tag - two models of the same name in different apps - added / deleted by
evolutions on a real project, compared with a fresh creation of the final models."""

from __future__ import annotations

from ..djproj import Project

APPS = ['alpha', 'beta']
MODELS = {'alpha': ['Tag', 'Item'], 'beta': ['Tag']}
FIELD = {'FK': 'models.ForeignKey', 'O2O': 'models.OneToOneField', 'M2M': 'models.ManyToManyField'}


def models_src(app, rels):
    out = ['from django.db import models', '', '']
    for m in MODELS[app]:
        out.append('class %s(models.Model):' % m)
        out.append('    name = models.CharField(max_length=20)')
        for r in rels:
            if r['src'] == [app, m]:
                target = '%s.%s' % (r['dst'][0], r['dst'][1])
                if r['kind'] == 'M2M':
                    out.append("    %s = models.ManyToManyField(%r, related_name='+')" % (r['name'], target))
                else:
                    out.append("    %s = %s(%r, null=True, on_delete=models.CASCADE, related_name='+')"
                               % (r['name'], FIELD[r['kind']], target))
        out += ['', '']
    return '\n'.join(out)


def mutation_src(step):
    model = step['src'][1]
    if step['k'] == 'del':
        return 'DeleteField(%r, %r)' % (model, step['name'])
    target = '%s.%s' % (step['dst'][0], step['dst'][1])
    if step['kind'] == 'M2M':
        return "AddField(%r, %r, models.ManyToManyField, related_model=%r)" % (model, step['name'], target)
    extra = ', unique=True' if step['kind'] == 'O2O' else ''
    return "AddField(%r, %r, %s, null=True%s, related_model=%r)" % (model, step['name'], FIELD[step['kind']],
                                                                   extra, target)


def schema(db):
    from ..dbproj import schema_of
    return {t: x for t, x in schema_of(db).items() if t.startswith(('alpha_', 'beta_'))}


def replay(rec):
    from ..dbproj import diff_schema
    rels = [dict(r, src=list(r['src']), dst=list(r['dst'])) for r in rec['rels']]
    out = {}
    p = Project(APPS, tag='xapp')
    try:
        for a in APPS:
            p.deploy(a, models_src(a, []), [])
        r0 = p.run({'action': 'evolve_api', 'app_prefixes': APPS})
        if r0['outcome'] != 'ok':
            out['setup_error'] = (r0.get('error') or {}).get('msg')
            return out
        p.run({'action': 'insert_rows', 'app_prefixes': APPS})
        for a in APPS:
            muts = [mutation_src(st) for st in rec['seq'] if st['src'][0] == a]
            p.deploy(a, models_src(a, rels), [{'label': 'e1', 'mutations_src': muts}] if muts else [])
        res = p.run({'action': 'command', 'name': 'evolve', 'app_prefixes': APPS,
                     'options': {'execute': True, 'interactive': False, 'verbosity': 0}})
        out['outcome'] = res['outcome']
        out['error'] = (res.get('error') or {}).get('msg')
        out['statements'] = [e['sql'][:140] for e in res['events'] if e['ev'] == 'stmt'][:12]
        if res['outcome'] != 'ok':
            return out
        evolved = schema(res['post']['default']['db'])
        out['fk_check'] = res['post']['default']['db'].get('fk_check')
    finally:
        p.destroy()
    f = Project(APPS, tag='xappf')
    try:
        for a in APPS:
            f.deploy(a, models_src(a, rels), [])
        rf = f.run({'action': 'evolve_api', 'app_prefixes': APPS})
        if rf['outcome'] != 'ok':
            out['fresh_error'] = (rf.get('error') or {}).get('msg')
            return out
        fresh = schema(rf['post']['default']['db'])
    finally:
        f.destroy()
    out['diff'] = diff_schema(fresh, evolved)
    # binding of CrossApp!Fresh: the many-to-many tables and their columns
    want = {}
    for o in rec['fresh']:
        if o['kind'] == 'fk':
            want.setdefault(o['table'], set()).add(o['col'])
    have = {t: set(c for c in info['columns'] if c.endswith('_id')) for t, info in fresh.items()}
    out['spec_vs_django'] = {t: [sorted(cols), sorted(have.get(t, set()))]
                             for t, cols in want.items() if not cols <= have.get(t, set())}
    return out
