"""Purge / DeleteModel / DeleteApplication (Purge.tla, property C15): the
operation sequences TLC enumerates, replayed on a real three-app project."""

from __future__ import annotations

import json

from ..djproj import Project

APPS = ['p', 'pq', 'r']
TABLE_OF = {'A': 'p_a', 'B': 'p_a_x', 'D': 'p_a_more', 'E': 'pq_e', 'C': 'r_c', 'F': 'r_f'}
ALL_MODELS = {'p': ['A', 'B'], 'pq': ['D', 'E'], 'r': ['C', 'F']}


def models_src(app, present, feats, p_installed):
    """models.py of `app` with the models in `present`."""
    out = ['from django.db import models', '', '']
    for m in ALL_MODELS[app]:
        if m not in present:
            continue
        out.append('class %s(models.Model):' % m)
        out.append('    name = models.CharField(max_length=20)')
        if m == 'A':
            if 'ownM2M' in feats and 'B' in present:
                if 'customM2M' in feats:
                    out.append("    rel = models.ManyToManyField('B', db_table='p_links')")
                else:
                    out.append("    rel = models.ManyToManyField('B')")
            if 'farM2M' in feats:
                out.append("    far = models.ManyToManyField('r.C')")
        if m == 'E':
            # a tree: the model refers to itself (Purge.tla: no table of its own, nothing to order)
            out.append("    parent = models.ForeignKey('self', on_delete=models.CASCADE, null=True)")
        if m == 'F' and p_installed:
            if 'crossFK' in feats:
                out.append("    a = models.ForeignKey('p.A', on_delete=models.CASCADE, null=True)")
            if 'crossM2M' in feats:
                out.append("    many = models.ManyToManyField('p.A')")
        custom = {'B': 'p_a_x', 'D': 'p_a_rel' if 'customM2M' in feats else 'p_a_more'}.get(m)
        if custom:
            out += ['', '    class Meta:', '        db_table = %r' % custom]
        out += ['', '']
    return '\n'.join(out)


def replay(rec, expected_by_prefix):
    """Run the record's history; returns observations after every evolve."""
    feats = set(rec['feats'])
    project = Project(APPS, tag='purge')
    out = {'steps': [], 'errors': []}
    try:
        installed = list(APPS)
        present = {a: list(ms) for a, ms in ALL_MODELS.items()}
        evolutions = {a: [] for a in APPS}
        for a in APPS:
            project.deploy(a, models_src(a, present[a], feats, True), [])
        r0 = project.run({'action': 'evolve_api', 'app_prefixes': APPS})
        if r0['outcome'] != 'ok':
            out['errors'].append(('install', (r0.get('error') or {}).get('msg')))
            return out
        project.run({'action': 'insert_rows', 'm2m_rows': True, 'app_prefixes': APPS})
        before = project.run({'action': 'snapshot', 'app_prefixes': APPS})
        prev_db = before['post']['default']['db']
        refs_dropped = False
        tampered = []
        for i, op in enumerate(rec['hist']):
            if op['op'] == 'uninstall':
                installed.remove(op['app'])
                project.set_installed(installed)
            elif op['op'] == 'dropmodel':
                present[op['app']].remove(op['model'])
                evolutions[op['app']].append({'label': 'del_%s' % op['model'].lower(),
                                              'mutations_src': ['DeleteModel(%r)' % op['model']]})
            elif op['op'] == 'dropall':
                # referrers first: A before B, F before C
                for m in list(ALL_MODELS[op['app']]) if op['app'] != 'r' else ['F', 'C']:
                    if m in present[op['app']]:
                        present[op['app']].remove(m)
                        evolutions[op['app']].append({'label': 'del_%s' % m.lower(),
                                                      'mutations_src': ['DeleteModel(%r)' % m]})
            if op['op'] == 'tamper':
                # somebody drops one of the stale app's tables behind the tool's back
                rt = project.run({'action': 'exec_sql', 'app_prefixes': APPS,
                                  'statements': [['PRAGMA foreign_keys = OFF', []],
                                                 ['DROP TABLE "%s"' % op['table'], []]]})
                if rt['outcome'] != 'ok':
                    out['errors'].append(('tamper', (rt.get('error') or {}).get('msg')))
                    return out
                tampered = [op['table']]
                prev_db = project.run({'action': 'snapshot', 'app_prefixes': APPS})['post']['default']['db']
                continue
            if op['op'] == 'repair':
                project.run({'action': 'exec_sql', 'app_prefixes': APPS,
                             'statements': [['CREATE TABLE "%s" (id integer NOT NULL PRIMARY KEY)' % t, []]
                                            for t in tampered]})
                tampered = []
                prev_db = project.run({'action': 'snapshot', 'app_prefixes': APPS})['post']['default']['db']
                continue
            if op['op'] in ('uninstall', 'dropmodel', 'dropall'):
                p_inst = 'p' in installed
                if not p_inst and 'r' in installed and 'F' in present['r'] and not refs_dropped \
                        and feats & {'crossFK', 'crossM2M'}:
                    muts = []
                    if 'crossFK' in feats:
                        muts.append("DeleteField('F', 'a')")
                    if 'crossM2M' in feats:
                        muts.append("DeleteField('F', 'many')")
                    evolutions['r'].append({'label': 'drop_refs', 'mutations_src': muts})
                    refs_dropped = True
                if op['op'] == 'dropmodel' and op['model'] == 'B' and 'ownM2M' in feats:
                    pass
                for a in installed:
                    project.deploy(a, models_src(a, present[a], feats, p_inst), evolutions[a])
                continue
            # evolve
            driver = 'cmd' if (i + len(rec['feats'])) % 2 else 'api'
            if driver == 'cmd':
                res = project.run({'action': 'command', 'name': 'evolve',
                                   'options': {'execute': True, 'interactive': False,
                                               'purge': bool(op['purge']), 'verbosity': 0},
                                   'app_prefixes': APPS})
            else:
                res = project.run({'action': 'evolve_api', 'purge': bool(op['purge']),
                                   'app_prefixes': APPS})
            db = res['post']['default']['db']
            sig = (res.get('signature') or {}).get('default') or {}
            sig_apps = {}
            for a, app_sig in (sig.get('apps') or {}).items():
                if a in APPS:
                    sig_apps[a] = sorted((app_sig.get('models') or {}).keys())
            key = json.dumps([sorted(rec['feats']), rec['hist'][:i + 1]], sort_keys=True)
            step = {
                'index': i, 'driver': driver, 'purge': bool(op['purge']),
                'outcome': res['outcome'],
                'error': (res.get('error') or {}).get('msg'),
                'tables': sorted(db['tables']) if db else [],
                'tables_before': sorted(prev_db['tables']) if prev_db else [],
                'sig': sig_apps,
                'expected': expected_by_prefix.get(key),
                'statements': [e['sql'][:100] for e in res['events'] if e['ev'] == 'stmt'],
                'changed_survivors': changed_survivors(prev_db, db),
            }
            out['steps'].append(step)
            if op.get('failed') and prev_db and db:
                # tables a half-done purge dropped although the signature still names them
                tampered += sorted(set(prev_db['tables']) - set(db['tables']))
            prev_db = db
        return out
    finally:
        project.destroy()


def changed_survivors(before, after):
    """Tables present before and after whose schema or rows changed."""
    out = []
    if not before or not after:
        return out
    for t, tb in before['tables'].items():
        ta = after['tables'].get(t)
        if ta is None or tb is None:
            continue
        if t == 'r_f':
            # the evolution that drops the relations into p rewrites r_f: compare the
            # columns that remain
            keep = set(ta['columns'])
            rb = [{k: v for k, v in row.items() if k in keep} for row in (tb.get('rows') or [])]
            if rb != (ta.get('rows') or []):
                out.append({'table': t, 'what': 'rows'})
            continue
        if tb['columns'] != ta['columns'] or tb['indexes'] != ta['indexes']:
            out.append({'table': t, 'what': 'schema'})
        elif tb.get('rows') != ta.get('rows'):
            out.append({'table': t, 'what': 'rows'})
    return out
