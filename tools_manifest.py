#!/venv/bin/python
"""Regenerate MANIFEST.json from the table below (single source of truth)."""
import json, os
HERE = os.path.dirname(os.path.abspath(__file__))

CHECKS = {
 'C09': dict(
   engine='graph',
   category='model_checking',
   text=('TLC executes a step-by-step transcription of DependencyGraph.get_ordered() '
         '(Graph.tla) on every labelled digraph with up to 4 (quick) / 5 (thorough) nodes and '
         'checks topological-permutation / cycle-reported invariants; every graph is replayed '
         'into the real DependencyGraph and the real output judged by the same oracle. '
         'Exhaustive in small scope is the right level for a 40-line ordering core whose bugs '
         'live in particular graph shapes.'),
   design_ref='DESIGN.md 3.4, 6 (C09)',
   note='Trusts TLC, the JSON record parser and the Python oracle (DFS cycle test, edge check).',
   technique='TLA+ transcription + TLC exhaustive enumeration + spec-to-code replay'),
}

NOT_YET = {
}

def main():
    props = [json.loads(l) for l in open(os.path.join(HERE, 'properties.jsonl'))]
    checks = []
    na = []
    for p in props:
        pid = p['id']
        if pid in CHECKS:
            c = CHECKS[pid]
            checks.append({
                'property_id': pid,
                'quick_cmd': './check %s --tier quick' % pid,
                'thorough_cmd': './check %s --tier thorough' % pid,
                'evidence_file': 'evidence/%s.json' % pid,
                'replay_cmd_template': './check %s --replay {path}' % pid,
                'engine': c['engine'],
                'level_claimed': {'category': c['category'], 'text': c['text'],
                                  'design_ref': c['design_ref']},
                'level_note': c['note'],
                'technique': c['technique'],
            })
        else:
            na.append({'property_id': pid,
                       'reason': NOT_YET.get(pid, 'check not built yet in this session; planned in DESIGN.md section 6')})
    manifest = {
        'version': 1,
        'setup_cmd': './setup.sh',
        'hooks': {
            'guard': 'DJANGO_EVOLUTION_VERIF',
            'enable': 'no source hooks: all observation goes through public extension points (signals, connection.execute_wrapper, management commands)',
            'baseline_off_cmd': 'cd /repo && /venv/bin/python -m pytest -ra -q -p no:cacheprovider --timeout=900 --continue-on-collection-errors',
            'source_commits': [],
            'add_only': True,
        },
        'engines': [
            {'name': 'graph', 'path': 'harness/engines/graph.py', 'serves_properties': ['C09'],
             'kind_free_text': 'TLC-enumerated dependency graphs replayed into DependencyGraph'},
        ],
        'checks': checks,
        'not_applicable': na,
        'notes': 'Model-based verification with explicit TLA+ specifications (spec/*.tla) checked by TLC and bound to the code by replay / trace validation. See DESIGN.md.',
    }
    with open(os.path.join(HERE, 'MANIFEST.json'), 'w') as fp:
        json.dump(manifest, fp, indent=1)
    print('wrote MANIFEST.json: %d checks, %d not applicable' % (len(checks), len(na)))

if __name__ == '__main__':
    main()
