#!/venv/bin/python
"""Regenerate MANIFEST.json from the table below (single source of truth)."""
import json, os
HERE = os.path.dirname(os.path.abspath(__file__))

CHECKS = {
 'C09': dict(
   engine='graph',
   category='model_checking',
   text=('TLC executes a step-by-step transcription of DependencyGraph.get_ordered() '
         '(Graph.tla) on every labelled digraph with up to 4 (quick) / 5 (thorough) nodes and '
         'checks topological-permutation / cycle-reported invariants; every graph is replayed '
         'into the real DependencyGraph and the real output judged by the same oracle. '
         'Exhaustive in small scope is the right level for a 40-line ordering core whose bugs '
         'live in particular graph shapes. Part 2 (EvoGraph.tla) transcribes the construction of the evolution graph, batching '
         'and execution order for projects with AFTER_/BEFORE_EVOLUTIONS declarations and replays them as real projects. Part 3 '
         '(MigGraph.tla) is the reference for evolutions next to Django migrations (AFTER_/BEFORE_MIGRATIONS per evolution and per '
         'app, migration dependencies, partly applied chains): TLC computes the requirements in force and their satisfiability, '
         'the real upgrade order is judged against them.'),
   design_ref='DESIGN.md 3.4, 6 (C09)',
   note='Trusts TLC, the JSON record parser and the Python oracle (DFS cycle test, edge check).',
   technique='TLA+ transcription + TLC exhaustive enumeration + spec-to-code replay'),
 'C03': dict(
   engine='mutseq',
   category='model_checking',
   text=('Optimizer.tla transcribes AppMutator._preprocess_mutations (both passes, regrouping, the '
         'object store that is rewritten in place) next to the reference semantics Sig!SimSeq; TLC '
         'enumerates every simulation-valid sequence up to length 2-3 (quick) / 3-4 (thorough) over three '
         'alphabets and evaluates OptAccepted, OptSameSig, OptSameData, OptLeavesDefsIntact, TwoPassAccepted, '
         'TwoPassSameSig on each. Every (sampled when >budget) sequence is replayed on real SQLite databases '
         'through three pipelines (one AppMutator per mutation; one for the sequence; Evolver+EvolveAppTask) and '
         'judged against the one-at-a-time run: signature ==/Diff, schema, rows, str() of each definition.'),
   design_ref='DESIGN.md 3.2, 6 (C03)',
   note='Trusts TLC, the concretisation (absmodel.py) and the SQLite projection (dbproj.py). Known findings are matched by (class, predicted-by-spec, cause, hazards) fingerprints computed by the specification.',
   technique='TLA+ transcription + TLC exhaustive enumeration + spec-to-code replay with one-at-a-time oracle'),
 'C18': dict(
   engine='mutseq',
   category='model_checking',
   text=('Optimizer.tla models ModelMutator grouping, the op types each mutation schedules, the merge rule '
         '(_are_ops_mergeable with Mergeable bound to the tuple found in the code) and which ops force a SQLite '
         'rebuild; TLC checks RebuildsNotWorse and OneRebuildPerMergeableRun for every valid sequence in scope. '
         'Replay counts CREATE TABLE "TEMP_TABLE" per table on the statement trace of the batched run and of the '
         'one-at-a-time run, compares them with each other (verdict) and with the predicted plan (binding).'),
   design_ref='DESIGN.md 3.2, 6 (C18)',
   note='Trusts TLC and the statement recorder (connection.execute_wrapper). Tables linked by a RenameModel count as one table.',
   technique='TLA+ transcription of the merge/rebuild plan + TLC + statement-trace replay'),
 'C04': dict(
   engine='runs', category='model_checking',
   text=('Evolver.tla models the upgrade-run protocol over the persistent state (tables, stored signature, '
         'Version/Evolution rows, open transaction); TLC checks Converged and RerunIsNoop for every history of '
         'deployments and runs in scope and prints one history per reachable state. The histories are replayed on a '
         'synthetic project (real evolutions discovered the normal way) through Evolver.evolve() and the evolve command; '
         'every run is traced and accepted by EvolverTrace, and each completed run is judged against a real fresh install '
         '(schema, stored signature, recorded labels) plus a re-run through the command that must write nothing.'),
   design_ref='DESIGN.md 3.5, 6 (C04)',
   note='Chain-family evolutions make the version abstraction exact. Trusts TLC, the runner recorders and the SQLite projection.',
   technique='TLA+ design model + TLC history generation + replay + trace validation (EvolverTrace)'),
 'C07': dict(
   engine='runs', category='fault_enumeration',
   text=('Evolver.tla explores a fault at every abstract statement of every unit of a run and checks '
         'FailedRunIsInvisible / RejectTouchesNothing; each fault history is replayed with an injected OperationalError at '
         'the corresponding real statement, traced and validated by EvolverTrace; additionally every concrete statement '
         'index k of single-unit upgrades (all version pairs, fresh creation) is made to fail. Verdict: the failing unit '
         'leaves tables, signature and Evolution rows as they were, the error names the statement, and a fault-free retry converges.'),
   design_ref='DESIGN.md 3.5, 6 (C07)',
   note='Faults are injected by connection.execute_wrapper before the statement executes; only schema/data statements of application tables are fault points (deferred SQL of new models not yet enumerated).',
   technique='TLA+ fault model + TLC + fault injection at every statement + trace validation'),
 'C08': dict(
   engine='runs', category='model_checking',
   text=('Evolver.tla keeps Evolution rows as a bag and counts executions per label; TLC checks ExecutedAtMostOnce, '
         'RecordedAtMostOnce, RecordedWithinVersions, RecordedOnlyWithTables, FreshRecordsWithoutExecuting over histories with '
         'partial upgrades, re-runs, failed runs and two apps sharing labels. Replayed histories are judged on the raw rows of '
         'django_evolution after every run and on the applied_evolution signals across the history; traces validated by EvolverTrace. '
         'Ledger.tla adds the repair commands: runs interleaved with mark-evolution-applied [--all] and wipe-evolution [--app-label]; '
         'its operation sequences are replayed through the real commands and every outcome and the rows compared step by step.'),
   design_ref='DESIGN.md 3.5, 6 (C08)',
   note='mark-evolution-applied / wipe-evolution interleavings are not yet in the model.',
   technique='TLA+ design model + TLC history generation + replay + trace validation'),
 'C17': dict(
   engine='runs', category='model_checking',
   text=('The signal log is a variable of Evolver.tla; TLC checks EvolvingAtMostOnce, EvolvingBeforeAnyChange, '
         'ExactlyOneTerminalSignal, EvolvedIffSaved, PairedUnlessFailed, NoTerminalWithoutEvolving for fault-free and faulted '
         'runs. Every replayed run is recorded through receivers on all nine signals interleaved with the statement and '
         'commit stream; EvolverTrace must accept it and the signal clauses are evaluated after every event; direct checks '
         'cover pairing, payloads, statements outside windows and the management lock.'),
   design_ref='DESIGN.md 3.5, 6 (C17)',
   note='Receivers are connected in the runner process (weak=False).',
   technique='TLA+ design model + TLC + trace validation of recorded signal/statement streams'),
 'C12': dict(
   engine='runs', category='model_checking',
   text=('Perturb.tla (on top of Sig/Optimizer) builds every valid evolution in scope, applies every single perturbation '
         '(drop, duplicate, swap, retarget, rename, remove initial, change attribute, flip null) and decides with the '
         'transcribed pipeline (changed-models filter, two optimisation passes, Sim, default-aware DiffEmpty) whether the '
         'command must reject (sim-fails / residual) or may execute (reaches). A stratified sample is written into a synthetic '
         'project and run through `evolve --execute --noinput`; verdict: rejected => no write statement and identical '
         'schema, rows and bookkeeping; executed => a following Evolver reports nothing required and an empty diff.'),
   design_ref='DESIGN.md 6 (C12)',
   note='The decision of the model and of the command agreed on every replayed case (binding); error type of rejections is checked too.',
   technique='TLA+ transcription + TLC enumeration of perturbed evolutions + replay through the management command'),
 'C01': dict(
   engine='mutseq', category='model_checking',
   text=('Schema.tla (on Sig/Optimizer) defines Fresh(sig) -- the schema Django creates for a signature -- and the intended '
         'operational effect of every mutation on an abstract database; TLC checks SchemaIsFresh, UntouchedTablesEqual and '
         'Realisable for every valid sequence in scope (relations, unique_together, unique/indexed columns, name reuse). '
         'Each sequence is executed on real SQLite databases (index bookkeeping scanned from the database) one mutation at a time, '
         'as one AppMutator run and through Evolver+EvolveAppTask, and the resulting schema compared with the schema Django '
         'creates from scratch for the evolved models, plus PRAGMA foreign_key_check / integrity_check.'),
   design_ref='DESIGN.md 3.3, 6 (C01)',
   note='Fresh oracle used only when the rendered models have an empty diff with the evolved signature. Column order, index names and AUTOINCREMENT are ignored.',
   technique='TLA+ design model + TLC enumeration + spec-to-code replay with fresh-creation oracle'),
 'C02': dict(
   engine='mutseq', category='model_checking',
   text=('The signature model carries a ghost data component per column (original / NULLs filled / initial everywhere / NULL '
         'everywhere) through every mutation; TLC checks OptSameData / TwoPassSameData over all valid sequences. The replay '
         'inserts rows (NULLs, empty strings, quotes, percent signs, negative numbers, FK links) before the evolution and compares '
         'every surviving cell, added-column initials and NULL replacement with an independent row reference, for all three pipelines.'),
   design_ref='DESIGN.md 3.3, 6 (C02)',
   note='Row palette is fixed; retyped columns are compared modulo SQLite type affinity.',
   technique='TLA+ ghost-data model + TLC enumeration + replay with row-level reference'),
 'C11': dict(
   engine='refs', category='model_checking',
   text=('Refs.tla reduces a project signature to its cross-references and transcribes the relation-relevant part of '
         'RenameModel, RenameAppLabel, RenameField, DeleteField, DeleteModel, DeleteApplication; TLC checks NoDangling and the '
         'action property RenameRewritesAll for every assignment of relation targets across two apps and every sequence up to '
         'the bound. Every behaviour is replayed into the real simulate() methods on a real ProjectSignature (names that are '
         'prefixes of one another) and the signature walked after each step.'),
   design_ref='DESIGN.md 6 (C11)',
   note='Signature level; the database-level half (foreign_key_check after execution) is part of the C01 check.',
   technique='TLA+ transcription + TLC exhaustive enumeration + spec-to-code replay'),
 'C05': dict(
   engine='sigpair', category='model_checking',
   text=('Hint.tla transcribes FieldSignature/ModelSignature.diff, the __eq__ methods and Diff.evolution() on top of Sig!Sim; '
         'TLC enumerates every (stored, edited) signature pair reachable by the developer-edit actions (one per item of the '
         'quantifier, incl. explicit defaults and reordered lists) and checks HintCloses, SelfDiffEmpty, EqIffDiffEmptyBothWays. '
         'Every pair is rebuilt as real ProjectSignatures by direct construction and pushed through the real Diff, '
         'Diff.evolution(), simulate() and __eq__; the hinted mutation list must equal the transcription\'s (binding) and the '
         'residual diff must be empty (verdict).'),
   design_ref='DESIGN.md 3.1, 6 (C05)',
   note='Placeholders for required initial values are left in place. db_table_comment / constraints edits are not in the edit alphabet yet.',
   technique='TLA+ transcription of diff/hint + TLC enumeration of signature pairs + replay'),
 'C06': dict(
   engine='codec', category='model_checking',
   text=('Codec.tla defines a depth-bounded value grammar (primitives, containers, Q trees with AND/OR/XOR/negation/nesting, F, '
         'Value, combined expressions, Deferrable) and transcribes the storage pipeline with the real container semantics '
         '(json arrays, ordered dicts, the type dispatch of _get_serializer_for_value); TLC evaluates ReadBackEqual(ModuloTuples) '
         'and ReserialiseSameText for every value. Each value is placed into a real signature (index condition/expressions/include, '
         'constraint check/deferrable/attrs, field attribute) and pushed through serialize+json+deserialize and through '
         'Version.save()/reload on SQLite: ==, Diff both ways, re-serialised text, and v2->v1->v2 for field attributes.'),
   design_ref='DESIGN.md 3.6, 6 (C06)',
   note='Byte-level escaping is exercised only through a string palette (quotes, backslash, unicode, percent).',
   technique='TLA+ transcription of the codec dispatch + TLC enumeration of values + storage round trip replay'),
 'C13': dict(
   engine='codec', category='model_checking',
   text=('Codec.tla transcribes serialize_to_python per type with explicit error sinks and a precedence-climbing re-parse of '
         'combined expressions; TLC checks RenderTotal and RenderParsesBack for every value of the grammar. Each value is rendered '
         'by the real code and the text evaluated by Python (must give the value back, Q trees modulo the flattening Python\'s '
         'own operators perform); a share is carried by real ChangeMeta/AddField mutations through a real task\'s '
         'get_evolution_content(), exec()-ed as a module, and the loaded mutations compared by simulated signature and generated SQL; '
         'placeholders must be explicit and must not load.'),
   design_ref='DESIGN.md 3.6, 6 (C13)',
   note='The Python interpreter is the oracle for the meaning of rendered text.',
   technique='TLA+ transcription of the renderer + TLC enumeration of values + exec() replay'),
 'C14': dict(
   engine='preview', category='model_checking',
   text=('Preview.tla models a pending upgrade as lowering steps, some iterating over sets, lowered twice independently (preview run, '
         'execution run); TLC checks PreviewEqualsExecution / LoweringDeterministic with sorted iteration and requires them to FAIL '
         'without it. Pending upgrades carrying the multi-entry-set hazard (unique_together / index_together changes with 2-4 entries) '
         'and the two-app chain histories are run as `evolve --sql`, `evolve --execute`, `evolve --hint`, `evolve --hint --sql` in '
         'fresh interpreters under several PYTHONHASHSEED values on copies of one database; executed statements (parameters '
         'substituted by the documented rule) must equal the preview, and every output must be identical across seeds.'),
   design_ref='DESIGN.md 6 (C14)',
   note='Only evolution SQL is previewed by the command; model creation and migrations are outside the comparison.',
   technique='TLA+ model of two independent lowerings with set-iteration nondeterminism + TLC; subprocess replay across hash seeds'),
 'C15': dict(
   engine='purge', category='model_checking',
   text=('Purge.tla: three apps whose table names are prefixes of each other and every subset of four optional relations (own M2M, '
         'M2M into another app, FK and M2M from another app); actions uninstall / drop a model with a DeleteModel evolution / '
         'upgrade with or without --purge; TLC checks NothingLiveDropped, NoPurgeKeepsEverything, PurgeDropsExactlyOwned, '
         'SigMatchesAfterPurge over every operation sequence. The sequences are replayed on a real project with rows in every table '
         '(M2M tables included), alternating `evolve --execute [--purge]` and the Evolver API; after every upgrade the table set, the '
         'schema and rows of surviving tables and the stored signature are compared with the specification.'),
   design_ref='DESIGN.md 6 (C15)',
   note='Project layouts are the 16 relation subsets of one three-app universe; hand-written DeleteApplication evolutions are exercised only through the purge task.',
   technique='TLA+ model of app/table ownership and purge + TLC; operation sequences replayed on a real project'),
 'C16': dict(
   engine='route', category='model_checking',
   text=('Route.tla: one app, three models, every assignment of the models to two databases, either order of evolving them, every '
         'valid evolution of bounded length over AddField / ChangeField / RenameModel (new table) / DeleteModel incl. mutations on '
         'the renamed model; TLC checks OnlyRoutedModels, OtherDatabaseUntouched and Converged. Scenarios are replayed on a real '
         'two-database project with a router through `evolve --database X --execute` and Evolver(database_name=X): the evolved '
         'database must hold exactly the routed models at their target state and list exactly them in its stored signature, the other '
         'database (tables, rows, bookkeeping tables) must be unchanged, and no run may fail.'),
   design_ref='DESIGN.md 6 (C16)',
   note='Routing is by model name through allow_migrate / db_for_write; relations across databases are not generated.',
   technique='TLA+ model of per-database routing of mutations + TLC; scenarios replayed on a two-database project'),
 'C10': dict(
   engine='handover', category='model_checking',
   text=('Handover.tla is a step machine of one upgrade of an app with K evolutions, an optional covering evolution and '
         'MoveToDjangoMigrations(mark_applied = first S of M migrations): run pending evolutions, record the marked migrations, run the '
         'remaining ones lowest first, save the signature; then a second upgrade. Init ranges over K, S, the start state (fresh, after j '
         'evolutions, already handed over with a shorter chain) and companion apps; TLC checks RecordedExactlyOnce, MarkedNotExecuted, '
         'RemainingExecutedInOrder, PendingEvolutionsFirst, SignatureListsRecorded, SchemaComplete, NoEvolutionSqlOnceOnMigrations, '
         'RerunIsNoop. Every configuration is built as a real project with evolution modules and migration files and upgraded through '
         '`evolve --execute`, the Evolver API or `migrate`, twice; signals, django_migrations rows with multiplicity, django_evolution '
         'rows, columns and the stored app signature are compared with the specification.'),
   design_ref='DESIGN.md 6 (C10)',
   note='Migration chains are linear AddField chains on disk (not in-memory migrations); hints after the handover are not requested.',
   technique='TLA+ step machine of the handover + TLC over all configurations; every configuration replayed on a real project'),
}

NOT_YET = {
}

def main():
    props = [json.loads(l) for l in open(os.path.join(HERE, 'properties.jsonl'))]
    checks = []
    na = []
    for p in props:
        pid = p['id']
        if pid in CHECKS:
            c = CHECKS[pid]
            checks.append({
                'property_id': pid,
                'quick_cmd': './check %s --tier quick' % pid,
                'thorough_cmd': './check %s --tier thorough' % pid,
                'evidence_file': 'evidence/%s.json' % pid,
                'replay_cmd_template': './check %s --replay {path}' % pid,
                'engine': c['engine'],
                'level_claimed': {'category': c['category'], 'text': c['text'],
                                  'design_ref': c['design_ref']},
                'level_note': c['note'],
                'technique': c['technique'],
            })
        else:
            na.append({'property_id': pid,
                       'reason': NOT_YET.get(pid, 'check not built yet in this session; planned in DESIGN.md section 6')})
    manifest = {
        'version': 1,
        'setup_cmd': './setup.sh',
        'hooks': {
            'guard': 'DJANGO_EVOLUTION_VERIF',
            'enable': 'no source hooks: all observation goes through public extension points (signals, connection.execute_wrapper, management commands)',
            'baseline_off_cmd': 'cd /repo && /venv/bin/python -m pytest -ra -q -p no:cacheprovider --timeout=900 --continue-on-collection-errors',
            'source_commits': [],
            'add_only': True,
        },
        'engines': [
            {'name': 'graph', 'path': 'harness/engines/graph.py', 'serves_properties': ['C09'],
             'kind_free_text': 'TLC-enumerated dependency graphs replayed into DependencyGraph'},
            {'name': 'mutseq', 'path': 'harness/engines/mutseq.py', 'serves_properties': ['C01', 'C02', 'C03', 'C18'],
             'kind_free_text': 'TLC-enumerated mutation sequences replayed through three real pipelines on SQLite'},
            {'name': 'sigpair', 'path': 'harness/engines/sigpair.py', 'serves_properties': ['C05'],
             'kind_free_text': 'signature pairs from Hint.tla rebuilt as real ProjectSignatures: Diff, hint, simulate, __eq__'},
            {'name': 'codec', 'path': 'harness/engines/codec.py', 'serves_properties': ['C06', 'C13'],
             'kind_free_text': 'values of Codec.tla concretised: storage round trip through Version rows; hint text exec()'},
            {'name': 'preview', 'path': 'harness/engines/preview.py', 'serves_properties': ['C14'],
             'kind_free_text': 'pending upgrades run as evolve --sql / --execute / --hint in fresh interpreters under several hash seeds'},
            {'name': 'purge', 'path': 'harness/engines/purge.py', 'serves_properties': ['C15'],
             'kind_free_text': 'uninstall / DeleteModel / purge sequences from Purge.tla replayed on a three-app project'},
            {'name': 'route', 'path': 'harness/engines/route.py', 'serves_properties': ['C16'],
             'kind_free_text': 'router configurations and evolutions from Route.tla replayed on a two-database project'},
            {'name': 'handover', 'path': 'harness/engines/handover.py', 'serves_properties': ['C10'],
             'kind_free_text': 'handover configurations of Handover.tla built as projects with evolutions and migration files, upgraded twice'},
            {'name': 'ledger', 'path': 'harness/engines/ledger.py', 'serves_properties': ['C08'],
             'kind_free_text': 'runs interleaved with mark-evolution-applied / wipe-evolution from Ledger.tla, replayed through the commands'},
            {'name': 'miggraph', 'path': 'harness/engines/miggraph.py', 'serves_properties': ['C09'],
             'kind_free_text': 'projects with evolution apps, migration apps and ordering declarations from MigGraph.tla; executed order judged'},
            {'name': 'refs', 'path': 'harness/engines/refs.py', 'serves_properties': ['C11'],
             'kind_free_text': 'TLC-enumerated reference graphs and rename/delete sequences replayed into real simulate() methods'},
            {'name': 'evograph', 'path': 'harness/engines/evograph.py', 'serves_properties': ['C09'],
             'kind_free_text': 'projects with dependency declarations; executed order judged against requirements'},
            {'name': 'runs', 'path': 'harness/engines/runs.py', 'serves_properties': ['C04', 'C07', 'C08', 'C12', 'C17'],
             'kind_free_text': 'TLC-generated run histories replayed on a synthetic Django project (one interpreter per run); recorded traces validated by EvolverTrace.tla'},
        ],
        'checks': checks,
        'not_applicable': na,
        'notes': 'Model-based verification with explicit TLA+ specifications (spec/*.tla) checked by TLC and bound to the code by replay / trace validation. See DESIGN.md.',
    }
    with open(os.path.join(HERE, 'MANIFEST.json'), 'w') as fp:
        json.dump(manifest, fp, indent=1)
    print('wrote MANIFEST.json: %d checks, %d not applicable' % (len(checks), len(na)))

if __name__ == '__main__':
    main()
