#!/bin/sh
# Offline setup: nothing is compiled or fetched. Parse every specification and
# import the harness so that a broken tree is reported here, not by a check.
set -e
cd "$(dirname "$0")"
for f in spec/*.tla; do
  case "$f" in *MC_*) ;; esac
  (cd spec && tla-sany "$(basename "$f")" > /dev/null) || { echo "SANY failed on $f"; exit 1; }
done
PYTHONHASHSEED=0 /venv/bin/python -c "
import sys; sys.path.insert(0, '.')
import harness.common, harness.tlc, harness.checks
print('harness imports ok; checks:', sorted(harness.checks.REGISTRY))
"
